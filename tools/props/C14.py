"""C14 -- collision data act identically after loading, basis change and interpolation."""
import itertools
import json
import os
import pathlib
import shutil
import tempfile

import numpy as np

import gen_collision
import vlib

EXPLANATION = (
    "The facts the loading state machine depends on (order and exception class of every "
    "check of CollisionArray.newFromDirectory, the basis labels of the equal-size and the "
    "interpolation branch, the statements and handlers of BoltzmannSolver.loadCollisions), "
    "the array pipeline of interpolateCollisionArray (evaluate -> truncate -> moveaxis -> "
    "reshape, meshgrid layout of the points) and the matrix pipeline of "
    "Polynomial.changeBasis are re-extracted from the Python AST on every run. Coq proves, "
    "for every number of particles, every size and every operation sequence: a failed load "
    "leaves the installed array in place and is reported as the load's own error; a "
    "successful load holds for every ordered pair exactly its file's numbers on the "
    "requested grid and basis; the faults of the quantifier are CollisionLoadError and are "
    "the only reasons for failure; entry (a,alpha,beta,b,j,k) of the interpolated data is "
    "the evaluation at target point (alpha,beta) of pair (a,b); the inverse-transpose basis "
    "change leaves the operator action on every distribution unchanged (mathcomp, any "
    "field). The model is compared exactly with the running code on op sequences over "
    "synthetic HDF5 directories and on tagged arrays; the property is evaluated directly on "
    "the implementation against an independent numpy reference.")

NAMES = ["a", "b", "c"]
BASES = ["Cardinal", "Chebyshev"]
KIND_CODE = {"ok": 0, "CollisionLoadError": 1, "AssertionError": 2, "other": 3}


# ----------------------------------------------------------------------------------
# independent reference (numpy only; nothing from WallGo)

def nodes(N):
    rz = -np.cos(np.arange(1, N) * np.pi / N)
    rp = -np.cos(np.arange(0, N - 1) * np.pi / (N - 1))
    return rz, rp


def _T(n, x):
    c = np.zeros(n + 1)
    c[n] = 1.0
    return np.polynomial.chebyshev.chebval(x, c)


def tbar(n, x):
    """Chebyshev polynomial made to vanish at x = +-1"""
    return _T(n, x) - (1.0 if n % 2 == 0 else x)


def ttil(n, y):
    """Chebyshev polynomial made to vanish at y = +1"""
    return _T(n, y) - 1.0


def cheb_mats(N):
    rz, rp = nodes(N)
    m1 = np.array([[tbar(j + 2, x) for j in range(N - 1)] for x in rz])
    m2 = np.array([[ttil(k + 1, y) for k in range(N - 1)] for y in rp])
    return m1, m2


def lagrange_matrix(xs, targets):
    """L[t, s] = prod_{m != s} (x_t - x_m) / (x_s - x_m)"""
    xs = np.asarray(xs)
    L = np.ones((len(targets), len(xs)))
    for s in range(len(xs)):
        for m in range(len(xs)):
            if m != s:
                L[:, s] *= (np.asarray(targets) - xs[m]) / (xs[s] - xs[m])
    return L


def interp_mats(Ns, Nt):
    """values on the interior source nodes (zero at rz=+-1, rp=+1) -> values at target nodes"""
    rzs, rps = nodes(Ns)
    rzt, rpt = nodes(Nt)
    lz = lagrange_matrix(np.concatenate(([-1.0], rzs, [1.0])), rzt)[:, 1:-1]
    lp = lagrange_matrix(np.concatenate((rps, [1.0])), rpt)[:, :-1]
    return lz, lp


def reference_block(D, Ns, bf, Nt, br):
    """what the (N_t, br) array must hold for one pair whose file holds D on (N_s, bf)"""
    X = np.asarray(D, dtype=float)
    cur = bf
    if Nt != Ns:
        if cur == "Cardinal":
            m1, m2 = cheb_mats(Ns)
            X = np.einsum("abjk,jJ,kK->abJK", X, m1, m2)
        lz, lp = interp_mats(Ns, Nt)
        X = np.einsum("ta,ub,abjk->tujk", lz, lp, X)[..., :Nt - 1, :Nt - 1]
        cur = "Chebyshev"
    if cur != br:
        m1, m2 = cheb_mats(Nt)
        if br == "Cardinal":
            m1, m2 = np.linalg.inv(m1), np.linalg.inv(m2)
        X = np.einsum("abjk,jJ,kK->abJK", X, m1, m2)
    return X


def low_order_distribution(rs, P, nt):
    """delta f_b = sum_{j,k<nt} c[b,j,k] Tbar_{j+2}(x) Ttil_{k+1}(y)"""
    c = rs.normal(size=(P, nt, nt))

    def values(N):
        rz, rp = nodes(N)
        tz = np.array([[tbar(j + 2, x) for j in range(nt)] for x in rz])
        tp = np.array([[ttil(k + 1, y) for k in range(nt)] for y in rp])
        return np.einsum("xj,yk,bjk->bxy", tz, tp, c)
    return c, values


def representation(c, values, N, basis):
    """coefficients of delta f on grid N in `basis` (the Chebyshev ones are N-independent)"""
    if basis == "Chebyshev":
        out = np.zeros((c.shape[0], N - 1, N - 1))
        out[:, :c.shape[1], :c.shape[2]] = c
        return out
    return values(N)


# ----------------------------------------------------------------------------------
# fixtures

def file_data(seed, N):
    return np.random.default_rng(seed).normal(size=(N - 1,) * 4)


def write_dir(root, spec):
    """spec: {"a_b": {"N":7, "basis":"Chebyshev", "seed":5}, ...}"""
    import h5py
    d = pathlib.Path(tempfile.mkdtemp(dir=root))
    for key, f in spec.items():
        p1, p2 = key.split("_")
        with h5py.File(str(d / ("collisions_%s_%s.hdf5" % (p1, p2))), "w") as h:
            m = h.create_dataset("metadata", data=np.zeros(1))
            m.attrs["Basis Size"] = f["N"]
            m.attrs["Basis Type"] = f["basis"]
            h.create_dataset("%s, %s" % (p1, p2), data=file_data(f["seed"], f["N"]))
    return d


def particle(name):
    import WallGo
    return WallGo.Particle(name=name, index=0, msqVacuum=lambda f: 0.0,
                           msqDerivative=lambda f: 0.0, statistics="Fermion", totalDOFs=1)


def make_solver(N, req):
    import WallGo
    grid = WallGo.Grid(3, N, 1.0, 1.0)
    return WallGo.BoltzmannSolver(grid, "Cardinal", req, "Spectral")


def gen_dir_spec(rng, names, Ns, basis, fault, seed0):
    spec = {}
    s = seed0
    for p1, p2 in itertools.product(names, repeat=2):
        spec["%s_%s" % (p1, p2)] = dict(N=Ns, basis=basis, seed=s)
        s += 1
    keys = sorted(spec)
    victim = rng.choice(keys)
    if fault == "missing":
        del spec[victim]
    elif fault == "size":
        other = rng.choice([n for n in (3, 5, 7, 9) if n != Ns])
        spec[victim]["N"] = other
    elif fault == "basis":
        spec[victim]["basis"] = "Cardinal" if basis == "Chebyshev" else "Chebyshev"
    return spec, s


def gen_scenario(rng, idx):
    """one solver, a sequence of particle-list updates and loads"""
    N = rng.choice([3, 5, 5, 7])
    req = rng.choice(BASES)
    ops = []
    seed = 1 + 100 * idx
    k = rng.randint(1, 3)
    names = rng.sample(NAMES, k)
    ops.append(["particles", names])
    for _ in range(rng.randint(2, 5)):
        if rng.random() < 0.25:
            names = rng.sample(NAMES, rng.randint(1, 3))
            ops.append(["particles", names])
            continue
        fault = rng.choice(["none", "none", "none", "missing", "size", "basis", "oversized"])
        if fault == "oversized":
            sizes = [n for n in (3, 5) if n < N]
            if not sizes:
                fault = "none"
        if fault == "oversized":
            Ns = rng.choice(sizes)
        else:
            Ns = rng.choice([n for n in (3, 5, 7, 9) if n >= N])
        if len(names) == 3 and Ns == 9:
            Ns = 7 if N <= 7 else 9
        basis = rng.choice(BASES)
        # files may name more particles than the solver currently uses
        fnames = sorted(set(names) | (set(rng.sample(NAMES, 1)) if rng.random() < 0.3
                                      else set()))
        spec, seed = gen_dir_spec(rng, fnames, Ns, basis, fault, seed)
        ops.append(["load", spec, fault])
    return dict(N=N, req=req, ops=ops)


def classify(exc):
    from WallGo.exceptions import CollisionLoadError
    if isinstance(exc, CollisionLoadError):
        return "CollisionLoadError"
    if isinstance(exc, AssertionError):
        return "AssertionError"
    return "other"


def summarize(ca, spec, N_solver, tol=1e-9):
    """state summary of an installed array: (N, label, {(i,j): (seed, ok)})"""
    if ca is None:
        return None
    names = [p.name for p in ca.particles]
    N = ca.getBasisSize() + 1
    label = ca.getBasisType()
    arr = np.asarray(ca[:])
    blocks = {}
    worst = 0.0
    for i, j in itertools.product(range(len(names)), repeat=2):
        f = spec.get("%s_%s" % (names[i], names[j]))
        blk = arr[i, :, :, j]
        ok = False
        if f is not None:
            ref = reference_block(file_data(f["seed"], f["N"]), f["N"], f["basis"], N, label)
            if ref.shape == blk.shape:
                err = float(np.max(np.abs(ref - blk)) / (np.max(np.abs(ref)) + 1e-300))
                worst = max(worst, err)
                ok = err < tol
        blocks[(i, j)] = (f["seed"] if f is not None else 0, ok)
    return dict(N=N, label=label, blocks=blocks, worst=worst, names=names)


def run_scenario(sc, root):
    """returns list of per-load observations"""
    b = make_solver(sc["N"], sc["req"])
    obs = []
    last_spec = None
    for op in sc["ops"]:
        if op[0] == "particles":
            b.updateParticleList([particle(n) for n in op[1]])
            continue
        spec = op[1]
        d = write_dir(root, spec)
        before = b.collisionArray
        before_copy = None if before is None else np.array(before[:], copy=True)
        try:
            b.loadCollisions(d)
            kind = "ok"
            detail = ""
        except Exception as e:       # noqa: BLE001
            kind = classify(e)
            detail = "%s: %s" % (type(e).__name__, " ".join(str(e).split())[:100])
        after = b.collisionArray
        if kind == "ok":
            last_spec = spec
        same = (after is before) and (before is None or
                                      np.array_equal(before_copy, np.asarray(after[:])))
        obs.append(dict(kind=kind, detail=detail, unchanged=same,
                        summary=summarize(after, last_spec or {}, sc["N"]),
                        names=[p.name for p in b.offEqParticles], fault=op[2]))
        shutil.rmtree(d, ignore_errors=True)
    return obs


# ----------------------------------------------------------------------------------
# Coq side of the op-sequence differential

CORR_HEADER = """From Coq Require Import List Arith Bool.
From WG Require Import Model.CollisionLoad.
From GenC14 Require Import CollisionGen.
Import ListNotations.
Definition mkdir (l : list (nat * nat * file)) : directory :=
  fun p q => match find (fun e => (fst (fst e) =? p) && (snd (fst e) =? q)) l with
             | Some e => Some (snd e) | None => None end.
Definition summ (s : solver) : option (nat * basis * list (option block)) :=
  match s with
  | None => None
  | Some a => Some (a_N a, a_label a,
                    map (fun ij => a_blocks a (fst ij) (snd ij)) (list_prod [0;1;2] [0;1;2]))
  end.
Fixpoint trace (N : nat) (req : basis) (ops : list op) (parts : list nat) (s : solver) :=
  match ops with
  | [] => []
  | OpParticles ps :: ops' => trace N req ops' ps s
  | OpLoad dir :: ops' =>
    let (s1, o) := loadCollisions the_cfg s dir N req parts in
    (o, summ s1) :: trace N req ops' parts s1
  end.
Definition code (o : outcome unit) : nat :=
  match o with Ok _ => 0 | Err CollisionLoadError => 1 | Err AssertionError => 2
             | Err OtherError => 3 end.
Definition blk_eqb (a b : option block) : bool :=
  match a, b with
  | None, None => true
  | Some x, Some y => (b_data x =? b_data y) && (b_size x =? b_size y) &&
                      basis_eqb (b_basis x) (b_basis y) && eqb (b_ok x) (b_ok y)
  | _, _ => false
  end.
Fixpoint blks_eqb (a b : list (option block)) : bool :=
  match a, b with
  | [], [] => true
  | x :: a', y :: b' => blk_eqb x y && blks_eqb a' b'
  | _, _ => false
  end.
Definition summ_eqb (a b : option (nat * basis * list (option block))) : bool :=
  match a, b with
  | None, None => true
  | Some (n1, l1, b1), Some (n2, l2, b2) => (n1 =? n2) && basis_eqb l1 l2 && blks_eqb b1 b2
  | _, _ => false
  end.
Fixpoint obs_eqb (a : list (outcome unit * option (nat * basis * list (option block))))
         (b : list (nat * option (nat * basis * list (option block)))) : bool :=
  match a, b with
  | [], [] => true
  | (o, s) :: a', (c, t) :: b' => (code o =? c) && summ_eqb s t && obs_eqb a' b'
  | _, _ => false
  end.
Definition chk N req ops expected : bool := obs_eqb (trace N req ops [] None) expected.
"""


def coq_scenario(sc, obs):
    pid = {n: i for i, n in enumerate(NAMES)}
    ops = []
    for op in sc["ops"]:
        if op[0] == "particles":
            ops.append("OpParticles [%s]" % "; ".join(str(pid[n]) for n in op[1]))
        else:
            ents = []
            for key, f in sorted(op[1].items()):
                p1, p2 = key.split("_")
                ents.append("(%d, %d, mkfile %d %s %d)" % (pid[p1], pid[p2], f["N"],
                                                           f["basis"], f["seed"]))
            ops.append("OpLoad (mkdir [%s])" % "; ".join(ents))
    exp = []
    for o in obs:
        s = o["summary"]
        if s is None:
            st = "None"
        else:
            blks = []
            for i, j in itertools.product(range(3), repeat=2):
                if (i, j) in s["blocks"]:
                    seed, ok = s["blocks"][(i, j)]
                    blks.append("Some (mkblock %d %d %s %s)" % (
                        seed, s["N"], s["label"], "true" if ok else "false"))
                else:
                    blks.append("None")
            st = "Some (%d, %s, [%s])" % (s["N"], s["label"], "; ".join(blks))
        exp.append("(%d, %s)" % (KIND_CODE[o["kind"]], st))
    return "chk %d %s [%s] [%s]" % (sc["N"], sc["req"], "; ".join(ops), "; ".join(exp))


# ----------------------------------------------------------------------------------
# layout correspondence: the real interpolateCollisionArray on a tagged evaluation

def tagged_interpolation(P, Ns, Nt):
    """run the real interpolateCollisionArray with Polynomial.evaluate replaced by a tagged
    integer array; returns (flat result, recorded points, axes)"""
    import WallGo
    from WallGo.collisionArray import CollisionArray
    from WallGo.polynomial import Polynomial
    src = WallGo.Grid(3, Ns, 1.0, 1.0)
    tgt = WallGo.Grid(3, Nt, 1.0, 1.0)
    parts = [particle(n) for n in NAMES[:P]]
    data = np.zeros((P, Ns - 1, Ns - 1, P, Ns - 1, Ns - 1))
    poly = Polynomial(data, src, ("Array", "Cardinal", "Cardinal", "Array", "Chebyshev",
                                  "Chebyshev"), CollisionArray.AXIS_TYPES, endpoints=False)
    ca = CollisionArray.newFromPolynomial(poly, parts)
    rec = {}
    orig = Polynomial.evaluate

    def fake(self, compactCoord, axes=None):
        rec["points"] = np.array(compactCoord)
        rec["axes"] = tuple(axes)
        npts = np.asarray(compactCoord).shape[1]
        shape = (npts, P, P, Ns - 1, Ns - 1)
        return np.arange(int(np.prod(shape)), dtype=float).reshape(shape)

    Polynomial.evaluate = fake
    try:
        out = CollisionArray.interpolateCollisionArray(ca, tgt)
    finally:
        Polynomial.evaluate = orig
    res = np.asarray(out[:])
    return res, rec, tgt


LAYOUT_HEADER = """From Coq Require Import List ZArith Bool.
From WG Require Import Lib.Reshape.
From GenC14 Require Import CollisionGen.
Import ListNotations.
Fixpoint zeq (a b : list Z) : bool :=
  match a, b with [], [] => true | x :: a', y :: b' => Z.eqb x y && zeq a' b' | _, _ => false end.
Definition tagged (sh : list nat) : arr Z := of_list 0%Z sh (map Z.of_nat (seq 0 (prod sh))).
Definition chk_layout (P Nt ns npts : nat) (want : list Z) : bool :=
  zeq (to_list (interp_layout P Nt (tagged [npts; P; P; ns; ns]))) want &&
  Nat.eqb (length want) (P * (Nt - 1) * (Nt - 1) * P * (Nt - 1) * (Nt - 1)).
Definition chk_points (Nt : nat) (axes : list nat) (want : list Z) : bool :=
  zeq (to_list (grid_points Nt (fun a => Z.of_nat a) (fun b => (100 + Z.of_nat b)%Z) (-1)%Z)) want
  && forallb (fun p => Nat.eqb (fst p) (snd p)) (combine axes eval_axes)
  && Nat.eqb (length axes) (length eval_axes).
"""


def zlist(v):
    return "[" + "; ".join("(%d)%%Z" % int(x) for x in v) + "]"


# ----------------------------------------------------------------------------------
# direct validation

def report(ctx, what, rep, key):
    """first failing input of each class is reported (and gets a replay file); the others
    of the same class are only counted"""
    seen = getattr(ctx, "_c14_seen", None)
    if seen is None:
        seen = ctx._c14_seen = {}
    seen[key] = seen.get(key, 0) + 1
    if seen[key] == 1:
        return ctx.fail_input(what, rep, key=key)
    return False


def load_joint(root, P, Ns, bf, Nt, br, seed0, names=None):
    names = names or NAMES[:P]
    spec = {}
    s = seed0
    for p1, p2 in itertools.product(names, repeat=2):
        spec["%s_%s" % (p1, p2)] = dict(N=Ns, basis=bf, seed=s)
        s += 1
    d = write_dir(root, spec)
    b = make_solver(Nt, br)
    b.updateParticleList([particle(n) for n in names])
    b.loadCollisions(d)
    shutil.rmtree(d, ignore_errors=True)
    return b, spec


def direct_case(ctx, root, P, Ns, bf, Nt, br, seed0, pairwise):
    case = dict(P=P, Ns=Ns, stored_basis=bf, Nt=Nt, requested_basis=br, seed0=seed0)
    names = NAMES[:P]
    try:
        b, spec = load_joint(root, P, Ns, bf, Nt, br, seed0)
    except Exception as e:       # noqa: BLE001
        report(ctx, "loading a fault-free directory raised %s: %s [%s]" % (
            type(e).__name__, str(e)[:80], json.dumps(case)),
            dict(kind="load_raises", case=case), key="fault-free-load-raises")
        return
    ca = b.collisionArray
    L = np.asarray(ca[:])
    D = np.zeros((P, Ns - 1, Ns - 1, P, Ns - 1, Ns - 1))
    for i, j in itertools.product(range(P), repeat=2):
        D[i, :, :, j] = file_data(spec["%s_%s" % (names[i], names[j])]["seed"], Ns)
    bucket = "P%d %s->%s %s" % (P, bf[:4], br[:4], "same" if Ns == Nt else "interp")
    ctx.count("direct_action", case, bucket=bucket)
    # (i) loaded numbers: same size and basis -> exactly the file's numbers
    if Ns == Nt and bf == br and not np.array_equal(L, D):
        ij = np.argwhere(L != D)[0].tolist()
        report(ctx, "loaded array differs from the file numbers at index %s [%s]" % (
            ij, json.dumps(case)), dict(kind="numbers", case=case, index=ij),
            key="loaded-numbers")
    if L.shape != (P, Nt - 1, Nt - 1, P, Nt - 1, Nt - 1) or ca.getBasisType() != br:
        report(ctx, "loaded array has shape %s / basis %s [%s]" % (
            L.shape, ca.getBasisType(), json.dumps(case)),
            dict(kind="shape", case=case), key="loaded-shape")
        return
    # (ii) operator action on low-order distributions vs the source operator's action
    #      interpolated to the new grid points
    rs = np.random.default_rng(seed0 + 7)
    lz, lp = interp_mats(Ns, Nt)
    for rep in range(2):
        c, values = low_order_distribution(rs, P, Nt - 1)
        out_src = np.einsum("axybjk,bjk->axy", D, representation(c, values, Ns, bf))
        ref = np.einsum("tx,uy,axy->atu", lz, lp, out_src)
        got = np.einsum("axybjk,bjk->axy", L, representation(c, values, Nt, br))
        err = float(np.max(np.abs(got - ref)) / (np.max(np.abs(ref)) + 1e-300))
        if err > 1e-8:
            a, t, u = np.unravel_index(np.argmax(np.abs(got - ref)), ref.shape)
            kind = "interp" if Ns != Nt else ("basis" if bf != br else "plain")
            report(ctx, 
                "operator action differs after loading (%s): P=%d files N=%d %s -> grid N=%d "
                "%s, particle %d point (%d,%d): got %.6g, source operator gives %.6g "
                "(rel. err %.2e)" % (kind, P, Ns, bf, Nt, br, a, t, u, got[a, t, u],
                                     ref[a, t, u], err),
                dict(kind="action", case=case, rep=rep, rel_err=err), key="action-" + kind)
            break
    # (iii) every pair against the independent per-pair reference
    for i, j in itertools.product(range(P), repeat=2):
        refb = reference_block(D[i, :, :, j], Ns, bf, Nt, br)
        err = float(np.max(np.abs(refb - L[i, :, :, j])) / (np.max(np.abs(refb)) + 1e-300))
        if err > 1e-8:
            report(ctx, 
                "pair (%s,%s) of the loaded array is not the transformed file data: P=%d files "
                "N=%d %s -> grid N=%d %s (rel. err %.2e)" % (names[i], names[j], P, Ns, bf,
                                                             Nt, br, err),
                dict(kind="pair_block", case=case, pair=[i, j], rel_err=err),
                key="pair-block-" + ("interp" if Ns != Nt else "same"))
            break
    # (iv) pairwise independence: each pair loaded alone as a one-particle directory
    if pairwise and P >= 2:
        for i, j in itertools.product(range(P), repeat=2):
            seed = spec["%s_%s" % (names[i], names[j])]["seed"]
            d1 = write_dir(root, {"x_x": dict(N=Ns, basis=bf, seed=seed)})
            b1 = make_solver(Nt, br)
            b1.updateParticleList([particle("x")])
            b1.loadCollisions(d1)
            shutil.rmtree(d1, ignore_errors=True)
            alone = np.asarray(b1.collisionArray[:])[0, :, :, 0]
            err = float(np.max(np.abs(alone - L[i, :, :, j])) /
                        (np.max(np.abs(alone)) + 1e-300))
            ctx.count("pairwise_independence", dict(case=case, pair=[i, j]))
            if err > 1e-10:
                report(ctx, 
                    "pair (%s,%s) loaded jointly (P=%d) differs from the same file loaded "
                    "alone: files N=%d %s -> grid N=%d %s, max rel. diff %.3g" % (
                        names[i], names[j], P, Ns, bf, Nt, br, err),
                    dict(kind="pairwise", case=case, pair=[i, j], rel_err=err),
                    key="pairwise-independence")
                break


def fault_sequences(ctx, root, rng, n):
    """error kinds and state after failure, on the real solver"""
    for t in range(n):
        P = rng.randint(1, 3)
        names = NAMES[:P]
        N = rng.choice([3, 5])
        req = rng.choice(BASES)
        b = make_solver(N, req)
        b.updateParticleList([particle(x) for x in names])
        good, _ = gen_dir_spec(rng, names, rng.choice([n_ for n_ in (5, 7) if n_ >= N]),
                               rng.choice(BASES), "none", 1000 + 20 * t)
        first_good = rng.random() < 0.8
        seq = []
        if first_good:
            seq.append(("none", good))
        for _ in range(rng.randint(1, 3)):
            fault = rng.choice(["missing", "size", "basis", "oversized", "missing_dir"])
            if fault == "oversized":
                if N == 3:
                    fault = "missing"
                    Ns = 5
                else:
                    Ns = 3
            else:
                Ns = rng.choice([n_ for n_ in (5, 7) if n_ >= N])
            if P == 1 and fault in ("size", "basis"):
                fault = "missing"
            spec, _ = gen_dir_spec(rng, names, Ns, rng.choice(BASES), fault, 2000 + 20 * t)
            seq.append((fault, spec))
        case = dict(P=P, N=N, req=req, seq=[(f, s) for f, s in seq])
        for fault, spec in seq:
            if fault == "missing_dir":
                d = pathlib.Path(root) / "does_not_exist"
            else:
                d = write_dir(root, spec)
            before = b.collisionArray
            snap = None if before is None else np.array(before[:], copy=True)
            err = None
            try:
                b.loadCollisions(d)
            except Exception as e:      # noqa: BLE001
                err = e
            if fault != "missing_dir":
                shutil.rmtree(d, ignore_errors=True)
            ctx.count("fault_sequence", dict(case=case, fault=fault), bucket=fault)
            if fault == "none":
                if err is not None:
                    report(ctx, "fault-free load raised %r" % err,
                                   dict(kind="faults", case=case, at=fault),
                                   key="fault-free-load-raises")
                continue
            if err is None:
                report(ctx, "load with fault `%s` raised nothing [%s]" % (
                    fault, json.dumps(case)[:300]),
                    dict(kind="faults", case=case, at=fault), key="fault-not-reported:" + fault)
                continue
            kind = classify(err)
            if kind != "CollisionLoadError":
                report(ctx, 
                    "load with fault `%s` raised %s (%s) instead of CollisionLoadError; P=%d "
                    "grid N=%d files %s" % (
                        fault, type(err).__name__, " ".join(str(err).split())[:60], P, N,
                        {k: (v["N"], v["basis"]) for k, v in spec.items()}),
                    dict(kind="faults", case=case, at=fault, raised=type(err).__name__),
                    key="error-kind:" + fault)
            after = b.collisionArray
            if after is not before or (before is not None and
                                       not np.array_equal(snap, np.asarray(after[:]))):
                report(ctx, 
                    "after a failed load (fault `%s`) the solver no longer holds the "
                    "previously loaded array (collisionArray is %s); P=%d grid N=%d" % (
                        fault, "None" if after is None else "another object", P, N),
                    dict(kind="faults", case=case, at=fault), key="atomicity")


def run(ctx):
    srcs = {n: vlib.read_src(n) for n in ("collisionArray.py", "boltzmann.py",
                                          "polynomial.py")}
    gen_ok = True
    try:
        gen, bas, facts = gen_collision.generate(srcs["collisionArray.py"],
                                                 srcs["boltzmann.py"], srcs["polynomial.py"])
        meta = dict(files=["src/WallGo/" + n for n in srcs],
                    sha={n: vlib.sha(s) for n, s in srcs.items()})
        ctx.write("CollisionGen.v", gen, sources=meta)
        ctx.write("BasisGen.v", bas, sources=meta)
        ctx.log("extracted: guards", facts["c_guards_every"], facts["c_guards_later"],
                "| labels", facts["c_direct_label"], facts["c_interp_label"],
                "| loadCollisions", facts["c_prog_pre"], facts["c_prog_try"])
        ctx.log("extracted: interp_layout =", facts["interp_term"])
    except gen_collision.TranslateError as e:
        ctx.log("translator failed:", e)
        ctx.broken.append("translator: %s" % e)
        gen_ok = False
    proved = gen_ok and ctx.prove(extra=["CollisionGen.v", "BasisGen.v"])
    ctx.trusted += ["tools/gen_collision.py (AST fact extractor / array-pipeline translator)",
                    "mathcomp 1.x matrix library", "h5py fixtures written by the harness"]
    root = tempfile.mkdtemp(prefix="c14_")
    rng = ctx.rng
    try:
        # ---- correspondence 1: op-sequence differential -------------------------------
        nsc = ctx.n(36, 400)
        terms, scen = [], []
        for k in range(nsc):
            sc = gen_scenario(rng, k)
            obs = run_scenario(sc, root)
            scen.append((sc, obs))
            for o in obs:
                ctx.count("op_sequence_load", dict(sc=k, o=o["kind"], f=o["fault"]),
                          bucket=o["fault"] + "/" + o["kind"])
            if k < 2:
                ctx.sample(dict(scenario=dict(N=sc["N"], req=sc["req"],
                                              ops=[(o[0], o[2] if o[0] == "load" else o[1])
                                                   for o in sc["ops"]]),
                                observed=[(o["kind"], o["unchanged"]) for o in obs]))
            if gen_ok:
                terms.append(coq_scenario(sc, obs))
        if gen_ok:
            bad = ctx.run_cases("opseq", CORR_HEADER, terms, per_file=12)
            for bfile in bad:
                ctx.broken.append("correspondence:op-sequence %s" % bfile["file"])
                ctx.log("op-sequence correspondence failure", json.dumps(bfile)[:300])
                for idx in bfile["cases"][:2]:
                    sc, obs = scen[idx]
                    ctx.log("  scenario", json.dumps(dict(
                        N=sc["N"], req=sc["req"],
                        ops=[(o[0], o[2] if o[0] == "load" else o[1]) for o in sc["ops"]])),
                        "observed", [(o["kind"], o["detail"], o["unchanged"],
                                      None if o["summary"] is None else
                                      (o["summary"]["N"], o["summary"]["label"],
                                       all(v[1] for v in o["summary"]["blocks"].values())))
                                     for o in obs])
        # ---- correspondence 2: array layout on tagged evaluations ---------------------
        lay_terms, lay_cases = [], []
        combos = [(1, 5, 3), (2, 5, 3), (2, 7, 5), (3, 5, 3), (3, 7, 5), (2, 9, 5)]
        if not ctx.quick:
            combos += [(1, 7, 5), (3, 9, 7), (2, 9, 7), (3, 7, 3)]
        for P, Ns, Nt in combos:
            try:
                res, rec, tgt = tagged_interpolation(P, Ns, Nt)
            except Exception as e:      # noqa: BLE001
                ctx.log("tagged interpolation raised", repr(e))
                ctx.broken.append("correspondence:layout raised %r" % e)
                continue
            ctx.count("layout_tagged", dict(P=P, Ns=Ns, Nt=Nt))
            pts = rec["points"]
            rz = {float(v): i for i, v in enumerate(tgt.rzValues)}
            rp = {float(v): 100 + i for i, v in enumerate(tgt.rpValues)}
            flat = []
            for r, row in enumerate(pts):
                prim, sec = (rz, rp) if r == 0 else (rp, rz)
                for v in row:
                    flat.append(prim.get(float(v), sec.get(float(v), -7)))
            if gen_ok:
                lay_terms.append("chk_layout %d %d %d %d %s" % (
                    P, Nt, Ns - 1, pts.shape[1], zlist(res.ravel())))
                lay_cases.append(dict(P=P, Ns=Ns, Nt=Nt, what="layout"))
                lay_terms.append("chk_points %d [%s] %s" % (
                    Nt, "; ".join(str(a) for a in rec["axes"]), zlist(flat)))
                lay_cases.append(dict(P=P, Ns=Ns, Nt=Nt, what="points"))
        if gen_ok and lay_terms:
            bad = ctx.run_cases("layout", LAYOUT_HEADER, lay_terms, per_file=4)
            for bfile in bad:
                ctx.broken.append("correspondence:interp-layout %s" % bfile["file"])
                ctx.log("layout correspondence failure", json.dumps(bfile)[:300],
                        [lay_cases[i] for i in bfile["cases"][:4]])
        # ---- direct validation ---------------------------------------------------------
        sizes = [(5, 5), (5, 3), (7, 5), (7, 3)] if ctx.quick else \
            [(3, 3), (5, 5), (5, 3), (7, 7), (7, 5), (7, 3), (9, 7), (9, 5), (9, 3)]
        seed0 = 5000
        for P in (1, 2, 3):
            for (Ns, Nt), bf, br in itertools.product(sizes, BASES, BASES):
                if P == 3 and Ns >= 9 and ctx.quick:
                    continue
                seed0 += 20
                pairwise = (P == 2) or (not ctx.quick) or (Ns, Nt) == (5, 3)
                try:
                    direct_case(ctx, root, P, Ns, bf, Nt, br, seed0, pairwise)
                except Exception as e:      # noqa: BLE001
                    import traceback
                    ctx.log("direct case raised", traceback.format_exc())
                    ctx.broken.append("harness: direct case raised %r" % e)
        fault_sequences(ctx, root, rng, ctx.n(40, 400))
    finally:
        shutil.rmtree(root, ignore_errors=True)
    for key, cnt in sorted(getattr(ctx, "_c14_seen", {}).items()):
        if cnt > 1:
            ctx.log("failing inputs of class %s: %d in total (first one reported)" % (key, cnt))
    ctx.cov["rule"] = (
        "op sequences: one solver (N in 3/5/7, requested basis), 2-5 operations = particle "
        "list updates (1-3 of a,b,c in any order) and loads of h5py directories (stored N "
        "in 3..9, both bases, faults: none/missing file/size mismatch/basis mismatch/"
        "oversized target, extra files allowed); distinct = distinct (scenario, outcome, "
        "fault). direct: P in 1..3 x (stored N, target N) x stored basis x requested basis, "
        "two random low-order distributions each, per-pair blocks against an independent "
        "numpy reference (Chebyshev evaluation + Lagrange interpolation), each pair loaded "
        "alone; fault sequences on the real solver (identity and contents of "
        "solver.collisionArray after each failure)")
    ctx.assumptions += [
        "np.linalg.inv returns a right inverse of an invertible matrix (Section hypothesis "
        "inv_ok; validated through the operator-action runs)",
        "the restricted Chebyshev matrices on the grid nodes are invertible (unitmx "
        "hypotheses; property C16)",
        "Polynomial.evaluate(points, axes) returns (points, remaining axes in order) and "
        "uses row r of the points for axes[r] (definition `evaluated`; validated by the "
        "direct runs against the independent reference)",
        "the restricted Chebyshev basis functions do not depend on the grid size, so the "
        "coefficients of a low-order distribution on the smaller grid are the truncated ones",
        "h5py/file-system behaviour: a missing file raises FileNotFoundError"]


def replay(rep):
    print(json.dumps(rep, indent=1, default=str))
    root = tempfile.mkdtemp(prefix="c14r_")

    class C:        # minimal ctx
        quick = True

        def count(self, *a, **k):
            pass

        def fail_input(self, what, r, key=None):
            print("FAILS:", what)
            self.failed = True
            return True
    c = C()
    c.failed = False
    try:
        if rep.get("kind") in ("action", "pair_block", "pairwise", "numbers", "shape",
                               "load_raises"):
            k = rep["case"]
            direct_case(c, root, k["P"], k["Ns"], k["stored_basis"], k["Nt"],
                        k["requested_basis"], k["seed0"], True)
        elif rep.get("kind") == "faults":
            k = rep["case"]
            b = make_solver(k["N"], k["req"])
            b.updateParticleList([particle(x) for x in NAMES[:k["P"]]])
            for fault, spec in k["seq"]:
                d = pathlib.Path(root) / "does_not_exist" if fault == "missing_dir" \
                    else write_dir(root, spec)
                before = b.collisionArray
                try:
                    b.loadCollisions(d)
                    print(fault, "-> loaded")
                except Exception as e:      # noqa: BLE001
                    print(fault, "->", type(e).__name__, "| array kept:",
                          b.collisionArray is before)
                    if classify(e) != "CollisionLoadError" or b.collisionArray is not before:
                        c.failed = True
    finally:
        shutil.rmtree(root, ignore_errors=True)
    return 1 if c.failed else 0
