"""C18 -- InterpolatableFunction honours its evaluation contract for every call history.

gen   : build/C18/InterpFacts.v  (facts read off helpers.py / interpolatableFunction.py)
prove : coq/Model/InterpFun.v (executable state machine) + coq/Props/C18.v (invariants over
        ALL operation sequences)
tie   : op-sequence differential.  One PRNG draws operation sequences; each is run
        (A) on the real class with the two external collaborators replaced by provenance
            recorders (a CubicSpline subclass whose calls return tickets, a function whose
            values are tickets / nan) -> per-element tags + state after every op, compared
            inside Coq (vm_compute) with the model's trace;
        (B) on the real class with the real scipy spline and smooth functions -> the property
            itself (values to interpolation accuracy, per-side dispatch, shapes, errors,
            strictly increasing table, row-wise dropping, write+read round trip).
"""
import copy
import itertools
import json
import logging
import os
import tempfile
from fractions import Fraction

import numpy as np

import gen_interp
import vlib

EXPLANATION = (
    "A hand-written executable Coq state machine of InterpolatableFunction (table, range, "
    "modes, spline extrapolate flag, adaptive counters; spline and user function external, "
    "values represented by provenance tags) is proved to keep the table strictly increasing "
    "with range = [first,last], the extrapolate flag = (a FUNCTION mode is selected), the "
    "counters below the threshold, and to dispatch every element by the mode of its side, for "
    "ALL operation sequences. The model is compared on every run with the real class on random "
    "and systematic operation sequences (provenance-recording spline/function, exact "
    "vm_compute comparison of every observation), and the property is evaluated directly on "
    "the real class with the real scipy spline.")

MODES = ["ERROR", "NONE", "CONSTANT", "FUNCTION"]
JOBS = max(1, min(4, (os.cpu_count() or 2) // 2))        # concurrent coqc processes
GRID = 8                    # evaluation points are multiples of 1/8
ERRS = {"ValueError": "EValue", "AssertionError": "EAssert", "IndexError": "EIndex"}


# --------------------------------------------------------------------------------------
# sequence generation

def _g(rng, lo, hi):
    """grid point in [lo, hi]"""
    a = int(np.ceil(lo * GRID))
    b = int(np.floor(hi * GRID))
    if b < a:
        b = a
    return rng.randint(a, b) / GRID


def _points(rng, rng_nom, m):
    """m evaluation points, category relative to the nominal range"""
    if rng_nom is None:
        return [_g(rng, -4, 4) for _ in range(m)], "notable"
    L, U = rng_nom
    cat = rng.choice(["inside", "below", "above", "mixed", "mixed", "edge", "outside2", "ulp"])
    pts = []
    for _ in range(m):
        c = cat
        if cat == "mixed":
            c = rng.choice(["inside", "below", "above", "edge"])
        if cat == "outside2":
            c = rng.choice(["below", "above"])
        if c == "ulp":
            # within a few ulp of a (nominal) table end, on either side of it
            e = rng.choice([L, U])
            j = rng.choice([1, 1, 2, 3, 10, 1000, 10 ** 6])
            pts.append(float(e + rng.choice([-1, 1]) * j * np.spacing(abs(e) if e else 1.0)))
            continue
        if c == "inside":
            pts.append(_g(rng, L, U))
        elif c == "below":
            pts.append(_g(rng, L - 2, L - 1 / GRID))
        elif c == "above":
            pts.append(_g(rng, U + 1 / GRID, U + 2))
        else:
            pts.append(rng.choice([L, U, L - 1 / GRID, U + 1 / GRID, L + 1 / GRID]))
    return pts, cat


def _shape(rng):
    kind = rng.choice(["scalar", "list", "arr1", "arr2", "scalar", "list", "arr1", "arr2", "arr0",
                       "empty"])
    if kind in ("scalar", "arr0"):
        return kind, []
    if kind == "empty":
        return kind, [0]
    if kind in ("list", "arr1"):
        return kind, [rng.randint(1, 5)]
    return kind, [rng.randint(1, 3), rng.randint(1, 3)]


def _typed(rng, op):
    """vary the dtype of the input (the property quantifies over every legal inputType)"""
    r = rng.random()
    if r < 0.14:
        op["dtype"] = "int"
        op["pts"] = [float(round(p)) for p in op["pts"]]
    elif r < 0.22:
        op["dtype"] = "f32"
        op["pts"] = [float(np.float32(p)) for p in op["pts"]]
    return op


def _xs_variant(rng, nom):
    """abscissae of a user-supplied table: increasing / reversed / glued from two pieces /
    with a duplicate / shuffled"""
    if nom is None or rng.random() < 0.5:
        a = _g(rng, -3, 1)
        b = a + rng.choice([1, 2, 4]) / rng.choice([1, 2])
    else:
        a = nom[0] - rng.choice([0, 1, 2]) / 2
        b = nom[1] + rng.choice([0, 1, 2]) / 2
    n = rng.choice([2, 3, 5, 9])
    xs = [a + (b - a) * i / (n - 1) for i in range(n)]
    how = rng.choice(["incr", "incr", "incr", "rev", "glued", "dup", "shuffled"])
    if how == "rev":
        xs = xs[::-1]
    elif how == "glued":
        h = n // 2
        xs = xs[:h + 1][::-1] + xs[h + 1:]
    elif how == "dup":
        xs = xs[:1] + xs
    elif how == "shuffled":
        rng.shuffle(xs)
    xs = [float("%.15g" % x) for x in xs]          # what a text file can hold
    return xs, how, (float("%.15g" % a), float("%.15g" % b))


def gen_seq(rng, maxlen):
    k = rng.randint(1, 4)
    cfg = dict(k=k, thr=rng.choice([1, 2, 3, 3, 4, 6]), n0=rng.choice([2, 3, 5, 6, 10, 10, 20]),
               adapt=rng.random() < 0.5, bad=None)
    if rng.random() < 0.45:
        c = rng.randint(-24, 24) / GRID
        w = rng.choice([1, 3, 6, 12]) / GRID
        # boundaries off every grid the tables can hit
        cfg["bad"] = [c - w + 2.0 ** -9 + 2.0 ** -15, c + w + 2.0 ** -9 + 2.0 ** -15]
        # which component of the row is non-finite, and how
        cfg["badcol"] = rng.randrange(k)
        cfg["badval"] = rng.choice(["nan", "nan", "inf", "-inf"])
    ops = []
    nom = None
    n = rng.randint(max(3, maxlen - 4), maxlen)
    if rng.random() < 0.7:
        a = _g(rng, -3, 1)
        b = a + rng.choice([1, 2, 2, 4]) / rng.choice([1, 2])
        ops.append(dict(op="new", a=a, b=b, n=rng.choice([2, 3, 5, 5, 9, 9, 17, 4, 6])))
        nom = (a, b)
        if rng.random() < 0.5:
            ops.append(dict(op="modes", lo=rng.choice(MODES), hi=rng.choice(MODES)))
    while len(ops) < n:
        r = rng.random()
        if r < 0.36:
            kind, shape = _shape(rng)
            m = int(np.prod(shape)) if shape else 1
            pts, cat = _points(rng, nom, m)
            ops.append(_typed(rng, dict(op="eval", use=rng.random() < 0.9, kind=kind, shape=shape,
                                        pts=pts, cat=cat, via=rng.choice(["evaluate", "call"]))))
        elif r < 0.56:
            kind, shape = _shape(rng)
            m = int(np.prod(shape)) if shape else 1
            pts, cat = _points(rng, nom, m)
            use = rng.random() < 0.9 if nom is not None else True
            if cfg["adapt"] and rng.random() < 0.7:
                use = True
            ops.append(_typed(rng, dict(op="deriv", order=rng.choice([1, 1, 2, 2, 3])
                                        if rng.random() < 0.3 else rng.choice([1, 2]), use=use,
                                        kind=kind, shape=shape, pts=pts,
                                        dxexp=rng.choice([6, 8, 8, 10]), cat=cat)))
        elif r < 0.66:
            if nom is None:
                a = _g(rng, -3, 1)
                b = a + rng.choice([1, 2, 4]) / rng.choice([1, 2])
            else:
                a = nom[0] - rng.choice([0, 0, 1, 2, 4, -1]) / rng.choice([1, 2, 4])
                b = nom[1] + rng.choice([0, 0, 1, 2, 4, -1]) / rng.choice([1, 2, 4])
                if rng.random() < 0.2:
                    # an extension by a few ulp only
                    a = float(nom[0] - rng.choice([1, 2, 3, 10, 1000, 10 ** 6]) *
                              np.spacing(abs(nom[0]) if nom[0] else 1.0))
                    b = float(nom[1] + rng.choice([1, 2, 3, 10, 1000, 10 ** 6]) *
                              np.spacing(abs(nom[1]) if nom[1] else 1.0))
            nlo = rng.choice([0, 1, 2, 2, 4, 8, 3])
            nhi = rng.choice([0, 1, 2, 2, 4, 8, 3])
            ops.append(dict(op="extend", a=a, b=b, nlo=nlo, nhi=nhi,
                            counts=rng.choice(["int", "int", "npint", "float"])))
            nom = (a, b) if nom is None else (min(a, nom[0]), max(b, nom[1]))
        elif r < 0.78:
            ops.append(dict(op="modes", lo=rng.choice(MODES), hi=rng.choice(MODES)))
        elif r < 0.82:
            ops.append(dict(op="enable"))
        elif r < 0.85:
            ops.append(dict(op="disable"))
        elif r < 0.91:
            m = rng.randint(1, 4)
            pts, _ = _points(rng, nom, m)
            if rng.random() < 0.3:
                pts = [pts[0]] * m
            ops.append(dict(op="sched", kind=rng.choice(["arr1", "scalar"]) if m == 1 else "arr1",
                            pts=pts))
        elif r < 0.93:
            ops.append(dict(op="wr"))
        elif r < 0.965:
            xs, how, ab = _xs_variant(rng, nom)
            ops.append(dict(op=rng.choice(["fromvals", "readfile"]), xs=xs, how=how))
            if how == "incr":
                nom = ab
        elif r < 0.972:
            ops.append(dict(op="readmissing"))
        elif r < 0.985:
            ops.append(dict(op="copy"))
        else:
            a = _g(rng, -3, 1)
            b = a + rng.choice([1, 2, 4, 0, -1]) / rng.choice([1, 2])
            if rng.random() < 0.3:
                b = a + 2.0 ** -rng.choice([5, 7, 9])      # narrower than a derivative stencil
            ops.append(dict(op="new", a=a, b=b, n=rng.choice([1, 2, 3, 5, 9, 7])))
            if b > a:
                nom = (a, b)
    return dict(cfg=cfg, ops=ops)


def systematic(ks):
    """every mode pair x return dimension x input shape on a table built BEFORE the modes are
    set, with a non-finite window at the upper end for odd k"""
    seqs = []
    for k in ks:
        for lo in MODES:
            for hi in MODES:
                for kind in ["scalar", "list", "arr1", "arr2"]:
                    bad = [1.5 + 2.0 ** -9, 2.25] if (k % 2 == 1 and kind in ("list", "arr2")) \
                        else None
                    top = 1.5 if bad else 2.0
                    if kind == "scalar":
                        e1 = dict(op="eval", use=True, kind=kind, shape=[], pts=[top + 0.5])
                        e2 = dict(op="eval", use=True, kind=kind, shape=[], pts=[-0.25])
                        d1 = dict(op="deriv", order=1, use=True, kind=kind, shape=[],
                                  pts=[top + 2.0 ** -8], dxexp=8)
                        d2 = dict(op="deriv", order=2, use=True, kind=kind, shape=[], pts=[-0.5],
                                  dxexp=8)
                    else:
                        shape = [2, 2] if kind == "arr2" else [4]
                        e1 = dict(op="eval", use=True, kind=kind, shape=shape,
                                  pts=[-0.5, 0.5, top + 0.25, 1.0])
                        e2 = dict(op="eval", use=True, kind=kind, shape=shape,
                                  pts=[0.25, 1.25, 0.0, top])
                        d1 = dict(op="deriv", order=1, use=True, kind=kind, shape=shape,
                                  pts=[1.0, top + 0.5, -0.25, top + 2.0 ** -8], dxexp=8)
                        d2 = dict(op="deriv", order=2, use=True, kind=kind, shape=shape,
                                  pts=[-2.0 ** -8, 0.5, top + 1.0, 0.75], dxexp=8)
                    ops = [dict(op="new", a=0.0, b=2.0, n=17), dict(op="modes", lo=lo, hi=hi),
                           e1, d1, e2, d2, dict(op="wr"), e1]
                    # user-supplied tables: glued from two pieces (must be rejected, table kept),
                    # a different table read over the existing one, a missing file
                    if lo == hi:
                        ops += [dict(op="fromvals", xs=[1.0, 0.5, 0.0, 1.125, 1.25, 1.375], how="glued"),
                                e2,
                                dict(op="readfile", xs=[0.25, 0.5, 0.75, 1.0, 1.25], how="incr"),
                                e2, dict(op="readmissing"),
                                dict(op="fromvals", xs=[0.0, 0.5, 1.0, 1.25, 1.375], how="incr"), e1]
                    cfg = dict(k=k, thr=3, n0=10, adapt=(k % 2 == 0), bad=bad)
                    if bad:
                        cfg["badcol"] = (MODES.index(lo) + MODES.index(hi)) % k
                        cfg["badval"] = ["nan", "inf", "-inf"][(MODES.index(lo) + k) % 3]
                    seqs.append(dict(cfg=cfg, ops=ops))
    # an adaptive update fired in the MIDDLE of a call by the lower side's direct evaluations:
    # the upper side must still be answered by the table in force when the call was made
    for k in ks[:2]:
        for hi in ("CONSTANT", "FUNCTION", "NONE"):
            for kind, shape, pts in (("arr1", [2], [-1.0, 2.5]), ("arr2", [2, 2], [2.5, -1.0, 0.5, 2.25]),
                                     ("list", [3], [2.25, -0.5, 2.5])):
                seqs.append(dict(cfg=dict(k=k, thr=2, n0=20, adapt=True, bad=None), ops=[
                    dict(op="new", a=0.0, b=2.0, n=17),
                    dict(op="eval", use=True, kind="scalar", shape=[], pts=[3.0]),
                    dict(op="modes", lo="NONE", hi=hi),
                    dict(op="eval", use=True, kind=kind, shape=shape, pts=pts, via="call"),
                    dict(op="eval", use=True, kind=kind, shape=shape, pts=pts),
                    dict(op="deriv", order=1, use=True, kind=kind, shape=shape, pts=pts, dxexp=8)]))
    return seqs


# --------------------------------------------------------------------------------------
# pass A: provenance recording

class Tick:
    def __init__(self):
        self.next = 1000
        self.info = {}
        self.serial = {}
        self.min_serial = 0          # serial of the spline in force when the op started
        self.valid_from = 0

    def issue(self, info, serial=None):
        self.next += 1 + (self.next * 7919) % 13
        self.info[self.next] = info
        if serial is not None:
            self.serial[self.next] = serial
        return float(self.next)

    def begin(self):
        self.valid_from = self.next

    def lookup(self, v):
        if not np.isfinite(v) or v != int(v):
            return None
        i = int(v)
        if i <= self.valid_from:
            return None
        if self.serial.get(i, self.min_serial) < self.min_serial:
            return None              # answered by a spline object older than the current one
        return self.info.get(i)

    def lookup_any(self, v):
        """a ticket issued at any time (stored table values)"""
        if not np.isfinite(v) or v != int(v):
            return None
        return self.info.get(int(v))


BADVAL = {"nan": np.nan, "inf": np.inf, "-inf": -np.inf}
_SERIAL = itertools.count(1)


def make_tag_spline(tick):
    from scipy.interpolate import CubicSpline

    class TagSpline(CubicSpline):
        """the real constructor (and its validation); calls return provenance tickets"""

        def __init__(self, x, y, axis=0, bc_type="not-a-knot", extrapolate=None):
            super().__init__(x, y, axis=axis, bc_type=bc_type, extrapolate=extrapolate)
            self._c18_serial = next(_SERIAL)
            self._c18_x = np.array(x, dtype=float)
            self._c18_y = np.array(y, dtype=float)
            self._lo = float(self.x[0])
            self._hi = float(self.x[-1])
            self._trail = tuple(self.c.shape[2:])

        def _ticket(self, x, d):
            x = np.asarray(x, dtype=float)
            out = np.empty(x.shape + self._trail)
            for idx in np.ndindex(x.shape):
                q = float(x[idx])
                kind = "KIn" if self._lo <= q <= self._hi else \
                    ("KExt" if self.extrapolate else "KNan")
                out[idx] = tick.issue(("S", d, kind, q), serial=self._c18_serial)
            return out

        def __call__(self, x, nu=0, extrapolate=None):
            return self._ticket(x, nu)

        def derivative(self, nu=1):
            return lambda x: self._ticket(x, nu)

    return TagSpline


def in_bad(bad, q):
    return bad is not None and bad[0] <= q <= bad[1]


def make_tag_class(tick):
    from WallGo import InterpolatableFunction

    class TagFn(InterpolatableFunction):
        def __init__(self, bad, badcol=0, badval="nan", **kw):
            super().__init__(**kw)
            self.bad = bad
            self.badcol = badcol
            self.badval = BADVAL[badval]
            self.calls = []

        def _functionImplementation(self, x):
            x = np.asarray(x, dtype=float)
            k = self._RETURN_VALUE_COUNT
            out = np.empty(x.shape + ((k,) if k > 1 else ()))
            for idx in np.ndindex(x.shape):
                q = float(x[idx])
                out[idx] = tick.issue(("D", q))
                if in_bad(self.bad, q):
                    if k > 1:
                        out[idx + (self.badcol,)] = self.badval
                    else:
                        out[idx] = self.badval
            return out

        def _evaluateOutOfBounds(self, x):
            r = super()._evaluateOutOfBounds(x)
            self.calls.append(("oob", np.array(x, dtype=float), np.array(r, dtype=float)))
            return r

        def _evaluateDirectly(self, x, bScheduleForInterpolation=True):
            r = super()._evaluateDirectly(x, bScheduleForInterpolation)
            self.calls.append(("dir", np.array(x, dtype=float), np.array(r, dtype=float)))
            return r

    return TagFn


def mode_of(name):
    from WallGo import EExtrapolationType as E
    return getattr(E, name)


def make_input(op):
    kind = op.get("kind", "arr1")
    pts = op["pts"]
    dt = op.get("dtype", "float")
    npdt = dict(float=float, int=np.int64, f32=np.float32)[dt]
    py = int if dt == "int" else float
    if kind == "scalar":
        return npdt(pts[0]) if dt == "f32" else py(pts[0])
    if kind == "arr0":
        return np.array(pts[0], dtype=npdt)
    if kind == "list":
        return [npdt(p) if dt == "f32" else py(p) for p in pts]
    if kind == "arr2":
        return np.array(pts, dtype=npdt).reshape(op["shape"])
    return np.array(pts, dtype=npdt)


def snap(f, tick=None):
    """observable state: through the public accessors where the class has them"""
    has = f.hasInterpolation()
    d = dict(hasT=bool(has), mlo=f.extrapolationTypeLower.name, mhi=f.extrapolationTypeUpper.name,
             adaptive=bool(f._bUseAdaptiveInterpolation), cnt=int(f._directEvaluateCount),
             pend=[float(v) for v in np.asarray(f._directlyEvaluatedAt, dtype=float).ravel()])
    if has:
        d.update(tab=[float(v) for v in np.asarray(f._interpolationPoints, dtype=float)],
                 rmin=float(f.interpolationRangeMin()), rmax=float(f.interpolationRangeMax()),
                 npts=int(f.numPoints()),
                 extrap=bool(f._interpolatedFunction.extrapolate))
        if tick is not None:
            # provenance of the stored values: the abscissa each row was computed at
            vals = np.asarray(f._interpolationValues, dtype=float)
            rows = vals.reshape(len(vals), -1)
            out = []
            for row in rows:
                info = tick.lookup_any(row[0])
                ok = info is not None and info[0] == "D" and bool(np.all(row == row[0]))
                out.append(info[1] if ok else 987654.0)
            d["vals"] = out
            # the spline object in use must have been built from exactly these columns
            sp = f._interpolatedFunction
            if not (getattr(sp, "_c18_x", None) is not None and
                    np.array_equal(sp._c18_x, np.asarray(d["tab"])) and
                    np.array_equal(sp._c18_y, vals)):
                d["vals"] = [987654.0]
    return d


def central_rows():
    from WallGo import helpers
    return {1: [float(v) for v in helpers.FIRST_DERIV_POS["4"][0]],
            2: [float(v) for v in helpers.SECOND_DERIV_POS["4"][0]]}


def direct_pos(op):
    """stencil array of helpers.derivative(f, x, n=order) with its default step"""
    order = op["order"]
    if order not in (1, 2):
        return None
    x = np.asarray(make_input(op))          # helpers.derivative works in the dtype of its input
    dx0 = 1.0 * 1e-16 ** (1 / (order + 4))
    temp = x + dx0
    dxe = temp - x
    rows = np.array(central_rows()[order])
    return np.asarray(x[None, ...] + rows.reshape((-1,) + (1,) * x.ndim) * dxe, dtype=float)


def decode_elem(tick, vals, q):
    vals = np.atleast_1d(np.asarray(vals, dtype=float))
    if np.any(~np.isfinite(vals)):
        return ("DN", q)
    info = tick.lookup(vals[0])
    if info is None or np.any(vals != vals[0]):
        return ("U",)
    return info


def decode_array(tick, r, xflat, k):
    r = np.asarray(r, dtype=float)
    rows = r.reshape(-1, k) if k > 1 else r.reshape(-1)
    if len(rows) != len(xflat):
        return None
    return [decode_elem(tick, rows[i], xflat[i]) for i in range(len(xflat))]


def apply_op(f, op, tmpdir):
    """perform one op on an InterpolatableFunction; returns the raw result"""
    o = op["op"]
    if o == "new":
        return f.newInterpolationTable(op["a"], op["b"], op["n"])
    if o == "eval":
        x = make_input(op)
        keep = copy.deepcopy(x)
        r = f(x, op["use"]) if op.get("via") == "call" else f.evaluate(x, op["use"])
        input_untouched(x, keep, "evaluate")
        result_not_shared(f, r, x, "evaluate")
        return r
    if o == "deriv":
        x = make_input(op)
        keep = copy.deepcopy(x)
        r = f.derivative(x, order=op["order"], bUseInterpolation=op["use"],
                         epsilon=1.0, scale=2.0 ** -op["dxexp"])
        input_untouched(x, keep, "derivative")
        result_not_shared(f, r, x, "derivative")
        return r
    if o == "extend":
        ct = dict(int=int, npint=np.int64, float=float)[op.get("counts", "int")]
        return f.extendInterpolationTable(op["a"], op["b"], ct(op["nlo"]), ct(op["nhi"]))
    if o == "modes":
        return f.setExtrapolationType(mode_of(op["lo"]), mode_of(op["hi"]))
    if o == "enable":
        return f.enableAdaptiveInterpolation()
    if o == "disable":
        return f.disableAdaptiveInterpolation()
    if o == "sched":
        x = make_input(op)
        fx = f._functionImplementation(x)
        keep = copy.deepcopy(x)
        r = f.scheduleForInterpolation(x, fx)
        input_untouched(x, keep, "scheduleForInterpolation")
        hand_over(f, x, fx, "scheduleForInterpolation")
        return r
    if o == "wr":
        p = fresh_path(tmpdir)
        f.writeInterpolationTable(p)
        # the writer swallows every exception: make sure it really wrote this file
        if not os.path.exists(p):
            raise HarnessError("writeInterpolationTable produced no file")
        f._c18_last_path = p
        return f.readInterpolationTable(p)
    if o == "fromvals":
        x = np.array(op["xs"], dtype=float)
        fx = f._functionImplementation(x)
        try:
            return f.newInterpolationTableFromValues(x, fx)
        finally:
            # the caller goes on using its arrays: the table must not live in them
            hand_over(f, x, fx, "newInterpolationTableFromValues")
    if o == "readfile":
        # a file in the documented format (x f1(x) f2(x) ...), written by the harness
        x = np.array(op["xs"], dtype=float)
        fx = np.asarray(f._functionImplementation(x), dtype=float)
        p = fresh_path(tmpdir)
        np.savetxt(p, np.column_stack((x, fx)), fmt="%.15g", delimiter=" ")
        return f.readInterpolationTable(p)
    if o == "readmissing":
        return f.readInterpolationTable(os.path.join(tmpdir, "no_such_table_%d.txt" % next(_COUNTER)))
    raise KeyError(o)


class HarnessError(Exception):
    pass


class Ownership(Exception):
    """the class kept, or wrote into, an array that belongs to the caller"""


def _arrays(f):
    out = []
    for name in ("_interpolationPoints", "_interpolationValues", "_directlyEvaluatedAt"):
        v = getattr(f, name, None)
        if isinstance(v, np.ndarray):
            out.append((name, v))
    sp = getattr(f, "_interpolatedFunction", None)
    for name in ("x", "c"):
        v = getattr(sp, name, None)
        if isinstance(v, np.ndarray):
            out.append(("spline." + name, v))
    return out


def hand_over(f, x, fx, who):
    """after the call the caller owns x and fx again: the object must not share memory with them;
    then the caller re-uses its buffers (overwritten here), which must not reach the table"""
    shared = [name for name, v in _arrays(f) for a in (x, fx)
              if isinstance(a, np.ndarray) and a.size and v.size and np.shares_memory(a, v)]
    if isinstance(x, np.ndarray) and x.dtype.kind == "f" and x.flags.writeable:
        x += 1.0
    if isinstance(fx, np.ndarray) and fx.dtype.kind == "f" and fx.flags.writeable:
        fx[...] = np.nan
    if shared:
        raise Ownership("%s: the object keeps the caller's arrays as %s (a later change of the "
                        "caller's buffer changes the table)" % (who, ", ".join(sorted(set(shared)))))


def input_untouched(x, keep, who):
    if isinstance(x, np.ndarray) and not np.array_equal(x, keep, equal_nan=True):
        raise Ownership("%s modified its input array" % who)
    if isinstance(x, list) and x != keep:
        raise Ownership("%s modified its input list" % who)


def result_not_shared(f, r, x, who):
    if isinstance(r, np.ndarray) and r.size:
        for name, v in _arrays(f):
            if v.size and np.shares_memory(r, v):
                raise Ownership("%s returns a view of the object's %s" % (who, name))
        if isinstance(x, np.ndarray) and x.size and np.shares_memory(r, x):
            raise Ownership("%s returns a view of its input" % who)


_COUNTER = itertools.count()


def fresh_path(tmpdir):
    return os.path.join(tmpdir, "table_%d.txt" % next(_COUNTER))


def spoil(f):
    """after a deep copy the original must not matter any more"""
    for name in ("_interpolationPoints", "_interpolationValues"):
        v = getattr(f, name, None)
        if isinstance(v, np.ndarray) and v.dtype.kind == "f" and v.flags.writeable:
            v[...] = np.nan
    sp = getattr(f, "_interpolatedFunction", None)
    c = getattr(sp, "c", None)
    if isinstance(c, np.ndarray) and c.flags.writeable:
        c[...] = np.nan
    f._directlyEvaluatedAt = []
    f._directEvaluateCount = 10 ** 6


def stencil_exact(op):
    """the binary64 stencil of the out-of-range derivative is the exact-rational one"""
    dx = 2.0 ** -op["dxexp"]
    for x in op["pts"]:
        x = float(np.float32(x)) if op.get("dtype") == "f32" else float(x)
        if (x + dx) - x != dx:
            return False
        for k in (-2, -1, 1, 2):
            if Fraction(x) + k * Fraction(dx) != Fraction(x + k * dx):
                return False
    return True


def exact15(v):
    """survives the %.15g text format unchanged"""
    return float("%.15g" % v) == float(v)


def on_grid(v):
    return abs(v) < 4096 and float(v * 4096).is_integer()


class TagWorld:
    """the real class with recording collaborators (pass A)"""

    def __init__(self):
        import scipy.interpolate
        import WallGo.interpolatableFunction as mod
        self.tick = Tick()
        self.spline = make_tag_spline(self.tick)
        self.cls = make_tag_class(self.tick)
        # every name under which the class may reach scipy's CubicSpline (the module's own
        # import, or scipy.interpolate.CubicSpline through a module alias)
        self.sites = [(m, "CubicSpline") for m in (mod, scipy.interpolate)
                      if hasattr(m, "CubicSpline")]
        self.saved = []

    def __enter__(self):
        self.saved = [(m, n, getattr(m, n)) for m, n in self.sites]
        for m, n in self.sites:
            setattr(m, n, self.spline)
        return self

    def __exit__(self, *a):
        for m, n, v in self.saved:
            setattr(m, n, v)

    def run(self, seq, tmpdir):
        """-> (ops actually compared, observations, note)"""
        cfg = seq["cfg"]
        tick = self.tick
        f = self.cls(cfg["bad"], cfg.get("badcol", 0), cfg.get("badval", "nan"),
                     bUseAdaptiveInterpolation=cfg["adapt"],
                     initialInterpolationPointCount=cfg["n0"], returnValueCount=cfg["k"])
        f._evaluationsUntilAdaptiveUpdate = cfg["thr"]
        k = cfg["k"]
        obs = []
        ops = []
        note = None
        for op in seq["ops"]:
            tick.begin()
            tick.min_serial = getattr(getattr(f, "_interpolatedFunction", None), "_c18_serial", 0)
            f.calls.clear()
            o = op["op"]
            op = dict(op)
            if o == "copy":
                # go on with a deep copy; the original is changed behind its back and dropped
                g = copy.deepcopy(f)
                spoil(f)
                f = g
                continue
            if o == "deriv" and not stencil_exact(op):
                # helpers.derivative replaces dx by (x + dx) - x and rounds x + s dx: for a point
                # with bits far below dx the stencil is not the exact-rational one of the model
                # (pass B runs the op)
                note = "skipped"
                continue
            if o == "wr" and f.hasInterpolation() and not (
                    exact15(f.interpolationRangeMin()) and exact15(f.interpolationRangeMax())):
                # the text format keeps 15 digits: a table END with more digits moves by an ulp
                # or so in the file, which the exact model cannot follow (pass B runs the op)
                note = "skipped"
                continue
            if o == "deriv":
                p = direct_pos(op)
                op["pos"] = [] if p is None else [float(v) for v in p.ravel()]
            exc = None
            r = None
            try:
                r = apply_op(f, op, tmpdir)
            except Exception as e:  # noqa
                exc = type(e).__name__
                excmsg = str(e)[:160]
            if exc is None and o in ("fromvals", "readfile") and \
                    list(op["xs"]) != sorted(op["xs"]):
                # the property does not require that rows out of order are REJECTED: a class that
                # accepts them must hold the rows sorted by abscissa, each value on its abscissa --
                # which is what the model says about the sorted rows
                op["xs_model"] = sorted(op["xs"])
            if exc is not None and exc not in ERRS:
                ops.append(op)
                obs.append(dict(out=("other", exc), st=snap(f, tick)))
                note = "unexpected exception class %s (%s)" % (exc, excmsg)
                break
            if o in ("eval", "deriv"):
                x = np.asarray(make_input(op), dtype=float)
                xflat = [float(v) for v in x.ravel()]
            if exc is not None:
                out = (dict(eval="eval", deriv="deriv").get(o, "unit"), "err", ERRS[exc])
            elif o == "eval":
                tags = decode_array(tick, r, xflat, k)
                if np.asarray(r).dtype != np.float64:
                    tags = None              # values must come back as floats whatever the input type
                out = ("eval", "ok", list(np.shape(r)), tags if tags is not None else [("U",)])
            elif o == "deriv":
                dt = self.decode_deriv(f, op, r, x, xflat, k)
                if np.asarray(r).dtype != np.float64:
                    dt = [("DOne", ("U",))]
                out = ("deriv", "ok", list(np.shape(r)), dt)
            else:
                out = ("unit", "ok")
            s = snap(f, tick)
            if s["hasT"] and not isinstance(f._interpolatedFunction, self.spline):
                raise HarnessError("the class did not build its spline through a patched name")
            if s["hasT"] and s["npts"] != len(s["tab"]):
                s["tab"] = []                 # numPoints() disagrees with the stored table
            ops.append(op)
            obs.append(dict(out=out, st=s))
        return ops, obs, note

    def decode_deriv(self, f, op, r, x, xflat, k):
        tick = self.tick
        order = op["order"]
        P = len(central_rows()[order])
        oob = [c for c in f.calls if c[0] == "oob"]
        rr = np.asarray(r, dtype=float)
        rows = rr.reshape(-1, k) if k > 1 else rr.reshape(-1)
        if len(rows) != len(xflat):
            return []
        if not oob:
            dirs = [c for c in f.calls if c[0] == "dir" and c[1].shape == (P,) + x.shape]
            if dirs:
                # direct path: the stencil array must be the one handed to the model
                pin, pout = dirs[-1][1], dirs[-1][2]
                if not np.array_equal(pin.ravel(), np.asarray(op["pos"])):
                    return [("DOne", ("U",))]          # harness and helpers disagree: mismatch
                tags = decode_array(tick, pout, [float(v) for v in pin.ravel()], k)
                m = len(xflat)
                return [("DFD", [tags[j * m + i] for j in range(P)]) for i in range(m)]
            cols = []
        else:
            pin, pout = oob[-1][1], oob[-1][2]
            tags = decode_array(tick, pout, [float(v) for v in pin.ravel()], k)
            m = pin.shape[1] if pin.ndim == 2 else 0
            cols = [("DFD", [tags[j * m + i] for j in range(pin.shape[0])]) for i in range(m)] \
                if tags is not None and m else []
            # the value written into an out-of-range cell must be the stencil combination of
            # ITS column (coefficients of helpers, step dx): pins scatter order and weights
            from WallGo import helpers
            co = (helpers.FIRST_DERIV_COEFF if order == 1 else helpers.SECOND_DERIV_COEFF)["4"][0]
            dx = 2.0 ** -op["dxexp"]
            po = pout.reshape(pin.shape[0], m, -1) if m else pout
            fdvals = [np.tensordot(co, po[:, i, :], axes=(0, 0)) / dx ** order for i in range(m)] \
                if m and len(co) == pin.shape[0] else []
        res = []
        ci = 0
        for i in range(len(xflat)):
            vals = np.atleast_1d(rows[i])
            info = tick.lookup(vals[0]) if not np.any(np.isnan(vals)) else None
            if info is not None and info[0] == "S" and info[1] == order and np.all(vals == vals[0]):
                res.append(("DOne", info))
            elif ci < len(cols):
                if oob and ci < len(fdvals) and np.all(np.isfinite(fdvals[ci])) and not np.allclose(
                        vals, fdvals[ci], rtol=1e-9,
                        atol=1e-9 * float(np.sum(np.abs(co)) * np.max(np.abs(po[:, ci, :])) /
                                          dx ** order), equal_nan=True):
                    res.append(("DOne", ("U",)))
                else:
                    res.append(cols[ci])
                ci += 1
            else:
                res.append(("DOne", ("U",)))
        if ci != len(cols):
            res.append(("DOne", ("U",)))
        return res


# --------------------------------------------------------------------------------------
# rendering for Coq

def q(v):
    return vlib.coq_Q(Fraction(float(v)))


def qlist(vs):
    return "[" + "; ".join(q(v) for v in vs) + "]"


def nlist(vs):
    return "[" + "; ".join("%d%%nat" % int(v) for v in vs) + "]"


def b(v):
    return "true" if v else "false"


def coq_tag(t):
    if t[0] == "S":
        return "(Spl %d%%nat %s %s)" % (t[1], t[2], q(t[3]))
    if t[0] == "D":
        return "(Dir %s)" % q(t[1])
    if t[0] == "DN":
        return "(DirNaN %s)" % q(t[1])
    return "Uninit"


def coq_dtag(t):
    if t[0] == "DOne":
        return "(DOne %s)" % coq_tag(t[1])
    return "(DFD [%s])" % "; ".join(coq_tag(u) for u in t[1])


def coq_op(op):
    o = op["op"]
    if o == "new":
        return "NewTable %s %s %d%%nat" % (q(op["a"]), q(op["b"]), op["n"])
    if o == "eval":
        return "Evaluate %s %s %s" % (b(op["use"]), nlist(op["shape"]), qlist(op["pts"]))
    if o == "deriv":
        return "Derivative %d%%nat %s %s %s %s %s" % (
            op["order"], b(op["use"]), nlist(op["shape"]), qlist(op["pts"]),
            q(2.0 ** -op["dxexp"]), qlist(op["pos"]))
    if o == "extend":
        return "Extend %s %s %d%%nat %d%%nat" % (q(op["a"]), q(op["b"]), op["nlo"], op["nhi"])
    if o == "modes":
        return "SetModes %s %s" % (op["lo"], op["hi"])
    if o == "enable":
        return "EnableAdaptive"
    if o == "disable":
        return "DisableAdaptive"
    if o == "sched":
        return "Schedule %s" % qlist(op["pts"])
    if o == "fromvals":
        return "FromValues %s" % qlist(op.get("xs_model", op["xs"]))
    if o == "readfile":
        return "ReadFile %s" % qlist(op.get("xs_model", op["xs"]))
    if o == "readmissing":
        return "ReadMissing"
    return "WriteRead"


def coq_out(out):
    if out[0] == "unit":
        return "OUnit (Ok tt)" if out[1] == "ok" else "OUnit (Err %s)" % out[2]
    if out[0] == "eval":
        if out[1] == "err":
            return "OEval (Err %s)" % out[2]
        return "OEval (Ok (%s, [%s]))" % (nlist(out[2]), "; ".join(coq_tag(t) for t in out[3]))
    if out[1] == "err":
        return "ODeriv (Err %s)" % out[2]
    return "ODeriv (Ok (%s, [%s]))" % (nlist(out[2]), "; ".join(coq_dtag(t) for t in out[3]))


def coq_st(cfg, s):
    if s["hasT"]:
        t = "true %s %s %s %s %s" % (qlist(s["tab"]), qlist(s.get("vals", s["tab"])), q(s["rmin"]),
                                     q(s["rmax"]), b(s["extrap"]))
    else:
        t = "false [] [] 0 0 false"
    return "(mkst %d%%nat %d%%nat %d%%nat %s %s %s %s %d%%nat %s)" % (
        cfg["k"], cfg["thr"], cfg["n0"], t, s["mlo"], s["mhi"], b(s["adaptive"]), s["cnt"],
        qlist(s["pend"]))


def coq_fin(cfg):
    if cfg["bad"] is None:
        return "(fun _ : Q => true)"
    return "(fun x : Q => negb (Qle_bool %s x && Qle_bool x %s))" % (q(cfg["bad"][0]),
                                                                      q(cfg["bad"][1]))


def coq_case(cfg, ops, obs):
    return "agree %s (init %d%%nat %d%%nat %d%%nat %s)\n     [%s]\n     [%s]" % (
        coq_fin(cfg), cfg["k"], cfg["thr"], cfg["n0"], b(cfg["adapt"]),
        ";\n      ".join(coq_op(o) for o in ops),
        ";\n      ".join("(%s, %s)" % (coq_out(x["out"]), coq_st(cfg, x["st"])) for x in obs))


HEADER = ("From Coq Require Import List Bool Arith ZArith QArith.\n"
          "From WG Require Import Model.InterpFun.\nImport ListNotations.\n"
          "Local Open Scope Q_scope.\n")


def model_observation(ctx, name, cfg, ops, i):
    """what the model says at op i (for the log / replay file)"""
    body = HEADER + "Eval vm_compute in (nth_error (trace %s (init %d%%nat %d%%nat %d%%nat %s) [%s]) %d).\n" % (
        coq_fin(cfg), cfg["k"], cfg["thr"], cfg["n0"], b(cfg["adapt"]),
        "; ".join(coq_op(o) for o in ops), i)
    p = ctx.write("Cases/%s.v" % name, body)
    ok, out, err = ctx.coqc(p, timeout=120)
    return " ".join(out.split())[:1500]


# --------------------------------------------------------------------------------------
# differential driver

def jseq(cfg, ops):
    return dict(cfg=cfg, ops=[{k: v for k, v in o.items() if k not in ("pos", "xs_model")}
                              for o in ops])


def differential(ctx, world, seqs, tmpdir, label):
    runs = []
    for seq in seqs:
        ops, obs, note = world.run(seq, tmpdir)
        runs.append((seq, ops, obs, note))
        for o in ops:
            ctx.count("diff_ops_" + label, None, nontrivial=False,
                      bucket=o["op"] + (":" + o.get("cat", "") if o.get("cat") else ""))
        ctx.count("diff_sequences_" + label, jseq(seq["cfg"], ops),
                  bucket="k%d %s%s" % (seq["cfg"]["k"], "adaptive" if seq["cfg"]["adapt"] else "fixed",
                                       " nan-window" if seq["cfg"]["bad"] else ""))
        if note == "skipped":
            ctx.count("diff_wr_skipped_" + label, None, nontrivial=False)
    ok_runs = [r for r in runs if not (r[3] or "").startswith("unexpected")]
    for seq, ops, obs, note in runs:
        if (note or "").startswith("unexpected"):
            fail_once(ctx, "%s on op %d (%s) of a valid sequence" % (note, len(ops) - 1,
                                                                     ops[-1]["op"]),
                      dict(kind="sequence", seq=jseq(seq["cfg"], ops)),
                      "%s-raises-%s" % (ops[-1]["op"], obs[-1]["out"][1]))
    terms = [coq_case(s["cfg"], ops, obs) for s, ops, obs, _ in ok_runs]
    bad = ctx.run_cases("diff_" + label, HEADER, terms, per_file=60, jobs=JOBS)
    failing = []
    for bb in bad:
        if not bb["cases"]:
            ctx.broken.append("correspondence:%s (no case list) %s" % (bb["file"], bb["err"][-300:]))
            ctx.log("correspondence file failed without case list", json.dumps(bb)[:600])
        failing += bb["cases"]
    for n, idx in enumerate(sorted(set(failing))):
        seq, ops, obs, note = ok_runs[idx]
        if n >= 3:
            ctx.broken.append("correspondence: sequence %d differs" % idx)
            continue
        report_mismatch(ctx, world, tmpdir, seq["cfg"], ops, obs, "%s%d" % (label, idx))
    return runs


def report_mismatch(ctx, world, tmpdir, cfg, ops, obs, name):
    # first differing op: compare all prefixes in one file
    terms = [coq_case(cfg, ops[:i], obs[:i]) for i in range(1, len(ops) + 1)]
    bad = ctx.run_cases("prefix_" + name, HEADER, terms, per_file=100)
    first = min([c for bb in bad for c in bb["cases"]] or [len(ops) - 1])
    ops, obs = ops[:first + 1], obs[:first + 1]
    # delta debugging: drop earlier ops / thin out point lists while the last op still differs
    for _ in range(8):
        cands = []
        for i in range(len(ops) - 1):
            cands.append([o for j, o in enumerate(ops) if j != i])
        last = ops[-1]
        if "pts" in last and len(last["pts"]) > 1 and last.get("kind") in ("list", "arr1"):
            for i in range(len(last["pts"])):
                p = [v for j, v in enumerate(last["pts"]) if j != i]
                cands.append(ops[:-1] + [dict(last, pts=p, shape=[len(p)])])
        if not cands:
            break
        rr = []
        for c in cands:
            c = [{k: v for k, v in o.items() if k not in ("pos", "xs_model")} for o in c]
            o2, b2, note = world.run(dict(cfg=cfg, ops=c), tmpdir)
            rr.append((o2, b2, note))
        usable = [(o2, b2) for o2, b2, note in rr if len(o2) == len(ops) - 1 or
                  (len(o2) == len(ops) and o2[-1]["op"] == ops[-1]["op"])]
        usable = [(o2, b2) for o2, b2 in usable if len(o2) > 0 and o2[-1]["op"] == ops[-1]["op"]
                  and b2[-1]["out"][0] != "other"]
        if not usable:
            break
        bad = ctx.run_cases("shrink_%s_%d" % (name, _), HEADER,
                            [coq_case(cfg, o2, b2) for o2, b2 in usable], per_file=100)
        still = sorted(set(c for bb in bad for c in bb["cases"]))
        if not still:
            break
        ops, obs = usable[still[0]]
        # keep only up to the first differing op of the smaller sequence
        terms = [coq_case(cfg, ops[:i], obs[:i]) for i in range(1, len(ops) + 1)]
        bad = ctx.run_cases("prefix_%s_%d" % (name, _), HEADER, terms, per_file=100)
        first = min([c for bb in bad for c in bb["cases"]] or [len(ops) - 1])
        ops, obs = ops[:first + 1], obs[:first + 1]
    model = model_observation(ctx, "model_" + name, cfg, ops, len(ops) - 1)
    impl = "(%s, %s)" % (coq_out(obs[-1]["out"]), coq_st(cfg, obs[-1]["st"]))
    ctx.log("DIFFERENTIAL MISMATCH after", json.dumps(jseq(cfg, ops)))
    ctx.log("  implementation:", " ".join(impl.split())[:1500])
    ctx.log("  model         :", model)
    ctx.broken.append("correspondence: model and class differ on op %s" % ops[-1]["op"])
    fail_once(
        ctx, "InterpolatableFunction deviates from the verified model on the last op (%s) of a "
        "%d-op sequence (k=%d, modes/adaptive/table history in the replay)" % (
            ops[-1]["op"], len(ops), cfg["k"]),
        dict(kind="differential", seq=jseq(cfg, ops), implementation=" ".join(impl.split()),
             model=model),
        "model-mismatch-%s" % ops[-1]["op"])


# --------------------------------------------------------------------------------------
# pass B: the property on the real class with the real spline

def make_real_class():
    from WallGo import InterpolatableFunction

    class RealFn(InterpolatableFunction):
        def __init__(self, bad, badcol=0, badval="nan", **kw):
            super().__init__(**kw)
            self.bad = bad if bad is None else Bad(bad, badcol, badval)

        def _functionImplementation(self, x):
            return fval(x, self._RETURN_VALUE_COUNT, self.bad, 0)

    return RealFn


class Bad(list):
    """non-finite window [lo, hi] + which component is poisoned with what"""

    def __init__(self, window, col=0, val="nan"):
        super().__init__(window[:2])
        self.col = getattr(window, "col", col)
        self.val = getattr(window, "val", BADVAL[val] if isinstance(val, str) else val)


def cfg_bad(cfg):
    return None if cfg["bad"] is None else Bad(cfg["bad"], cfg.get("badcol", 0),
                                               cfg.get("badval", "nan"))


def fval(x, k, bad, d):
    """d-th derivative of the test function; rows in the bad window are non-finite"""
    x = np.asarray(x, dtype=float)
    cols = []
    for j in range(k):
        arg = 0.7 * x + j
        v = [np.sin(arg), 0.7 * np.cos(arg), -0.49 * np.sin(arg)][d]
        cols.append(v)
    out = np.stack(cols, axis=-1) if k > 1 else cols[0]
    out = np.array(out, dtype=float)
    if bad is not None:
        m = (x >= bad[0]) & (x <= bad[1])
        val = getattr(bad, "val", np.nan)
        if k > 1:
            out[m, getattr(bad, "col", k - 1)] = val
        else:
            out[m] = val
    return out


def interp_tol(tab, x, d=0):
    """bound on |spline^(d) - f^(d)| at x for f = sin(0.7 x + j) (|f2| <= 0.49, |f3| <= 0.343,
    |f4| <= 0.2401) on the knots `tab` (d = 0 only for fewer than 4 knots):
      2 knots (scipy: straight line) : h^2/8 |f2|
      3 knots (scipy: parabola)      : max|w|/6 |f3| <= (x3-x1)^3 * 4/27 / 6 * |f3|
      >= 4 knots (not-a-knot cubic)  : K_d |f4| ( c_d h_i^(4-d) + h_i^(1-d) S_i / 24 ),
        h_i the interval holding x, c_d = 5/384, 1/24, 3/8 the Hall-Meyer constants of cubic
        spline interpolation, S_i = max_m 2^-|m-i| h_m^3 the slope error fed in by the other
        intervals (it decays at least by 1/2 per knot: diagonal dominance of the spline system).
    On 6e4 random meshes of the kinds the generators produce (uniform, extended with other
    spacings, with a dropped window, with a cluster of finite-difference stencil points) the
    largest observed error / bound(K=1) was 0.76, 3.0, 2.9 for d = 0, 1, 2; K = 4, 15, 15 (K_1, K_2
    are empirical: margin 5x; the largest error/tolerance ratio of every run is recorded in the
    evidence under tolerance_margins so that drift is visible)."""
    tab = np.asarray(tab, dtype=float)
    n = len(tab)
    if n == 2:
        h = tab[1] - tab[0]
        return 1.02 * h * h / 8 * 0.49 + 1e-12
    if n == 3:
        return 1.02 * (tab[2] - tab[0]) ** 3 * 4 / 27 / 6 * 0.343 + 1e-12
    i = int(np.clip(np.searchsorted(tab, x) - 1, 0, n - 2))
    g = np.diff(tab)
    h = float(g[i])
    S = float(np.max(g ** 3 * 0.5 ** np.abs(np.arange(len(g)) - i)))
    c = (5 / 384, 1 / 24, 3 / 8)[d]
    # floating-point floor: values 1e-12; derivatives of a spline on tiny intervals lose digits
    floor = (1e-11, 1e-9 / h + 1e-9, 1e-9 / h ** 2 + 1e-6)[d]
    return (4.0, 15.0, 15.0)[d] * 0.2401 * (c * h ** (4 - d) + h ** (1 - d) * S / 24) + floor


class Real:
    def __init__(self, ctx, tmpdir):
        self.ctx = ctx
        self.cls = make_real_class()
        self.tmpdir = tmpdir

    def margin(self, name, err, tol):
        if np.size(err) and np.all(np.isfinite(err)):
            m = self.ctx.cov.setdefault("tolerance_margins", {})
            m[name] = round(max(m.get(name, 0.0), float(np.max(err) / tol)), 4)

    def make(self, cfg):
        f = self.cls(cfg["bad"], cfg.get("badcol", 0), cfg.get("badval", "nan"),
                     bUseAdaptiveInterpolation=cfg["adapt"],
                     initialInterpolationPointCount=cfg["n0"], returnValueCount=cfg["k"])
        f._evaluationsUntilAdaptiveUpdate = cfg["thr"]
        return f

    def fail(self, what, seq, i, key, **extra):
        ops = seq["ops"][:i + 1]
        fail_once(self.ctx, what, dict(kind="real", seq=jseq(seq["cfg"], ops), **extra), key)

    def hazard(self, what, replay, key):
        report_hazard(self.ctx, what, replay, key)

    def run(self, seq):
        ctx = self.ctx
        cfg = seq["cfg"]
        k, bad = cfg["k"], cfg_bad(cfg)
        f = self.make(cfg)
        trail = (k,) if k > 1 else ()
        for i, op in enumerate(seq["ops"]):
            o = op["op"]
            if o == "copy":
                g = copy.deepcopy(f)
                spoil(f)
                f = g
                continue
            pre = snap(f)
            if pre["hasT"]:
                pre["vals"] = np.array(f._interpolationValues, dtype=float)
            exc = None
            r = None
            try:
                r = apply_op(f, op, self.tmpdir)
            except Exception as e:  # noqa
                exc = e
            post = snap(f)
            ctx.count("real_ops", None, nontrivial=False, bucket=o)
            # ---- universal state checks
            if post["hasT"]:
                t = np.array(post["tab"])
                if len(t) < 2 or not np.all(np.diff(t) > 0):
                    self.fail("table abscissae not strictly increasing after %s" % o, seq, i,
                              "table-not-increasing")
                    return
                if post["rmin"] != t[0] or post["rmax"] != t[-1]:
                    self.fail("interpolation range [%r, %r] is not [first, last] = [%r, %r] of the "
                              "stored abscissae after %s" % (post["rmin"], post["rmax"], t[0],
                                                             t[-1], o), seq, i, "range-not-table-ends")
                    return
                vals_now = np.asarray(f._interpolationValues, dtype=float)
                if not np.all(np.isfinite(vals_now)):
                    self.fail("non-finite value stored in the table after %s" % o, seq, i,
                              "nonfinite-in-table")
                    return
                if post["npts"] != len(t):
                    self.fail("numPoints() = %d but %d abscissae are stored" % (post["npts"], len(t)),
                              seq, i, "accessor-numpoints")
                    return
                # every stored value is the function's value at the abscissa stored with it
                want_v = fval(t, k, None, 0)
                if vals_now.shape != want_v.shape or \
                        np.max(np.abs(vals_now - want_v)) > 2e-14:
                    self.fail("stored values are not the function at the stored abscissae after %s "
                              "(max deviation %.3g)" % (o, float(np.max(np.abs(
                                  vals_now.reshape(len(t), -1) - want_v.reshape(len(t), -1))))
                                  if vals_now.size == want_v.size else float("nan")),
                              seq, i, "values-not-paired")
                    return
                want = "FUNCTION" in (post["mlo"], post["mhi"])
                if post["extrap"] != want:
                    self.fail("spline extrapolate flag %s but modes are (%s, %s) after %s" % (
                        post["extrap"], post["mlo"], post["mhi"], o), seq, i, "extrapolate-flag")
                    return
            ok = getattr(self, "chk_" + o)(seq, i, op, pre, post, r, exc, f, k, bad, trail)
            if ok is False or exc is not None:
                return                      # state after an exception is not followed further

    # ---- per-op oracles -------------------------------------------------------------
    def unexpected(self, seq, i, op, exc):
        self.fail("%s raised %s: %s" % (op["op"], type(exc).__name__, str(exc)[:90]), seq, i,
                  "%s-raises-%s" % (op["op"], type(exc).__name__))
        return False

    def chk_new(self, seq, i, op, pre, post, r, exc, f, k, bad, trail, a=None, b_=None, n=None):
        a = op["a"] if a is None else a
        b_ = op["b"] if b_ is None else b_
        n = op["n"] if n is None else n
        lin = np.linspace(a, b_, n)
        keep = np.array([not in_bad(bad, v) for v in lin], dtype=bool)
        feasible = a < b_ and int(keep.sum()) >= 2
        if exc is not None:
            if feasible or not isinstance(exc, ValueError):
                self.fail("table over [%g, %g] with %d points (%d finite rows) raised %s: %s" % (
                    a, b_, n, int(keep.sum()), type(exc).__name__, str(exc)[:60]), seq, i,
                    "table-build-raises-%s" % type(exc).__name__)
                return False
            return True
        if not feasible:
            self.fail("table built from fewer than two usable points", seq, i, "table-degenerate")
            return False
        if not np.array_equal(np.array(post["tab"]), lin[keep]):
            self.fail("stored abscissae are not exactly the points with finite rows (%d stored, "
                      "%d finite of %d)" % (len(post["tab"]), int(keep.sum()), n), seq, i,
                      "rows-not-dropped-individually")
            return False
        return True

    def sides(self, pre, x):
        lo = x < pre["rmin"]
        hi = x > pre["rmax"]
        return lo, hi

    def chk_eval(self, seq, i, op, pre, post, r, exc, f, k, bad, trail):
        x = np.asarray(make_input(op), dtype=float)
        truth = fval(x, k, bad, 0)
        if not op["use"] or not pre["hasT"]:
            if exc is not None:
                return self.unexpected(seq, i, op, exc)
            return self.same_direct(seq, i, op, r, truth, x, trail)
        lo, hi = self.sides(pre, x)
        must_raise = (np.any(lo) and pre["mlo"] == "ERROR") or (np.any(hi) and pre["mhi"] == "ERROR")
        if exc is not None:
            if must_raise and isinstance(exc, ValueError):
                return True
            return self.unexpected(seq, i, op, exc)
        if must_raise:
            self.fail("evaluation outside the table on an ERROR side returned a value", seq, i,
                      "error-mode-silent")
            return False
        if np.asarray(r).dtype != np.float64:
            self.fail("evaluate on %s input returns dtype %s" % (op.get("dtype", "float"),
                                                                 np.asarray(r).dtype), seq, i,
                      "result-dtype")
            return False
        r = np.asarray(r, dtype=float)
        if r.shape != x.shape + trail:
            self.fail("evaluate: result shape %s for input shape %s (return count %d)" % (
                r.shape, x.shape, k), seq, i, "eval-shape")
            return False
        same_table = pre["tab"] == post.get("tab")
        tab = np.array(pre["tab"])
        h = float(np.max(np.diff(tab)))
        edge_lo = fval(pre["rmin"], k, bad, 0)
        edge_hi = fval(pre["rmax"], k, bad, 0)
        for idx in np.ndindex(x.shape):
            xv = float(x[idx])
            got = np.atleast_1d(r[idx])
            tv = np.atleast_1d(truth[idx])
            side = "lo" if lo[idx] else ("hi" if hi[idx] else "in")
            mode = dict(lo=pre["mlo"], hi=pre["mhi"]).get(side)
            # (the whole call is answered by the table in force when it was made, also when a
            # direct evaluation of the lower side fires an adaptive update in the middle)
            fin = np.isfinite(tv)
            if side == "in":
                tol = interp_tol(tab, xv)
                self.margin("value inside, %s knots" % (len(tab) if len(tab) < 4 else ">=4"),
                            np.abs(got - tv)[fin], tol)
                bad_ = np.any(~np.isfinite(got)) or np.any(np.abs(got - tv)[fin] > tol)
                what, key = "inside the table (tolerance %.3g)" % tol, "eval-value-inside"
            elif mode == "NONE":
                bad_ = not np.array_equal(got, tv, equal_nan=True)
                what, key = "mode NONE (direct evaluation)", "eval-value-none"
            elif mode == "CONSTANT":
                ev = np.atleast_1d(edge_lo if side == "lo" else edge_hi)
                bad_ = np.any(~np.isfinite(got)) or np.any(np.abs(got - ev) > 1e-9)
                what, key = "mode CONSTANT (boundary value)", "eval-value-constant"
                tv = ev
            else:
                d = (pre["rmin"] - xv) if side == "lo" else (xv - pre["rmax"])
                tol = (h + d) ** 2 + (h + d) ** 4 + 1e-9
                bad_ = np.any(~np.isfinite(got)) or np.any(np.abs(got - tv)[fin] > tol)
                what, key = "mode FUNCTION (spline extrapolation)", "eval-value-function"
            if bad_:
                self.fail("evaluate(%r) %s, table [%g, %g] %d points: got %s, expected %s" % (
                    xv, what, pre["rmin"], pre["rmax"], len(tab), got.tolist(), tv.tolist()),
                    seq, i, key)
                return False
            self.ctx.count("real_elements", None, nontrivial=False, bucket="eval " + (
                "inside" if side == "in" else mode))
        return True

    def same_direct(self, seq, i, op, r, truth, x, trail):
        r = np.asarray(r, dtype=float)
        if r.shape != x.shape + trail or not np.array_equal(r, truth, equal_nan=True):
            self.fail("direct evaluation does not return the function's values / shape", seq, i,
                      "eval-direct")
            return False
        return True

    def chk_deriv(self, seq, i, op, pre, post, r, exc, f, k, bad, trail):
        x = np.asarray(make_input(op), dtype=float)
        n = op["order"]
        dx = 2.0 ** -op["dxexp"]
        if n > 2:
            if isinstance(exc, AssertionError):
                return True
            if exc is not None:
                return self.unexpected(seq, i, op, exc)
            return True
        truth = fval(x, k, bad, n)
        direct = not op["use"] or not pre["hasT"]
        if direct:
            if exc is not None:
                return self.unexpected(seq, i, op, exc)
            r = np.asarray(r, dtype=float)
            if r.shape != x.shape + trail:
                self.fail("derivative: result shape %s for input shape %s" % (r.shape, x.shape),
                          seq, i, "deriv-shape")
                return False
            fin = np.isfinite(r) & np.isfinite(truth)
            if np.any(np.abs(r - truth)[fin] > (1e-5 if n == 1 else 2e-2)):
                self.fail("finite-difference derivative of the function is off", seq, i,
                          "deriv-direct")
                return False
            return True
        lo, hi = self.sides(pre, x)
        # every stencil point is answered by the mode of ITS side: for a table narrower than the
        # stencil (4 dx) a point below the table reaches the upper side's mode too
        outp = x[lo | hi].ravel()
        offs = np.array([-2.0, -1.0, 1.0, 2.0] if n == 1 else [-2.0, -1.0, 0.0, 1.0, 2.0])
        sten = outp[None, :] + offs[:, None] * dx
        reach_lo = bool(np.any(sten <= pre["rmin"])) if outp.size else False
        reach_hi = bool(np.any(sten >= pre["rmax"])) if outp.size else False
        narrow = (pre["rmax"] - pre["rmin"]) <= 4 * dx
        both_none = pre["mlo"] == "NONE" and pre["mhi"] == "NONE"
        must_raise = outp.size > 0 and not both_none and (
            (reach_lo and pre["mlo"] == "ERROR") or (reach_hi and pre["mhi"] == "ERROR") or
            (pre["mlo"] == "ERROR" and pre["mhi"] == "ERROR"))
        if exc is not None:
            if must_raise and isinstance(exc, ValueError):
                return True
            return self.unexpected(seq, i, op, exc)
        if must_raise:
            self.fail("derivative outside the table on an ERROR side returned a value", seq, i,
                      "error-mode-silent")
            return False
        if np.asarray(r).dtype != np.float64:
            self.fail("derivative on %s input returns dtype %s" % (op.get("dtype", "float"),
                                                                   np.asarray(r).dtype), seq, i,
                      "result-dtype")
            return False
        r = np.asarray(r, dtype=float)
        if r.shape != x.shape + trail:
            self.fail("derivative: result shape %s for input shape %s (return count %d)" % (
                r.shape, x.shape, k), seq, i, "deriv-shape")
            return False
        same_table = pre["tab"] == post.get("tab")
        tab = np.array(pre["tab"])
        h = float(np.max(np.diff(tab)))
        fine = len(tab) >= 5 and h <= 0.5
        for idx in np.ndindex(x.shape):
            xv = float(x[idx])
            got = np.atleast_1d(r[idx])
            tv = np.atleast_1d(truth[idx])
            side = "lo" if lo[idx] else ("hi" if hi[idx] else "in")
            mode = dict(lo=pre["mlo"], hi=pre["mhi"]).get(side)
            if side != "in" and (not same_table or narrow):
                continue                  # (narrow tables: dispatch checked by pass A's tags)
            fin = np.isfinite(tv)
            bad_ = False
            if side == "in":
                what, key = "inside the table", "deriv-value-inside"
                if np.any(~np.isfinite(got)):
                    bad_ = True
                elif len(tab) >= 4:
                    tol = interp_tol(tab, xv, n)
                    what = "inside the table (tolerance %.3g)" % tol
                    self.margin("derivative %d inside" % n, np.abs(got - tv)[fin], tol)
                    bad_ = np.any(np.abs(got - tv)[fin] > tol)
            else:
                edge = pre["rmin"] if side == "lo" else pre["rmax"]
                d = abs(xv - edge)
                # rows of the stencil that are non-finite make the result non-finite
                st_fin = all(not in_bad(bad, xv + s * dx) for s in (-2, -1, 0, 1, 2))
                if mode == "NONE":
                    what, key = "mode NONE (finite differences of the function)", "deriv-value-none"
                    if st_fin and d > 2 * dx:
                        bad_ = np.any(~np.isfinite(got)) or \
                            np.any(np.abs(got - tv) > (1e-5 if n == 1 else 2e-2))
                elif mode == "CONSTANT":
                    what, key = "mode CONSTANT", "deriv-value-constant"
                    if d > 2 * dx:
                        bad_ = np.any(~np.isfinite(got)) or np.any(np.abs(got) > 1e-7 / dx ** n)
                        tv = np.zeros_like(tv)
                    else:
                        lim = 5.0 if n == 1 else 5.0 / dx
                        bad_ = np.any(~np.isfinite(got)) or np.any(np.abs(got) > lim)
                        tv = np.array(["|.| <= %g (stencil straddles the table edge)" % lim])
                else:
                    what, key = "mode FUNCTION", "deriv-value-function"
                    if np.any(~np.isfinite(got)):
                        bad_ = True
                    elif fine and d <= h and n == 1:
                        bad_ = np.any(np.abs(got - tv)[fin] > 4.0 * (h + d))
            if bad_:
                self.fail("derivative(order=%d) at %r %s, table [%g, %g] %d points, dx=%g: got %s, "
                          "expected %s" % (n, xv, what, pre["rmin"], pre["rmax"], len(tab), dx,
                                           got.tolist(), tv.tolist()), seq, i, key)
                return False
            self.ctx.count("real_elements", None, nontrivial=False, bucket="deriv%d " % n + (
                "inside" if side == "in" else mode))
        return True

    def chk_extend(self, seq, i, op, pre, post, r, exc, f, k, bad, trail):
        if not pre["hasT"]:
            return self.chk_new(seq, i, op, pre, post, r, exc, f, k, bad, trail, a=op["a"],
                                b_=op["b"], n=op["nlo"] + op["nhi"])
        if exc is not None:
            return self.unexpected(seq, i, op, exc)
        A, B = Fraction(op["a"]), Fraction(op["b"])
        rmin, rmax = Fraction(pre["rmin"]), Fraction(pre["rmax"])
        want = [Fraction(v) for v in pre["tab"]]
        # at most as many points as fit at 1e-8 of the table width
        res = Fraction(1, 10 ** 8) * (rmax - rmin)
        nlo = max(0, min(op["nlo"], int((rmin - A) / res)))
        nhi = max(0, min(op["nhi"], int((B - rmax) / res)))
        if A < rmin and nlo > 0:
            sp = (rmin - A) / nlo
            want = [A + j * sp for j in range(nlo)] + want
        if B > rmax and nhi > 0:
            sp = (B - rmax) / nhi
            want = want + [rmax + (j + 1) * sp for j in range(nhi)]
        want = [float(v) for v in want if not in_bad(bad, float(v))]
        got = post["tab"]
        if len(got) != len(want) or np.max(np.abs(np.array(got) - np.array(want))) > 1e-9:
            self.fail("extendInterpolationTable(%g, %g, %d, %d) on table [%g, %g]: %d abscissae "
                      "[%g .. %g], expected %d [%g .. %g] (old points kept, equally spaced blocks "
                      "added, non-finite rows left out)" % (
                          op["a"], op["b"], op["nlo"], op["nhi"], pre["rmin"], pre["rmax"],
                          len(got), got[0], got[-1], len(want), want[0], want[-1]), seq, i,
                      "extend-table")
            return False
        return True

    def chk_modes(self, seq, i, op, pre, post, r, exc, f, k, bad, trail):
        if exc is not None:
            return self.unexpected(seq, i, op, exc)
        if pre["hasT"] and pre["tab"] != post["tab"]:
            self.fail("setExtrapolationType changed the table", seq, i, "modes-change-table")
            return False
        return True

    def chk_enable(self, seq, i, op, pre, post, r, exc, f, k, bad, trail):
        return True if exc is None else self.unexpected(seq, i, op, exc)

    chk_disable = chk_enable

    def chk_sched(self, seq, i, op, pre, post, r, exc, f, k, bad, trail):
        if exc is not None:
            return self.unexpected(seq, i, op, exc)
        new = sorted(set(v for v in op["pts"] if not in_bad(bad, v)))
        total = pre["cnt"] + len(new)
        if not new:
            fired = False
        else:
            fired = total >= seq["cfg"]["thr"]
        if fired:
            if post["cnt"] != 0 or post["pend"]:
                self.fail("adaptive update due (pending %d >= threshold %d) but counters not "
                          "reset" % (total, seq["cfg"]["thr"]), seq, i, "adaptive-trigger")
                return False
        else:
            if post["cnt"] != total or post["pend"] != pre["pend"] + new or \
                    pre.get("tab") != post.get("tab"):
                self.fail("pending bookkeeping: count %d (expected %d) below threshold %d" % (
                    post["cnt"], total, seq["cfg"]["thr"]), seq, i, "adaptive-trigger")
                return False
        return True

    def chk_wr(self, seq, i, op, pre, post, r, exc, f, k, bad, trail):
        if not pre["hasT"]:
            return True
        if exc is not None:
            return self.unexpected(seq, i, op, exc)
        t0, t1 = np.array(pre["tab"]), np.array(post["tab"])
        v1 = np.array(f._interpolationValues, dtype=float)
        if t0.shape != t1.shape or np.max(np.abs(t0 - t1)) > 1e-13 * (1 + np.max(np.abs(t0))) or \
                pre["vals"].shape != v1.shape or np.max(np.abs(pre["vals"] - v1)) > 1e-13:
            self.fail("write + read does not reproduce the table", seq, i, "roundtrip")
            return False
        xs = np.linspace(t1[0], t1[-1], 7)
        from scipy.interpolate import CubicSpline
        ref = CubicSpline(t0, pre["vals"], axis=0)(xs)
        gaps = np.diff(t0)
        # the text format keeps 15 digits; a cubic through very unequal knots amplifies that
        tol = 1e-11 * max(1.0, float(gaps.max() / gaps.min())) ** 3
        if np.max(np.abs(np.asarray(f(xs)) - ref)) > tol:
            self.fail("write + read does not reproduce the interpolated function", seq, i,
                      "roundtrip")
            return False
        # the same file read by a FRESH object of the same configuration and modes reproduces
        # the function: table, values, in-range values and out-of-range dispatch
        g = self.make(seq["cfg"])
        g.disableAdaptiveInterpolation()
        g.setExtrapolationType(mode_of(post["mlo"]), mode_of(post["mhi"]))
        try:
            g.readInterpolationTable(f._c18_last_path)
            tg = np.asarray(g._interpolationPoints, dtype=float)
            vg = np.asarray(g._interpolationValues, dtype=float)
            same = tg.shape == t1.shape and np.array_equal(tg, t1) and np.array_equal(vg, v1) and \
                g.interpolationRangeMin() == t1[0] and g.interpolationRangeMax() == t1[-1]
            if same:
                probe = np.concatenate((xs, [t1[0] - 0.25, t1[-1] + 0.25]))
                adaptive = f._bUseAdaptiveInterpolation
                f.disableAdaptiveInterpolation()
                try:
                    try:
                        want = ("ok", np.asarray(f(probe)))
                    except ValueError:
                        want = ("ValueError", None)
                    try:
                        got = ("ok", np.asarray(g(probe)))
                    except ValueError:
                        got = ("ValueError", None)
                finally:
                    if adaptive:
                        f._bUseAdaptiveInterpolation = True
                same = want[0] == got[0] and (want[1] is None or
                                               np.array_equal(want[1], got[1], equal_nan=True))
        except Exception as e:  # noqa
            self.fail("a fresh object cannot read the written table: %s %s" % (
                type(e).__name__, str(e)[:60]), seq, i, "roundtrip-fresh")
            return False
        if not same:
            self.fail("a fresh object reading the written table does not reproduce table, values "
                      "and evaluations of the writer", seq, i, "roundtrip-fresh")
            return False
        return True

    def user_table(self, seq, i, op, pre, post, exc, f, k, bad, exact):
        """newInterpolationTableFromValues / readInterpolationTable on user rows (x, f(x)) in the
        given order: either a valid table of exactly the finite rows, or ValueError and the old
        table untouched"""
        xs = np.array(op["xs"], dtype=float)
        keep = np.array([not in_bad(bad, v) for v in xs], dtype=bool)
        xf = xs[keep]
        feasible = len(xf) >= 2 and bool(np.all(np.diff(xf) > 0))
        if exc is None and not feasible and len(xf) >= 2 and \
                bool(np.all(np.diff(np.sort(xf)) > 0)):
            # rows out of order may be rejected, or accepted as the rows sorted by abscissa
            # (each value kept on its abscissa: universal pairing check)
            xf = np.sort(xf)
            feasible = True
        if exc is not None:
            if feasible or not isinstance(exc, ValueError):
                self.fail("user table %s (%s order) raised %s: %s" % (
                    np.round(xs, 4).tolist(), op.get("how"), type(exc).__name__, str(exc)[:60]),
                    seq, i, "user-table-raises-%s" % type(exc).__name__)
                return False
            if pre.get("tab") != post.get("tab") or pre["hasT"] != post["hasT"]:
                self.fail("a rejected user table changed the stored table", seq, i,
                          "user-table-rejected-but-changed")
                return False
            return True
        if not feasible:
            self.fail("user table with abscissae %s (%s order; finite rows %s) was accepted: the "
                      "spline needs strictly increasing abscissae and must keep each value with "
                      "its abscissa" % (np.round(xs, 4).tolist(), op.get("how"),
                                        np.round(xf, 4).tolist()), seq, i, "user-table-accepted")
            return False
        if len(post["tab"]) != len(xf) or not np.allclose(np.array(post["tab"]), xf, rtol=2e-15,
                                                          atol=0.0):
            self.fail("user table: stored abscissae %s are not the finite rows %s" % (
                np.round(post["tab"], 4).tolist(), np.round(xf, 4).tolist()), seq, i,
                "rows-not-dropped-individually")
            return False
        return True                      # values: universal pairing check

    def chk_fromvals(self, seq, i, op, pre, post, r, exc, f, k, bad, trail):
        return self.user_table(seq, i, op, pre, post, exc, f, k, bad, True)

    def chk_readfile(self, seq, i, op, pre, post, r, exc, f, k, bad, trail):
        return self.user_table(seq, i, op, pre, post, exc, f, k, bad, False)

    def chk_readmissing(self, seq, i, op, pre, post, r, exc, f, k, bad, trail):
        if exc is not None:
            return self.unexpected(seq, i, op, exc)
        if pre.get("tab") != post.get("tab") or pre["hasT"] != post["hasT"]:
            self.fail("reading a missing file changed the table", seq, i, "read-missing")
            return False
        return True


def fail_once(ctx, what, replay, key):
    """one concrete failing input per failure class (the first one found)"""
    seen = ctx.cov.setdefault("failure_classes", {})
    seen[key] = seen.get(key, 0) + 1
    if seen[key] == 1:
        ctx.fail_input(what, replay, key=key)


def report_hazard(ctx, what, replay, key):
    fail_once(ctx, what, replay, key)


def float_hazards(ctx, rng, n):
    """np.arange decides its length by a float quotient: extensions with NON-dyadic ends"""
    cls = make_real_class()
    for _ in range(n):
        a = round(rng.uniform(-3, 0), rng.choice([1, 2, 3, 6]))
        b_ = a + round(rng.uniform(0.5, 3), rng.choice([1, 2, 3, 6]))
        npts = rng.choice([5, 10, 11, 50])
        nm = a - round(rng.uniform(0.1, 2), rng.choice([1, 2, 3]))
        nM = b_ + round(rng.uniform(0.1, 2), rng.choice([1, 2, 3]))
        pl = rng.choice([1, 2, 3, 5, 7, 10, 20, 49])
        ph = rng.choice([1, 2, 3, 5, 7, 10, 20, 49])
        f = cls(None, bUseAdaptiveInterpolation=False, returnValueCount=rng.choice([1, 2]))
        f.newInterpolationTable(a, b_, npts)
        rep = dict(kind="float_extend", table=[a, b_, npts], extend=[nm, nM, pl, ph])
        ctx.count("float_extend", rep)
        try:
            f.extendInterpolationTable(nm, nM, pl, ph)
        except Exception as e:  # noqa
            report_hazard(ctx, "extendInterpolationTable(%r, %r, %d, %d) on a table over [%r, %r] "
                          "(%d points) raises %s: %s" % (nm, nM, pl, ph, a, b_, npts,
                                                         type(e).__name__, str(e)[:60]), rep,
                          "extend-duplicate-knot")
            continue
        t = np.asarray(f._interpolationPoints)
        d = np.diff(t)
        if not np.all(d > 0):
            fail_once(ctx, "table not strictly increasing after a non-dyadic extension", rep,
                      "table-not-increasing")
        elif d.min() < 0.5 * min((a - nm) / pl, (nM - b_) / ph, (b_ - a) / (npts - 1)):
            report_hazard(ctx, "extension leaves two abscissae %.3g apart (near-duplicate of the "
                          "old table end)" % d.min(), rep, "extend-duplicate-knot")
        if abs(t[-1] - nM) > 1e-12 * (1 + abs(nM)) or t[0] != nm or len(t) != npts + pl + ph:
            report_hazard(ctx, "extension to [%r, %r] with %d+%d points produced %d points over "
                          "[%r, %r] (expected %d)" % (nm, nM, pl, ph, len(t), t[0], t[-1],
                                                      npts + pl + ph), rep, "extend-overshoot")


def spline_errors(f, k, ntest=801):
    """max |f - truth| and |f' - truth'| over the table range"""
    t = np.asarray(f._interpolationPoints, dtype=float)
    xs = np.linspace(t[0], t[-1], ntest)
    e0 = float(np.max(np.abs(np.asarray(f(xs)) - fval(xs, k, None, 0))))
    e1 = float(np.max(np.abs(np.asarray(f.derivative(xs, order=1)) - fval(xs, k, None, 1))))
    return e0, e1


def ulp_hazards(ctx, rng, n):
    """extensions and adaptive updates by a few ulp .. a few 1e-8 of the table width: binary64
    cannot hold the requested number of distinct points there.  Clause checked: the operation
    does not raise, the table stays strictly increasing, and the interpolated function and its
    derivative stay as accurate as before (no knots a few ulp apart)."""
    cls = make_real_class()
    for it in range(n):
        a = rng.choice([0.1, -1.3, 0.0, 2.0, -0.5, 80.0])
        w = rng.choice([2.2, 1.0, 0.7, 40.0])
        npts = rng.choice([50, 200, 1000])
        k = rng.choice([1, 2])
        j = rng.choice([1, 2, 3, 10, 10 ** 3, 10 ** 6, 10 ** 8, 10 ** 9, 10 ** 10])
        pl = rng.choice([1, 2, 3, 5, 200])
        ph = rng.choice([1, 2, 3, 5, 200])
        b_ = a + w
        nm = float(a - j * np.spacing(abs(a) if a else 1.0))
        nM = float(b_ + j * np.spacing(abs(b_)))
        variant = rng.choice(["extend", "adaptive"])
        f = cls(None, bUseAdaptiveInterpolation=(variant == "adaptive"),
                initialInterpolationPointCount=npts, returnValueCount=k)
        f._evaluationsUntilAdaptiveUpdate = 3
        f.newInterpolationTable(a, b_, npts)
        e0, e1 = spline_errors(f, k)
        rep = dict(kind="ulp_extend", table=[a, b_, npts], ulps=j, variant=variant,
                   extend=[nm, nM, pl, ph], k=k)
        ctx.count("ulp_extend", rep, bucket="%s j=%g" % (variant, j))
        try:
            if variant == "extend":
                f.extendInterpolationTable(nm, nM, pl, ph)
            else:
                # three direct evaluations a few ulp outside trigger the adaptive update
                got = [np.asarray(f(x)) for x in (nm, nM, float(np.nextafter(nM, np.inf)))]
                for x, g in zip((nm, nM, float(np.nextafter(nM, np.inf))), got):
                    if not np.array_equal(g, fval(x, k, None, 0)):
                        fail_once(ctx, "evaluation %g ulp outside the table in mode NONE does not "
                                  "return the function value" % j, rep, "extend-degenerate-step")
        except Exception as e:  # noqa
            fail_once(ctx, "%s by %g ulp beyond a %d-point table over [%r, %r] raises %s: %s" % (
                "extendInterpolationTable" if variant == "extend" else "evaluation (adaptive update)",
                j, npts, a, b_, type(e).__name__, str(e)[:60]), rep, "extend-degenerate-step")
            continue
        t = np.asarray(f._interpolationPoints)
        if not np.all(np.diff(t) > 0):
            fail_once(ctx, "table not strictly increasing after an extension by %g ulp" % j, rep,
                      "table-not-increasing")
            continue
        n0, n1 = spline_errors(f, k)
        # (the class resolves extensions down to 1e-8 of the table width: there the values keep
        # ~1e-11 and the first derivative ~1e-6)
        if n0 > max(20 * e0, 1e-9) or n1 > max(20 * e1, 1e-5):
            fail_once(ctx, "after an extension by %g ulp (%d+%d points requested, %d stored) the "
                      "interpolated function is off by %.3g (before: %.3g), its derivative by %.3g "
                      "(before: %.3g): knots %.3g apart" % (j, pl, ph, len(t), n0, e0, n1, e1,
                                                             float(np.diff(t).min())), rep,
                      "extend-degenerate-step")


def notable_ulp(ctx):
    """no table yet, adaptive on: evaluations hovering within a few ulp of one point (a root
    finder converging) until the threshold is reached, then two well separated points"""
    cls = make_real_class()
    for k in (1, 2):
        for x0 in (0.75, -0.25, 80.0, -1e-3):
            for j in (1, 2, 7, 1000):
                f = cls(None, bUseAdaptiveInterpolation=True, initialInterpolationPointCount=20,
                        returnValueCount=k)
                f._evaluationsUntilAdaptiveUpdate = 4
                sp = np.spacing(abs(x0)) if x0 else np.spacing(1.0)   # (denormal spacings: out of scope)
                xs = [float(x0 + ((i * 3) % (j + 1)) * sp) for i in range(9)]
                rep = dict(kind="notable_ulp", k=k, x0=x0, ulps=j, points=xs, threshold=4)
                ctx.count("notable_ulp", rep)
                try:
                    for x in xs:
                        had = f.hasInterpolation()
                        r = np.asarray(f(x))
                        w = fval(x, k, None, 0)
                        if (not had and not np.array_equal(r, w)) or np.max(np.abs(r - w)) > 1e-9:
                            fail_once(ctx, "evaluation at %r (%s table) returns %s, function value "
                                      "%s" % (x, "with a" if had else "without a", r.tolist(),
                                              w.tolist()), rep, "adaptive-degenerate-range")
                    if f.hasInterpolation():
                        t = np.asarray(f._interpolationPoints)
                        e0, e1 = spline_errors(f, k)
                        if not np.all(np.diff(t) > 0) or e0 > 1e-9 or e1 > 1e-5:
                            fail_once(ctx, "table seeded from evaluations %g ulp apart: %d points "
                                      "over [%r, %r], errors %.3g / %.3g" % (
                                          j, len(t), t[0], t[-1], e0, e1), rep,
                                      "adaptive-degenerate-range")
                    for x in (x0 + 1.0, x0 + 0.5, x0 + 0.25, x0 + 0.75):
                        f(x)
                    if not f.hasInterpolation():
                        fail_once(ctx, "no table built after evaluations at well separated points "
                                  "past the threshold", rep, "adaptive-no-table")
                except Exception as e:  # noqa
                    fail_once(ctx, "no table, adaptive threshold 4: evaluations within %g ulp of %r "
                              "raise %s: %s (the adaptive update seeds a table from points a "
                              "rounding error apart)" % (j, x0, type(e).__name__, str(e)[:60]), rep,
                              "adaptive-degenerate-range")


def defaults_family(ctx):
    """constructor defaults (adaptive, threshold 500, 1000 points), __call__, derivative() with
    its default epsilon/scale, the accessors: the history of the audit's clean-tree input and
    the plain use of the class"""
    cls = make_real_class()
    for k in (1, 2):
        f = cls(None, returnValueCount=k)
        rep = dict(kind="defaults", k=k)
        ctx.count("defaults_family", rep)
        try:
            f.newInterpolationTable(0.1, 2.3, 1000)
            ok = f.numPoints() == 1000 and f.interpolationRangeMin() == 0.1 and \
                f.interpolationRangeMax() == 2.3 and f.hasInterpolation()
            xs = np.linspace(2.4, 3.0, 499)
            r = np.asarray(f(xs))
            ok = ok and np.array_equal(r, fval(xs, k, None, 0)) and f.numPoints() == 1000
            x1 = float(np.nextafter(0.1, -np.inf))
            r1 = np.asarray(f(x1))            # the 500th direct evaluation: adaptive update
            ok = ok and np.array_equal(r1, fval(x1, k, None, 0))
            ok = ok and f.interpolationRangeMax() == 3.0 and f.numPoints() >= 1200
            e0, e1 = spline_errors(f, k)
            ok = ok and e0 < 1e-8 and e1 < 1e-5
            xin = np.array([[0.5, 1.0], [2.5, 2.9]])
            d1 = np.asarray(f.derivative(xin))               # all defaults
            d2 = np.asarray(f.derivative(xin, order=2))
            ok = ok and d1.shape == xin.shape + ((k,) if k > 1 else ()) and \
                float(np.max(np.abs(d1 - fval(xin, k, None, 1)))) < 1e-6 and \
                float(np.max(np.abs(d2 - fval(xin, k, None, 2)))) < 1e-3
            xo = np.array([-1.0, 3.5])                       # outside: FD with the default step
            do = np.asarray(f.derivative(xo))
            ok = ok and float(np.max(np.abs(do - fval(xo, k, None, 1)))) < 1e-8
            if not ok:
                fail_once(ctx, "default-constructed function (adaptive, threshold 500, 1000 points): "
                          "table/accessors/values/derivatives after 500 direct evaluations are off "
                          "(points %d, range [%r, %r], errors %.3g %.3g)" % (
                              f.numPoints(), f.interpolationRangeMin(), f.interpolationRangeMax(),
                              e0, e1), rep, "defaults-history")
        except Exception as e:  # noqa
            fail_once(ctx, "default-constructed function: %s %s" % (type(e).__name__, str(e)[:80]),
                      rep, "defaults-history-raises-%s" % type(e).__name__)


class StubPotential:
    """a one-field potential whose minimum and value are known in closed form"""

    class DS:
        temperatureVariationScale = 1.0

    derivativeSettings = DS()

    def getInherentRelativeError(self):
        return 1e-12

    @staticmethod
    def phase(T):
        return np.sqrt(4 - 0.1 * T ** 2), -T ** 4 + 0.3 * T ** 2

    def findLocalMinimum(self, guess, T):
        T = np.atleast_1d(np.asarray(T, dtype=float)).ravel()
        v, V = self.phase(T)
        return np.stack([v], axis=-1), V


def real_potential():
    """a real EffectivePotential subclass (WallGo's own findLocalMinimum, finite-difference
    machinery and Fields) whose phase is known in closed form:
    V = -T^4 + 0.3 T^2 + (v^2 - (4 - 0.1 T^2))^2 / 4, minimum v = sqrt(4 - 0.1 T^2)"""
    import WallGo

    class Pot(WallGo.EffectivePotential):
        fieldCount = 1
        effectivePotentialError = 1e-12

        def evaluate(self, fields, temperature):
            v = fields.getField(0)
            T = np.asarray(temperature, dtype=float)
            return -T ** 4 + 0.3 * T ** 2 + 0.25 * (v ** 2 - (4 - 0.1 * T ** 2)) ** 2

    pot = Pot()
    pot.configureDerivatives(WallGo.VeffDerivativeSettings(temperatureVariationScale=1.0,
                                                           fieldValueVariationScale=1.0))
    return pot


def freeenergy_grid(ctx):
    """FreeEnergy over a REAL EffectivePotential: evaluate and derivative (orders 1, 2), scalar and
    1-D input (length 1, 2, 5), inside / outside / mixed, all mode pairs on the side that is
    hit, the three ways into the finite-difference path (no table, bUseInterpolation=False,
    outside in mode NONE), as constructed (adaptive on) and with adaptive off"""
    import WallGo
    from WallGo import EExtrapolationType as E
    from WallGo.freeEnergy import FreeEnergy
    from WallGo.exceptions import WallGoError
    pot = real_potential()
    V = [lambda T: -T ** 4 + 0.3 * T ** 2, lambda T: -4 * T ** 3 + 0.6 * T,
         lambda T: -12 * T ** 2 + 0.6]
    tol = [1e-6, 2e-4, 2e-2]
    lo, hi = 0.5, 2.0
    inputs = [1.25, 2.5, np.array([1.25]), np.array([2.5]), np.array([0.75, 1.9]),
              np.array([2.25, 2.5]), np.array([0.25, 1.0, 2.5]),
              np.array([2.25, 2.5, 2.75, 3.0, 3.25]), [0.6, 1.3]]

    def run_one(fe, what, x, order, use, mlo, mhi, table):
        xa = np.asarray(x, dtype=float)
        xs = np.atleast_1d(xa)
        below = bool(np.any(xs < lo)) and table and use
        above = bool(np.any(xs > hi)) and table and use
        must_raise = (below and mlo == "ERROR") or (above and mhi == "ERROR")
        rep = dict(kind="freeenergy", what=what, x=xs.tolist(), order=order, use=use,
                   modes=[mlo, mhi], table=table, scalar=(xa.ndim == 0))
        ctx.count("freeenergy_grid", rep, bucket="%s order %d" % (what, order))
        try:
            r = fe.evaluate(x, use) if order == 0 else fe.derivative(x, order=order,
                                                                      bUseInterpolation=use)
        except (ValueError, WallGoError, AssertionError) as e:
            if must_raise and isinstance(e, ValueError):
                return
            fail_once(ctx, "FreeEnergy (real potential, %s): %s at %s, modes (%s, %s) raises %s: %s"
                      % (what, "evaluate" if order == 0 else "derivative(order=%d)" % order,
                         xs.tolist(), mlo, mhi, type(e).__name__, str(e)[:70]), rep,
                      "freeenergy-fd-derivative-array" if (order and not isinstance(x, float)
                                                           and len(xs) > 1)
                      else "freeenergy-raises-%s" % type(e).__name__)
            return
        if must_raise:
            fail_once(ctx, "FreeEnergy (real potential, %s): %s at %s outside the table on an ERROR "
                      "side returned %s" % (what, "evaluate" if order == 0 else
                                            "derivative(order=%d)" % order, xs.tolist(),
                                            np.round(np.atleast_1d(r.veffValue), 4).tolist()), rep,
                      "freeenergy-error-mode-silent")
            return
        got = np.atleast_1d(np.asarray(r.veffValue, dtype=float))
        want = V[order](xs)
        # CONSTANT / FUNCTION sides: only in-range and direct elements are compared with the
        # closed form; CONSTANT elements with the boundary value (derivative 0)
        mask = np.ones(len(xs), dtype=bool)
        if table and use:
            for side, m in ((xs < lo, mlo), (xs > hi, mhi)):
                if m == "FUNCTION":
                    mask &= ~side
                if m == "CONSTANT":
                    want = np.where(side, V[0](np.where(xs < lo, lo, hi)) if order == 0 else 0.0,
                                    want)
        if got.shape != xs.shape or (len(xs) > 1 and np.shape(r.veffValue) != xa.shape):
            bad = "shape %s for input shape %s" % (np.shape(r.veffValue), xa.shape)
        elif np.any(~np.isfinite(got[mask])) or \
                np.max(np.abs(got - want)[mask], initial=0.0) > tol[order] * (1 + np.max(np.abs(want))):
            bad = "got %s, expected %s" % (np.round(got, 4).tolist(), np.round(want, 4).tolist())
        else:
            return
        fail_once(ctx, "FreeEnergy (real potential, %s): %s at %s, modes (%s, %s): %s" % (
            what, "evaluate" if order == 0 else "derivative(order=%d)" % order, xs.tolist(), mlo,
            mhi, bad), rep,
            "freeenergy-fd-derivative-array" if (order and len(xs) > 1) else "freeenergy-contract")

    for adaptive in (True, False):
        protos = {}

        def fresh(table):
            if table not in protos:
                fe = FreeEnergy(pot, 1.0, WallGo.Fields([2.0]), initialInterpolationPointCount=50)
                if not adaptive:
                    fe.disableAdaptiveInterpolation()
                if table:
                    fe.newInterpolationTable(lo, hi, 61)
                protos[table] = fe
            return copy.deepcopy(protos[table])
        for x in inputs:
            for order in (0, 1, 2):
                # no table yet: direct / finite differences
                fe = fresh(False)
                fe.setExtrapolationType(E.NONE, E.NONE)
                run_one(fe, "no table", x, order, True, "NONE", "NONE", False)
                # table, interpolation switched off for the call
                run_one(fresh(True), "bUseInterpolation=False", x, order, False, "ERROR", "ERROR",
                        True)
                for mlo, mhi in (("ERROR", "ERROR"), ("NONE", "NONE"), ("CONSTANT", "NONE"),
                                 ("NONE", "CONSTANT"), ("ERROR", "NONE"), ("FUNCTION", "ERROR"),
                                 ("NONE", "FUNCTION")):
                    fe = fresh(True)
                    fe.setExtrapolationType(getattr(E, mlo), getattr(E, mhi))
                    run_one(fe, "table [0.5, 2]" + (" adaptive" if adaptive else ""), x, order,
                            True, mlo, mhi, True)


def derived_classes(ctx):
    """the two subclasses WallGo ships: FreeEnergy (freeEnergy.py: evaluate/__call__/derivative
    overrides, FreeEnergyValueType packing, ValueError -> WallGoError) and JbIntegral
    (PotentialTools/integrals.py: 2 return values).  Scalar and 1-D inputs of length >= 2 (the
    shapes FreeEnergy's packing supports), inside/outside, ERROR and CONSTANT modes."""
    import WallGo
    from WallGo import EExtrapolationType as E
    from WallGo.freeEnergy import FreeEnergy
    from WallGo.exceptions import WallGoError
    rep = dict(kind="derived", cls="FreeEnergy")
    ctx.count("derived_classes", rep)
    pot = StubPotential()
    try:
        fe = FreeEnergy(pot, 1.0, WallGo.Fields([2.0]), initialInterpolationPointCount=50)
        fe.disableAdaptiveInterpolation()
        fe.newInterpolationTable(0.5, 2.0, 61)
        problems = []
        for x in (1.0, np.array([0.75, 1.0, 1.9]), [0.6, 1.3]):
            xa = np.asarray(x, dtype=float)
            for via in ("call", "evaluate"):
                r = fe(x) if via == "call" else fe.evaluate(x)
                v, V = pot.phase(xa)
                if np.shape(r.veffValue) != xa.shape or \
                        np.max(np.abs(np.asarray(r.veffValue) - V)) > 1e-7 or \
                        np.max(np.abs(np.asarray(r.fieldsAtMinimum).reshape(xa.shape) - v)) > 1e-7:
                    problems.append("value/shape at %s via %s" % (xa.tolist(), via))
            d = fe.derivative(x, order=1)
            dV = -4 * xa ** 3 + 0.6 * xa
            if np.shape(d.veffValue) != xa.shape or np.max(np.abs(np.asarray(d.veffValue) - dV)) > 1e-4:
                problems.append("derivative at %s" % xa.tolist())
        # FreeEnergy selects ERROR on both sides at construction
        try:
            fe(2.5)
            problems.append("default ERROR modes returned a value")
        except WallGoError:
            pass
        # outside, mode NONE: direct evaluation, exact
        fe.setExtrapolationType(E.NONE, E.NONE)
        r = fe(np.array([0.25, 2.5]))
        if np.max(np.abs(np.asarray(r.veffValue) - pot.phase(np.array([0.25, 2.5]))[1])) > 1e-12:
            problems.append("outside in mode NONE")
        fe.setExtrapolationType(E.ERROR, E.CONSTANT)
        try:
            fe(0.25)
            problems.append("ERROR side returned a value through __call__")
        except WallGoError:
            pass
        try:
            fe.evaluate(np.array([1.0, 0.25]))
            problems.append("ERROR side returned a value through evaluate")
        except ValueError:
            pass
        r = fe(np.array([1.0, 2.5]))
        if abs(float(np.asarray(r.veffValue)[1]) - float(pot.phase(np.array([2.0]))[1][0])) > 1e-9:
            problems.append("CONSTANT side is not the boundary value")
        if problems:
            fail_once(ctx, "FreeEnergy (stub potential, table [0.5, 2] 61 points): " +
                      "; ".join(problems[:4]), rep, "freeenergy-contract")
    except Exception as e:  # noqa
        fail_once(ctx, "FreeEnergy (stub potential) raised %s: %s" % (type(e).__name__, str(e)[:80]),
                  rep, "freeenergy-raises-%s" % type(e).__name__)
    from WallGo.PotentialTools.integrals import JbIntegral, JfIntegral
    for Integral in (JbIntegral, JfIntegral):
        integral_slice(ctx, Integral, E)


def integral_slice(ctx, JbIntegral, E):
    rep = dict(kind="derived", cls=JbIntegral.__name__)
    ctx.count("derived_classes", rep)
    try:
        jb = JbIntegral(bUseAdaptiveInterpolation=False)
        jb.newInterpolationTable(1.0, 3.0, 5)
        jb.setExtrapolationType(E.CONSTANT, E.NONE)
        problems = []
        knots = np.linspace(1.0, 3.0, 5)
        direct = np.asarray(jb._functionImplementation(knots))
        for x in ([1.0, 2.0], np.array([[1.5, 2.5], [3.0, 1.0]]), 2.0):
            xa = np.asarray(x, dtype=float)
            r = np.asarray(jb(x))
            if r.shape != xa.shape + (2,):
                problems.append("shape %s for input %s" % (r.shape, xa.shape))
                continue
            # at the knots the spline reproduces the stored values
            for idx in np.ndindex(xa.shape):
                w = np.where(knots == xa[idx])[0]
                if len(w) and np.max(np.abs(r[idx] - direct[w[0]])) > 1e-12:
                    problems.append("value at knot %g" % xa[idx])
        r = np.asarray(jb(np.array([0.5, 3.5])))
        if np.max(np.abs(r[0] - direct[0])) > 1e-12:
            problems.append("CONSTANT side is not the boundary row")
        if np.max(np.abs(r[1] - np.asarray(jb._functionImplementation(3.5)))) > 1e-12:
            problems.append("NONE side is not the direct value")
        if problems:
            fail_once(ctx, "%s (5-point table on [1, 3]): " % JbIntegral.__name__ +
                      "; ".join(problems[:4]), rep, "integral-contract")
    except Exception as e:  # noqa
        fail_once(ctx, "%s raised %s: %s" % (JbIntegral.__name__, type(e).__name__, str(e)[:80]),
                  rep, "integral-raises-%s" % type(e).__name__)


def degenerate_hazard(ctx):
    cls = make_real_class()
    for k in (1, 3):
        f = cls(None, bUseAdaptiveInterpolation=True, returnValueCount=k)
        f._evaluationsUntilAdaptiveUpdate = 3
        ctx.count("degenerate_adaptive", dict(k=k))
        try:
            for _ in range(4):
                r = np.asarray(f(1.0))
                if not np.array_equal(r, fval(1.0, k, None, 0)):
                    report_hazard(ctx, "repeated evaluation at one point without a table returns "
                                  "%s" % r.tolist(), dict(kind="degenerate", k=k, x=1.0, threshold=3),
                                  "adaptive-degenerate-range")
            f(2.0)
            f(1.5)
            if not f.hasInterpolation():
                report_hazard(ctx, "no table built after evaluations at two distinct points past "
                              "the threshold", dict(kind="degenerate", k=k, x=[1.0, 2.0, 1.5],
                                                    threshold=3), "adaptive-no-table")
        except Exception as e:  # noqa
            report_hazard(ctx, "no table, adaptive threshold 3: the third evaluation at the same "
                          "point raises %s (adaptive update calls newInterpolationTable(x, x, n))"
                          % type(e).__name__, dict(kind="degenerate", k=k, x=1.0, threshold=3),
                          "adaptive-degenerate-range")


# --------------------------------------------------------------------------------------

def run(ctx):
    logging.disable(logging.CRITICAL)
    np.seterr(all="ignore")
    src = vlib.read_src("interpolatableFunction.py")
    hsrc = vlib.read_src("helpers.py")
    gen_ok = True
    try:
        text = gen_interp.generate(src, hsrc)
        ctx.write("InterpFacts.v", text, sources={
            "file": "src/WallGo/interpolatableFunction.py + helpers.py", "sha": vlib.sha(src + hsrc)})
    except gen_interp.TranslateError as e:
        ctx.log("fact extraction failed:", e)
        ctx.broken.append("translator: %s" % e)
        gen_ok = False
    if gen_ok:
        ctx.prove(extra=["InterpFacts.v"])
    maxlen = ctx.n(8, 14)
    nseq = ctx.n(500, 12000)
    seqs = [gen_seq(ctx.rng, maxlen) for _ in range(nseq)]
    syst = systematic([1, 2, 3] if ctx.quick else [1, 2, 3, 4])
    with tempfile.TemporaryDirectory() as tmpdir:
        # (A) differential with the Coq model
        with TagWorld() as world:
            runs = differential(ctx, world, syst, tmpdir, "syst")
            runs += differential(ctx, world, seqs, tmpdir, "rand")
        for seq, ops, obs, note in runs[:400:67]:
            ctx.sample(dict(sequence=jseq(seq["cfg"], ops)["ops"][:4], cfg=seq["cfg"],
                            last_observation=str(obs[-1]["out"])[:200] if obs else None))
        # (B) the property on the real class
        real = Real(ctx, tmpdir)
        for seq in syst + seqs:
            try:
                real.run(seq)
            except Exception as e:  # harness bug: never silently pass
                ctx.broken.append("harness: real.run raised %r" % (e,))
                ctx.log("harness exception in pass B", repr(e), json.dumps(jseq(seq["cfg"],
                                                                                seq["ops"]))[:500])
                break
            ctx.count("real_sequences", None, nontrivial=False)
    float_hazards(ctx, ctx.rng, ctx.n(2000, 60000))
    ulp_hazards(ctx, ctx.rng, ctx.n(150, 3000))
    degenerate_hazard(ctx)
    notable_ulp(ctx)
    defaults_family(ctx)
    derived_classes(ctx)
    freeenergy_grid(ctx)
    ctx.cov["rule"] = (
        "a case is an operation sequence (configuration: return dimension 1..4, adaptive flag, "
        "threshold, initial point count, optional non-finite window; ops: new/extend table, "
        "evaluate and derivative on scalar/list/1-D/2-D input inside/below/above/mixed/at the "
        "edges, set modes (16 pairs), enable/disable adaptive, schedule, write+read); distinct = "
        "distinct (configuration, op list); every sequence contains at least 3 ops; plus the "
        "systematic family (all 16 mode pairs x shapes x return dimension)")
    ctx.assumptions += [
        "scipy CubicSpline and the user's function are external: the model records WHICH object "
        "is called WHERE; numerical agreement with the function is validated on the real class "
        "(pass B), not proved",
        "exact-arithmetic model of np.linspace / np.arange: the differential uses dyadic ends "
        "(sequences are cut where pending points or table ends leave the 2^-12 grid); non-dyadic "
        "extensions are exercised directly on the class",
        "the stencil array of the no-table derivative path (default step 1e-16^(1/(n+4))) is "
        "handed to the model and cross-checked against the recorded call"]
    ctx.trusted += ["provenance recorders in tools/props/C18.py (CubicSpline subclass, ticket "
                    "function, pass-through overrides of _evaluateOutOfBounds/_evaluateDirectly)"]


def replay(rep):
    logging.disable(logging.CRITICAL)
    np.seterr(all="ignore")
    print(json.dumps(rep, indent=1)[:3000])
    with tempfile.TemporaryDirectory() as tmpdir:
        if rep.get("kind") in ("differential", "sequence", "real"):
            with TagWorld() as world:
                ops, obs, note = world.run(rep["seq"], tmpdir)
                for o, x in zip(ops, obs):
                    print({k: v for k, v in o.items() if k != "pos"}, "->", x["out"], x["st"])
            cls = make_real_class()
            cfg = rep["seq"]["cfg"]
            f = cls(cfg["bad"], bUseAdaptiveInterpolation=cfg["adapt"],
                    initialInterpolationPointCount=cfg["n0"], returnValueCount=cfg["k"])
            f._evaluationsUntilAdaptiveUpdate = cfg["thr"]
            for o in rep["seq"]["ops"]:
                try:
                    print("real:", o["op"], np.asarray(apply_op(f, o, tmpdir)).tolist())
                except Exception as e:  # noqa
                    print("real:", o["op"], "raised", type(e).__name__, e)
                    return 1
        elif rep.get("kind") == "float_extend":
            cls = make_real_class()
            f = cls(None, bUseAdaptiveInterpolation=False)
            f.newInterpolationTable(*rep["table"])
            try:
                f.extendInterpolationTable(*rep["extend"])
                t = np.asarray(f._interpolationPoints)
                print("points", len(t), "range", t[0], t[-1], "min gap", np.diff(t).min())
            except Exception as e:  # noqa
                print("raised", type(e).__name__, e)
                return 1
    return 0
