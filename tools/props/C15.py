"""C15 -- general hydrodynamics and the template model agree on template equations of state."""
import json
import math
import os
import subprocess
import time
import traceback
from fractions import Fraction

import numpy as np

import gen_hydro_match
import pyrx
import vlib
from props import C02 as base

EXPLANATION = (
    "Both solvers are regenerated from the source by the pyrx translator (general: "
    "vpvmAndvpovm, matching, tmFromvpsq, deton_result, findHydroBoundaries; template: every "
    "attribute computed in __init__, findJouguetVelocity, getVp, wFromAlpha, _findTm, "
    "detonationVAndT, the tail of findMatching, findHydroBoundaries). Coq proves, for EVERY "
    "template parameter set with positive sound speeds: the constructor recovers the "
    "parameters of the equation of state; getVp solves eq.(20a) on both branches; _findTm is "
    "conservation of the energy flux; eq.(20a)+energy flux is momentum conservation, so the "
    "matching assembled by template.findMatching is a zero of the general residual "
    "`matching` and template.detonationVAndT is a zero of `tmFromvpsq` with the same v-; the "
    "template Jouguet velocity is the Chapman-Jouguet point; both findHydroBoundaries compute "
    "the same constants; wFromAlpha inverts alpha+(w+) up to its 1e-100 regularisation. "
    "Generated formulas are compared with the running code by certified interval "
    "evaluation; vJ, vMin, matchings, boundary constants, vwLTE and the efficiency factor of "
    "the two running solvers are compared on random template parameter sets.")

RTOL = ATOL = 1e-6
DEFAULTS = (1e-6, 1e-10)   # HydrodynamicsTemplateModel's constructor defaults (manager.py)
VMIN_FLOOR = 1e-3         # documented floor of Hydrodynamics.vMin (vBracketLow)
# tolerances (relative), delta = rtol + atol/scale is the accuracy requested from the root
# finders; factors calibrated on the unchanged tree with margin (see report)
K_VJ = 0.02           # |vJ_general - vJ_template| <= K_VJ * (rtol + atol/Tn) * vJ
K_MATCH = 8.0         # matching, boundaries: K_MATCH * delta * gamma+^2 gamma-^2 with
#                       delta = rtol + atol/min(vp,Tp,Tm) + rtol/|Tp/Tn - 1|; the last term is
#                       the conditioning of the shooting in v+: the residual T_shock(v+) - Tn is
#                       only known to rtol*Tn while its signal is the heating (Tp - Tn)
K_VMIN = 60.0         # |vMin difference| <= K_VMIN * (atol + (rtol + atol/Tn)*vMin)
K_LTE = 60.0          # |vwLTE difference| <= K_LTE * (atol + (rtol + atol/Tn)*vw)
TOL_CAP = 0.2         # upper limit of the (conditioning dependent) matching tolerance
TOL_TIGHT_MATCH = 1e-6   # matchings of the two classes at rtol=atol=1e-10 (clean worst 3e-8)
NEARJ_MAX = 2e-3      # magnitude bound of the recorded near-Jouguet class (1.4e-4..4e-4)
TOL_KAPPA = 0.15      # efficiency factor at the default rtol=atol=1e-6: both classes apply
#                       Simpson's rule on solve_ivp's own adaptive steps, which limits the
#                       accuracy of kappa to several % (measured: general 5.3%, template 2.2% off
#                       the converged value at one point; worst difference between the classes
#                       9.3% over ~1200 comparisons, hybrids just below vJ)
K_KAPPA_T = 1500.0    # ... plus K_KAPPA_T*atol/Tn: atol is absolute, so at Tn ~ 5e-3 the
#                       temperatures are only requested to 2e-4 (measured there: 21% in kappa)
TIGHT = 1e-10         # ... so kappa is ALSO compared at rtol=atol=1e-10,
TOL_KAPPA_TIGHT = 2e-3   # where the classes agree to 4.9e-4 (worst of 135 comparisons)


# directed inputs replayed first on every run: exactly equal sound speeds (mu == nu)
DIRECTED = [
    # exactly equal sound speeds (mu == nu); fixed in /repo by 0b1c1ae
    dict(case=dict(kind="template", alN=0.05, psiN=0.9, cb2=0.25, cs2=0.25, Tn=1.0),
         vws=[0.1239, 0.1779, 0.3, 0.45, 0.8]),
    # general solver: unconverged 2x2 solve returned as a matching; near-Jouguet hybrid
    dict(expect=['general-unconverged-matching', 'matching-near-jouguet-hybrid'], case=dict(kind="template", alN=0.19354, psiN=0.571, cb2=0.202, cs2=0.3301,
                   Tn=138.8), vws=[0.6952983303589946, 0.69]),
    # cb2 > cs2, psiN near 1, alN <= (mu-nu)/(3mu): template vwLTE = 0, NaN temperatures,
    # efficiencyFactor raises
    dict(expect=['template-alpha-below-threshold'], case=dict(kind="template", alN=0.01551, psiN=0.988, cb2=0.3209, cs2=0.2812,
                   Tn=188.3), vws=[0.3, 0.6480766360665376], lte=True, kappa_vws=[0.4]),
    # cb2 > cs2: kappa from an unconverged general matching
    dict(expect=['kappa-general-unconverged-matching'], case=dict(kind="template", alN=0.06637, psiN=0.813, cb2=0.269, cs2=0.2099,
                   Tn=94.9), vws=[0.3], kappa_vws=[0.5386161604120203]),
    # template findvwLTE returns a sign change of its discontinuous residual
    dict(expect=['template-vwLTE-spurious-root'], case=dict(kind="template", alN=0.22323, psiN=0.656, cb2=0.2023, cs2=0.3229,
                   Tn=0.1205), vws=[0.5], lte=True),
    # hybrids between the two sound speeds (rarefaction wave present iff vw > cb), both orderings
    dict(case=dict(kind="template", alN=0.05, psiN=0.9, cb2=0.22, cs2=0.32, Tn=1.0),
         vws=[0.56], kappa_vws=[0.56, 0.52]),
    dict(case=dict(kind="template", alN=0.1, psiN=0.8, cb2=0.31, cs2=0.24, Tn=3.0, wn=0.2),
         vws=[0.52], kappa_vws=[0.52, 0.54]),
    # shock-limited minimal velocities (alN > 1/3): non-trivial vMin in every quick run
    dict(case=dict(kind="template", alN=0.42, psiN=0.6, cb2=0.25, cs2=0.3, Tn=1.0, wn=3.7),
         vws=[0.3, 0.5]),
    dict(case=dict(kind="template", alN=0.5, psiN=0.9, cb2=0.31, cs2=0.27, Tn=50.0),
         vws=[0.4]),
    dict(case=dict(kind="template", alN=0.36, psiN=0.55, cb2=1 / 3, cs2=1 / 3, Tn=0.02,
                   wn=1e-3), vws=[0.6]),
    # second instance of the spurious LTE root (template residual: two jumps, no zero)
    dict(expect=['template-vwLTE-spurious-root'], case=dict(kind="template", alN=0.01813, psiN=0.954, cb2=0.2026, cs2=0.244,
                   Tn=0.1072), vws=[0.3], lte=True),
    # general v+ on a jump of its shooting function, 3% below vJ, final solve converged
    dict(expect=['general-root-on-jump'], case=dict(kind="template", alN=0.02136, psiN=0.96, cb2=0.2433, cs2=0.3256, Tn=87.6),
         vws=["vJ*0.97"]),
    # cb2 > cs2 corners of the round-2 seeded changes (must agree on the unchanged tree)
    dict(case=dict(kind="template", alN=0.15, psiN=0.93, cb2=0.31, cs2=0.24, Tn=1.0),
         vws=[0.5, 0.7], lte=True),
    dict(case=dict(kind="template", alN=0.125, psiN=0.63, cb2=0.295, cs2=0.25, Tn=1.0),
         vws=["vJ-0.01", "vJ-0.02", "vJ-0.03"]),
]


def gen_params(rng, ordering=None):
    """template parameter set; both orderings of the sound speeds are inside the quantifier
    ("sound speeds 0.2..1/3 in either phase")"""
    ordering = ordering or rng.choice(["cb<=cs", "cb<=cs", "cb>cs", "cb>cs", "cb>cs-corner"])
    psiN = round(rng.uniform(0.5, 0.995), 3)
    if rng.random() < 0.25:
        psiN = round(rng.uniform(0.5, 0.66), 3)       # corner: large enthalpy drop
    cs2 = round(rng.uniform(0.2, 1 / 3), 4)
    if ordering == "cb<=cs":
        cb2 = round(rng.uniform(0.2, cs2), 4)
        if rng.random() < 0.3:                        # corner: nearly equal sound speeds
            cb2 = round(max(0.2, cs2 - 10.0 ** rng.uniform(-3.7, -1.8)), 4)
    else:
        cs2 = round(rng.uniform(0.2, 0.32), 4)
        cb2 = round(rng.uniform(cs2, 1 / 3), 4)
        if rng.random() < 0.25:
            cb2 = round(min(1 / 3, cs2 + 10.0 ** rng.uniform(-3.7, -1.8)), 4)
        if ordering == "cb>cs-corner":                # corner: psiN near 1 with cb2 > cs2
            psiN = round(rng.uniform(0.9, 0.995), 3)
    # a first-order transition towards the low-T phase needs p-(Tn) > p+(Tn), i.e.
    # alN > (1-psiN)/3 (same convention as tests/test_HydroTemplateModel.py)
    alN = round((1 - psiN) / 3 + 10.0 ** rng.uniform(-3, -0.45), 5)
    Tn = 10.0 ** rng.randint(-2, 2) * round(rng.uniform(0.5, 2.0), 3)
    if rng.random() < 0.15:
        Tn = float(int(rng.choice([1, 2, 50])))        # the tests use the integer Tn = 1
    wn = rng.choice([1, float("%.3g" % (10.0 ** rng.uniform(-3, 3)))])
    tmax, tmin = rng.choice([(10.0, 0.01), (10.0, 0.01), (6.0, 0.03)])
    return dict(kind="template", alN=alN, psiN=psiN, cb2=cb2, cs2=cs2, Tn=Tn, wn=wn,
                tmax=tmax, tmin=tmin)


def build(case, rtol=RTOL, atol=ATOL):
    import WallGo
    th = base.build_model(case)
    hg = WallGo.Hydrodynamics(th, case.get("tmax", base.TMAX), case.get("tmin", base.TMIN),
                              rtol, atol)
    if (rtol, atol) == DEFAULTS:
        ht = WallGo.HydrodynamicsTemplateModel(th)     # the constructor's own defaults
    else:
        ht = WallGo.HydrodynamicsTemplateModel(th, rtol, atol)
    return th, hg, ht


def rel(a, b):
    return abs(a - b) / max(abs(a), abs(b), 1e-300)


def velocities(rng, hg, ht, n):
    lo = max(hg.vMin, ht.vMin, 1e-3)
    vJ1, vJ2 = min(hg.vJ, ht.vJ), max(hg.vJ, ht.vJ)
    cb = ht.cb
    first_pt = lo * 1.001 + 1e-5 if lo > 1.5 * VMIN_FLOOR else 1.6 * VMIN_FLOOR
    pts = [first_pt, lo + (min(cb, vJ1) - lo) * rng.uniform(0.005, 0.1),
           cb * (1 - 10 ** rng.uniform(-4, -2)), cb * (1 + 10 ** rng.uniform(-4, -2)),
           vJ1 - 10 ** rng.uniform(-4, -2), vJ1 - rng.uniform(0.003, 0.03),
           vJ2 + 10 ** rng.uniform(-4, -2), 0.99,
           rng.uniform(0.9, 0.99), rng.uniform(vJ2, 0.99)]
    while len(pts) < n:
        pts.append(rng.uniform(lo, 0.99))
    out = [v for v in pts if lo <= v <= 0.99 and not (vJ1 <= v <= vJ2)]
    rng.shuffle(out)
    return out[:n]


def general_state(hg, spy, vw):
    """'ok', 'unconverged' (self.success False: C02 unconverged-matching-returned),
    'accepted' (the last hybr solve reports failure but sum(fun^2) < 1e-6 lets it through:
    C02 slow-wall-unconverged-accepted / unconverged-accepted-absolute-threshold) -- both
    only with the recorded MECHANISM (the solve was started from the code's own
    template-based guess, see C02.expected_guess) -- or 'foreign': the solve failed for
    another reason, which is NOT a recorded class"""
    return base.solve_state(base.solve_info(hg, spy, vw))


def matching_tolerance(ht, Tn, rt, at, mg, mt, branch):
    """K_MATCH * delta * g+^2 g-^2, capped at TOL_CAP, with
    delta = rt + at/min(vp,Tp,Tm) + rt/heating + S*(rt + at/vp)  (conditioning, see header)"""
    vp, vm, Tp, Tm = mt
    delta = rt + at / min(vp, Tp, Tm)
    if branch != "detonation":
        # conditioning of the shooting in v+: signal = heating Tp/Tn - 1, known to rt.
        # Where the heating is below 1% and the two classes' Tp differ by less than 1%
        # but by as much as the heating itself, the heating is not resolved at this rt
        hT, hG = abs(Tp / Tn - 1), abs(mg[2] / Tn - 1)
        href = min(hT, hG)
        dh = abs(mg[2] - Tp) / Tn
        if href < 1e-2 and dh < 1e-2:
            href = max(href - dh, 1e-12)
        delta += rt / max(href, 1e-12)
        # conditioning of T+ in v+: T+ = Tn w+^(1/mu), w+ = wFromAlpha(alpha+(v+, v-));
        # |dln w+/dln v+| is large when (1-3 alpha+) mu - nu is close to 0
        try:
            def lnw(v):
                al = (v / vm - 1) * (v * vm / ht.cb2 - 1) / (1 - v * v) / 3
                return math.log(float(ht.wFromAlpha(al)))
            S = abs(lnw(vp * (1 + 1e-6)) - lnw(vp * (1 - 1e-6))) / 2e-6 / ht.mu
            if math.isfinite(S):
                delta += S * (rt + at / vp)
        except (ValueError, ZeroDivisionError):
            pass
    # never vacuous: beyond TOL_CAP the classes disagree whatever the conditioning
    return min(K_MATCH * delta / ((1 - vp * vp) * (1 - vm * vm)), TOL_CAP)


def small_alpha_evidence(th, ht, vw):
    """in the class alN <= (mu-nu)/(3mu) a failure is attributed to the recorded TEMPLATE
    finding only with evidence on the template side at this velocity: its matching is not
    finite / not conserving, or building it raises"""
    try:
        mt = [float(x) for x in ht.findMatching(vw)]
    except Exception:
        return True
    if not all(math.isfinite(x) for x in mt) or min(mt) <= 0:
        return True
    e = base.fluxes(th, *mt)
    return not (rel(e[0], e[1]) < 1e-7 and rel(e[2], e[3]) < 1e-7)


def template_side_ok(th, ht, vw, mt):
    """the template's matching passes an independent check: both fluxes conserved with the
    model's own equation of state and its own shooting residual vanishes at its v+"""
    try:
        e = base.fluxes(th, *mt)
        return rel(e[0], e[1]) < 1e-7 and rel(e[2], e[3]) < 1e-7 and abs(
            float(ht._shooting(vw, mt[0]))) < 1e-4
    except Exception:
        return False


GEN_KEY = {"unconverged": "general-unconverged-matching",
           "accepted": "general-unconverged-accepted",
           "foreign": "general-unconverged-foreign-cause"}


def compare(ctx, case, stats, rng, n_vw, with_lte=True, with_kappa=True, vws=None,
            kappa_vws=None, directed=False):
    """the property on the two running solvers for one parameter set"""
    try:
        th, hg, ht = build(case)
    except Exception as ex:
        # every generated parameter set is inside the quantifier: a constructor that raises
        # is a failure of the property (no matching at all), not a rejected model
        ctx.count("constructor_raised", bucket=type(ex).__name__)
        ctx.fail_input("constructing Hydrodynamics / HydrodynamicsTemplateModel raised %r "
                       "[alN=%g psiN=%g cb2=%g cs2=%g Tn=%g]" % (
                           ex, case["alN"], case["psiN"], case["cb2"], case["cs2"],
                           case["Tn"]), dict(case=case, quantity="constructor"),
                       key="constructor-raises")
        return
    ctx.count("model", case, bucket="%s, alN %s (1-psiN)/3+0.03" % (
        "cb2>cs2" if case["cb2"] > case["cs2"] else "cb2<=cs2",
        "<" if case["alN"] < (1 - case["psiN"]) / 3 + 0.03 else ">="))
    Tn = case["Tn"]
    # alN <= (mu-nu)/(3 mu) (possible only for cb2 > cs2): (1-3alN)mu - nu >= 0, the sign
    # convention of wFromAlpha flips; recorded failure class of the TEMPLATE solver
    small_alpha = case["alN"] <= (ht.mu - ht.nu) / (3 * ht.mu)
    SMALL = "template-alpha-below-threshold"

    def fail(what, key, **kw):
        d = dict(case=case, rtol=RTOL, atol=ATOL, what_fails=what)
        d.update(kw)
        ctx.fail_input("%s [alN=%g psiN=%g cb2=%g cs2=%g Tn=%g]" % (
            what, case["alN"], case["psiN"], case["cb2"], case["cs2"], Tn), d, key=key)

    # Jouguet velocity: the METHOD is called (the attribute hg.vJ is silently replaced by the
    # template's value when the method raises)
    dT = RTOL + ATOL / Tn
    try:
        vJg = float(hg.findJouguetVelocity())
        vJt = float(ht.findJouguetVelocity())
    except Exception as ex:
        fail("findJouguetVelocity raised %r" % ex, "vJ-raises", quantity="vJ")
        vJg = vJt = None
    if vJg is not None:
        r = rel(vJg, vJt)
        if not directed:
            stats.append(("vJ", r / (K_VJ * dT), dict(case=case)))
        ctx.count("vJ")
        if not r <= K_VJ * dT:
            fail("Jouguet velocity: general %.12g, template %.12g (rel %.3g > %.3g)" % (
                vJg, vJt, r, K_VJ * dT), "vJ", quantity="vJ")
        if hg.vJ != vJg or ht.vJ != vJt:
            fail("attribute vJ (%r, %r) is not what findJouguetVelocity() returns (%r, %r)"
                 % (hg.vJ, ht.vJ, vJg, vJt), "vJ-attribute", quantity="vJ")
    # minimal velocity: methods called; the general class floors it at the documented 1e-3
    try:
        vmg, vmt = float(hg.minVelocity()), float(ht.minVelocity())
    except Exception as ex:
        fail("minVelocity raised %r" % ex, "vMin-raises", quantity="vMin")
        vmg = vmt = None
    if vmg is not None:
        if hg.vMin != max(VMIN_FLOOR, vmg) or ht.vMin != vmt:
            fail("attribute vMin (%r, %r) is not max(1e-3, minVelocity()) = %r resp. "
                 "minVelocity() = %r" % (hg.vMin, ht.vMin, max(VMIN_FLOOR, vmg), vmt),
                 "vMin-attribute", quantity="vMin")
        d = abs(max(VMIN_FLOOR, vmg) - max(VMIN_FLOOR, vmt))
        tolv = K_VMIN * (ATOL + (RTOL + ATOL / Tn) * max(VMIN_FLOOR, vmt))
        if not directed:
            stats.append(("vMin", d / tolv, dict(case=case)))
        ctx.count("vMin", bucket="floor" if vmt <= VMIN_FLOOR else "shock-limited")
        if not d <= tolv:
            fail("minimal velocity: general %.12g, template %.12g" % (vmg, vmt), "vMin",
                 quantity="vMin")
    first = None          # first compared matching of each class (repeat-call equality, F6)
    compared = []
    # matchings and boundary constants
    for vw in (vws if vws is not None else velocities(rng, hg, ht, n_vw)):
        branch = "detonation" if vw > hg.vJ else ("hybrid" if vw > ht.cb else "deflagration")
        try:
            with base.Spy(hg) as spy:
                bg = hg.findHydroBoundaries(vw)
            ginfo = None if vw > hg.vJ else base.solve_info(hg, spy, vw)
            gstate = base.solve_state(ginfo)
            mg = spy.matchings[-1] if spy.matchings else None
            mt = ht.findMatching(vw)
            bt = ht.findHydroBoundaries(vw)
        except Exception as ex:
            ctx.count("raised", bucket=branch + ":" + type(ex).__name__)
            fail("findMatching raised %r at vw=%.6g (%s)" % (ex, vw, branch),
                 "raises", vw=vw, quantity="matching")
            continue
        ctx.count("matching", dict(case=case, vw=vw), bucket=branch)
        if mg is None or mg[0] is None or mt[0] is None:
            if (mg is None or mg[0] is None) != (mt[0] is None):
                key = "matching-existence"
                if mt[0] is None and case["cb2"] == case["cs2"]:
                    key = "template-no-matching-equal-sound-speeds"
                fail("only one solver finds a matching at vw=%.6g: general %r, template %r"
                     % (vw, mg, mt), key, vw=vw, quantity="matching")
            continue
        if spy.fallback:
            ctx.count("general_used_template_fallback", bucket=branch)
        mg = [float(x) for x in mg]
        mt = [float(x) for x in mt]
        if not all(math.isfinite(x) for x in mt) or not all(math.isfinite(float(x))
                                                             for x in bt):
            fail("template solver returns non-finite values at vw=%.6g (%s): matching %r, "
                 "boundaries %r; general %r" % (vw, branch, mt, [float(x) for x in bt], mg),
                 SMALL if small_alpha else "template-nan", vw=vw, quantity="matching")
            continue
        if not all(math.isfinite(x) for x in mg):
            fail("general solver returns non-finite values at vw=%.6g (%s): %r" % (
                vw, branch, mg), "general-nan", vw=vw, quantity="matching")
            continue
        vp, vm, Tp, Tm = mt
        if min(mt) <= 10 * ATOL and min(mg) <= 10 * ATOL:
            # edge of existence (vw -> shock-limited vMin): v+ -> 0 and T- ~ v+^(1/nu) is
            # infinitely sensitive; BOTH classes return a v+ below the absolute tolerance
            ctx.count("degenerate_edge_skipped")
            continue
        if min(mt) <= 0 or min(mg) <= 0:
            fail("non-positive component in a returned matching at vw=%.6g (%s): general %r, "
                 "template %r" % (vw, branch, mg, mt), "matching-not-positive", vw=vw,
                 quantity="matching")
            continue
        # slow-wall family of C02 (slow-wall-residual-not-small): hybr reports success with
        # a residual that is not small against vp^2 <= 1e-5; reported under C02, capped here
        if gstate == "ok" and ginfo is not None and hg.vMin == hg.vBracketLow and \
                vw < 3.2 * hg.vBracketLow and not spy.fallback:
            rr = base.relative_residual(ginfo, mg[0], mg[1], mg[2], mg[3])
            if rr is not None and rr > base.RELRES_MAX:
                ctx.count("slow_wall_corner_skipped")
                continue
        # the general solver alone (also when the template side is a recorded finding)
        if gstate == "ok" and not spy.fallback and not (
                hg.vMin == hg.vBracketLow and vw < 1.5 * hg.vBracketLow):
            ge = base.fluxes(th, *mg)
            bnd = None
            if ginfo is not None:
                # bound derived from the solver's own final residual (C02_residual_to_junction)
                c_ = base.scale_of(ginfo["Tpm0"], mg[2], mg[3])
                f_ = [float(x) for x in ginfo["sol"].fun]
                bnd = base.derived_flux_bound(th, mg[0], mg[1], mg[2], mg[3], f_[0] / c_,
                                              f_[1] / c_)
            if bnd is not None and not (
                    abs(ge[0] - ge[1]) <= bnd[0] * (1 + 1e-6) + bnd[1] and
                    abs(ge[2] - ge[3]) <= bnd[0] * (1 + 1e-6) + bnd[1]):
                fail("general solver alone: fluxes %r differ by more than the bound %.3g "
                     "implied by its own residual at vw=%.6g" % (ge, bnd[0], vw),
                     "general-flux", vw=vw, quantity="matching")
        tol = matching_tolerance(ht, Tn, RTOL, ATOL, mg, mt, branch)
        worst = max(rel(a, b) for a, b in zip(mg, mt))
        if first is None and not (hg.vMin == hg.vBracketLow and vw < 1.5 * hg.vBracketLow):
            first = (vw, tuple(mg), tuple(mt))
        if gstate == "ok" and not (hg.vMin == hg.vBracketLow and vw < 1.5 * hg.vBracketLow):
            compared.append((vw, branch))
        # walls within 50% of the hard-coded bracket floor 1e-3: the general solver's
        # recorded C02 findings (slow-wall-*) live there; not re-reported under C15
        corner = hg.vMin == hg.vBracketLow and vw < 1.5 * hg.vBracketLow
        if corner:
            ctx.count("slow_wall_corner_skipped")
            continue
        if not directed:
            stats.append(("matching", worst / tol, dict(case=case, vw=vw, branch=branch)))
        if not worst <= tol:
            names = ["vp", "vm", "Tp", "Tm"]
            k = max(range(4), key=lambda i: rel(mg[i], mt[i]))
            # hybrids within 2% of the Jouguet velocity are reported as their own class
            nearJ = branch == "hybrid" and vw > 0.98 * min(hg.vJ, ht.vJ) and \
                worst <= NEARJ_MAX and template_side_ok(th, ht, vw, mt)
            onjump = False
            if gstate == "ok" and branch != "detonation" and worst <= NEARJ_MAX and \
                    template_side_ok(th, ht, vw, mt):
                # C03 findMatching-root-on-jump / C06 vp-root-on-unconverged-jump: the general
                # v+ sits on a jump of the code's own shooting function (failed intermediate
                # 2x2 solves inside brentq), final solve converged; mechanism test of C02
                try:
                    miss = float(hg.solveHydroShock(vw, mg[0], mg[2])) - hg.Tnucl
                    onjump = abs(miss) > 0 and base.root_on_jump(hg, vw, mg[0], miss) and \
                        any(nm == "root" and not r.success for nm, f, r in spy.calls[:-1])
                except Exception:
                    onjump = False
            if onjump:
                nearJ = False
            fail("matching at vw=%.6g (%s, vJ=%.6g): %s general %.12g, template %.12g (rel "
                 "%.3g > %.3g)%s" % (vw, branch, ht.vJ, names[k], mg[k], mt[k], worst, tol,
                                     "" if gstate == "ok" else " [general 2x2 solve: %s]"
                                     % gstate),
                 GEN_KEY.get(gstate, "general-root-on-jump" if onjump else (
                     "matching-near-jouguet-hybrid" if nearJ else "matching")),
                 vw=vw, general=mg, template=mt, quantity="matching", general_state=gstate)
            continue
        bgf = [float(x) for x in bg]
        btf = [float(x) for x in bt]
        worstb = max(rel(a, b) for a, b in zip(bgf, btf))
        # c1, c2 ~ w(Tp) ~ Tp^mu: a relative error in Tp is amplified by mu (<= 6)
        tolb = (1 + ht.mu) * tol
        if not directed:
            stats.append(("boundaries", worstb / tolb, dict(case=case, vw=vw,
                                                            branch=branch)))
        ctx.count("boundaries")
        if not worstb <= tolb:
            fail("findHydroBoundaries at vw=%.6g (%s): general %r, template %r" % (
                vw, branch, bgf, btf), GEN_KEY.get(gstate, "boundaries"), vw=vw, quantity="boundaries",
                 general_state=gstate)
    # ---- the same matchings at tight tolerances (flat 1e-6: tolerance-independent errors
    #      cannot hide behind the conditioning model) and at the constructor defaults ------
    if compared and not directed:
        sel = sorted(compared)[:1] + rng.sample(compared, min(3, len(compared)))
        for rt, at, tag in ((TIGHT, TIGHT, "tight"), DEFAULTS + ("defaults",)):
            try:
                th2, hg2, ht2 = build(case, rt, at)
            except Exception as ex:
                fail("constructing the solvers with rtol=%g atol=%g raised %r" % (rt, at, ex),
                     "raises", quantity="matching", rtol=rt, atol=at)
                continue
            for vw, branch in sel:
                try:
                    with base.Spy(hg2) as sp2:
                        m2g = hg2.findMatching(vw)
                    st2 = "ok" if vw > hg2.vJ else general_state(hg2, sp2, vw)
                    m2t = ht2.findMatching(vw)
                except Exception as ex:
                    fail("findMatching (rtol=%g atol=%g) raised %r at vw=%.6g" % (
                        rt, at, ex, vw), "raises", vw=vw, quantity="matching", rtol=rt,
                        atol=at)
                    continue
                if m2g[0] is None or m2t[0] is None:
                    continue
                m2g, m2t = [float(x) for x in m2g], [float(x) for x in m2t]
                if not all(math.isfinite(x) and x > 0 for x in m2g + m2t):
                    continue              # judged in the main pass
                ctx.count("matching_" + tag, bucket=branch)
                w2 = max(rel(a, b) for a, b in zip(m2g, m2t))
                tol2 = TOL_TIGHT_MATCH if tag == "tight" else matching_tolerance(
                    ht2, Tn, rt, at, m2g, m2t, branch)
                stats.append(("matching_" + tag, w2 / tol2, dict(case=case, vw=vw)))
                if not w2 <= tol2:
                    nearJ = branch == "hybrid" and vw > 0.98 * min(hg2.vJ, ht2.vJ) and \
                        w2 <= NEARJ_MAX and template_side_ok(th2, ht2, vw, m2t)
                    fail("matching at vw=%.6g (%s) with rtol=%g atol=%g: general %r, "
                         "template %r (rel %.3g > %.3g)%s" % (
                             vw, branch, rt, at, m2g, m2t, w2, tol2,
                             "" if st2 == "ok" else " [general 2x2 solve: %s]" % st2),
                         GEN_KEY.get(st2, "matching-near-jouguet-hybrid" if nearJ else
                                     "matching-" + tag),
                         vw=vw, quantity="matching", rtol=rt, atol=at, general_state=st2)
    # LTE wall velocity
    if with_lte:
        try:
            lg, lt = float(hg.findvwLTE()), float(ht.findvwLTE())
            ctx.count("vwLTE", bucket="%s/%s" % (
                "0" if lg == 0 else "1" if lg == 1 else "in", "0" if lt == 0 else
                "1" if lt == 1 else "in"))
            # the temperature roots inside use the ABSOLUTE atol: accuracy atol/Tn
            toll = K_LTE * (ATOL + (RTOL + ATOL / Tn) * max(lg, lt))
            if not directed:
                stats.append(("vwLTE", abs(lg - lt) / toll, dict(case=case)))
            if abs(lg - lt) > toll:
                key = "vwLTE"
                note = ""
                if small_alpha and lt == 0.0:
                    # the template's 0.0 is its shortcut `alN <= (mu-nu)/(3 mu)`, nothing was
                    # solved: the disagreement belongs to the recorded template class,
                    # whatever the general class answers (its 2x2 solves start from the
                    # template's guesses, which are NaN here)
                    key = SMALL
                if small_alpha and lt in (0.0, 1.0) and 0 < lg < 1:
                    # is the general value a genuine LTE solution?  (conservation, entropy
                    # T+ g+ = T- g-, shock reaching Tn, converged 2x2 solve)
                    from WallGo.helpers import gammaSq
                    vp, vm, Tp, Tm = (float(x) for x in hg.matchDeflagOrHyb(lg))
                    e1, e2, m1, m2 = base.fluxes(th, vp, vm, Tp, Tm)
                    ok = hg.success and rel(e1, e2) < 1e-6 and rel(m1, m2) < 1e-6 and abs(
                        Tp * math.sqrt(gammaSq(vp)) / (Tm * math.sqrt(gammaSq(vm))) - 1
                    ) < 1e-6 and abs(hg.solveHydroShock(lg, vp, Tp) / Tn - 1) < 100 * dT
                    key = SMALL
                    note = " (general value verified: fluxes, entropy, shock)" if ok else \
                        " (general value NOT a solution: shock reaches %.4g Tn)" % (
                            hg.solveHydroShock(lg, vp, Tp) / Tn)
                if key == "vwLTE" and 0 < lg < 1 and 0 < lt < 1:
                    # which value is a root?  general: fluxes, entropy, shock, converged 2x2
                    # solve; template: its own residual shootingInLTE at both values
                    try:
                        from WallGo.helpers import gammaSq
                        with base.Spy(hg) as lspy:
                            vp, vm, Tp, Tm = (float(x) for x in hg.matchDeflagOrHyb(lg))
                        e1, e2, m1, m2 = base.fluxes(th, vp, vm, Tp, Tm)
                        gen_ok = general_state(hg, lspy, lg) == "ok" and rel(e1, e2) < 1e-6 and \
                            rel(m1, m2) < 1e-6 and abs(Tp * math.sqrt(gammaSq(vp)) / (
                                Tm * math.sqrt(gammaSq(vm))) - 1) < 1e-6 and abs(
                                hg.solveHydroShock(lg, vp, Tp) / Tn - 1) < 100 * dT

                        def tres(v):
                            return float(ht._shooting(v, ht.getVp(min(ht.cb, v),
                                                                 ht.solveAlpha(v))))
                        rt_ = tres(lt)
                        dj = 4 * (ATOL + RTOL * lt)      # brentq locates the jump to this
                        ra_, rb_ = tres(lt - dj), tres(lt + dj)
                        # mechanism, on the template side only: its returned value is a JUMP
                        # of its own residual (sign change of more than 1e-3 within 4(atol+rtol vw)),
                        # while the general value passes the independent verification
                        if gen_ok and ra_ * rb_ < 0 and min(abs(ra_), abs(rb_)) > 1e-3:
                            key = "template-vwLTE-spurious-root"
                            note = (" (general value verified; the template's own residual "
                                    "jumps from %.3g to %.3g across its value, %.3g at it)"
                                    % (ra_, rb_, rt_))
                    except Exception:
                        pass
                fail("vwLTE: general %.12g, template %.12g%s" % (lg, lt, note), key,
                     quantity="vwLTE")
        except Exception as ex:
            ctx.count("raised", bucket="vwLTE:" + type(ex).__name__)
            fail("findvwLTE raised %r" % ex, "raises", quantity="vwLTE")
    # efficiency factor
    if with_kappa:
        tight = None
        lo = max(hg.vMin, ht.vMin, 0.02)
        vJ1, vJ2 = min(hg.vJ, ht.vJ), max(hg.vJ, ht.vJ)
        vws = [rng.uniform(lo, min(ht.cb, vJ1)), rng.uniform(min(ht.cb, vJ1), vJ1 - 1e-3),
               rng.uniform(vJ2 + 1e-3, 0.99)]
        if ht.cb + 2e-3 < min(ht.cs, vJ1) - 2e-3:
            # a hybrid that is still slower than the sound speed in front of the wall
            vws.append(rng.uniform(ht.cb + 2e-3, min(ht.cs, vJ1) - 2e-3))
        if kappa_vws is not None:
            vws = list(kappa_vws)
        for vw in vws:
            try:
                with base.Spy(hg) as kspy:
                    kg = float(hg.efficiencyFactor(vw))
                kstate = "ok" if vw > hg.vJ else general_state(hg, kspy, vw)
                gsucc = kstate == "ok"
                kt = float(ht.efficiencyFactor(vw))
            except Exception as ex:
                ctx.count("raised", bucket="kappa:" + type(ex).__name__)
                key = "raises"
                if small_alpha and small_alpha_evidence(th, ht, vw):
                    key = SMALL
                if case["cb2"] == case["cs2"] and isinstance(ex, TypeError):
                    key = "template-no-matching-equal-sound-speeds"
                fail("efficiencyFactor raised %r at vw=%.6g" % (ex, vw), key, vw=vw,
                     quantity="kappa")
                continue
            ctx.count("kappa", bucket="detonation" if vw > vJ2 else (
                "hybrid" if vw > ht.cb else "deflagration"))
            # the rarefaction wave's amplitude is ~ (vw - vm) g^2: an error dvm in v- changes
            # kappa by ~ dvm/(vw - vm) (weak detonations: vw - vm -> 0)
            sens = 0.0
            try:
                kvp, kvm, kTp, kTm = (float(x) for x in ht.findMatching(vw))
                if vw > ht.cb and math.isfinite(kTm):
                    sens = 2 * K_MATCH / ((1 - kvp ** 2) * (1 - kvm ** 2)) * kvm / max(
                        abs(vw - kvm), 1e-12) / min(kvp, kTp, kTm)
            except Exception:
                pass
            tolk = TOL_KAPPA + K_KAPPA_T * ATOL / Tn + sens * (RTOL * min(kvp, kTp, kTm)
                                                              + ATOL if sens else 0.0)
            if not directed:
                stats.append(("kappa", rel(kg, kt) / tolk, dict(case=case, vw=vw)))
            if not rel(kg, kt) <= tolk:
                # kappa computed from a matching whose 2x2 solve did not converge is a
                # consequence of the recorded general-unconverged-matching class
                fail("efficiency factor at vw=%.6g: general %.9g%s, template %.9g" % (
                    vw, kg, "" if gsucc else " (from an UNCONVERGED matching)", kt),
                    SMALL if small_alpha and small_alpha_evidence(th, ht, vw) else {
                        "ok": "kappa", "unconverged": "kappa-general-unconverged-matching",
                        "accepted": "general-unconverged-accepted",
                        "foreign": "general-unconverged-foreign-cause"}[kstate],
                    vw=vw, quantity="kappa", general_state=kstate)
                continue
            # the same comparison with both classes at tight tolerances
            try:
                if tight is None:
                    tight = build(case, TIGHT, TIGHT)
                with base.Spy(tight[1]) as kspy:
                    kg = float(tight[1].efficiencyFactor(vw))
                kstate = "ok" if vw > hg.vJ else general_state(tight[1], kspy, vw)
                gsucc = kstate == "ok"
                kt = float(tight[2].efficiencyFactor(vw))
            except Exception as ex:
                ctx.count("raised", bucket="kappa-tight:" + type(ex).__name__)
                fail("efficiencyFactor (rtol=atol=1e-10) raised %r at vw=%.6g" % (ex, vw),
                     SMALL if small_alpha and small_alpha_evidence(th, ht, vw) else
                     "raises", vw=vw, quantity="kappa", rtol=TIGHT, atol=TIGHT)
                continue
            ctx.count("kappa_tight")
            tolkt = TOL_KAPPA_TIGHT + sens * (TIGHT * min(kvp, kTp, kTm) + TIGHT
                                              if sens else 0.0)
            if not directed:
                stats.append(("kappa_tight", rel(kg, kt) / tolkt, dict(case=case, vw=vw)))
            if not rel(kg, kt) <= tolkt:
                fail("efficiency factor at vw=%.6g with rtol=atol=1e-10: general %.9g%s, "
                     "template %.9g (rel %.3g > %.3g)" % (
                         vw, kg, "" if gsucc else " (from an UNCONVERGED matching)", kt,
                         rel(kg, kt), tolkt),
                     SMALL if small_alpha and small_alpha_evidence(th, ht, vw) else {
                         "ok": "kappa-tight",
                         "unconverged": "kappa-general-unconverged-matching",
                         "accepted": "general-unconverged-accepted",
                         "foreign": "general-unconverged-foreign-cause"}[kstate],
                     vw=vw, quantity="kappa", rtol=TIGHT, atol=TIGHT, general_state=kstate)

    # ---- repeat-call equality: findMatching is a function of vw only; after findvwLTE and
    #      efficiencyFactor (which change rtol/atol and self.success on the way) the first
    #      compared velocity must give the very same answer on the same objects ------------
    if first is not None:
        vw0, g0, t0 = first
        for name, obj, ref in (("general", hg, g0), ("template", ht, t0)):
            try:
                again = tuple(float(x) for x in obj.findMatching(vw0))
            except Exception as ex:
                again = ("raised", type(ex).__name__)
            ctx.count("repeat_call", bucket=name)
            same = len(again) == len(ref) and all(
                isinstance(a, float) and (a == b or abs(a - b) <= 1e-12 * abs(b))
                for a, b in zip(again, ref))
            if not same:
                fail("%s solver: findMatching(%.12g) returned %r at first and %r after "
                     "findvwLTE / efficiencyFactor on the same object (rtol=%r atol=%r now)"
                     % (name, vw0, ref, again, getattr(obj, "rtol", None),
                        getattr(obj, "atol", None)),
                     "history-dependence", vw=vw0, quantity="matching")


# ------------------------------------------------------------------------------------
# certified correspondence: generated template formulas <-> running template object

q = base.q

EVAL_HDR = """From Coq Require Import Reals Lra.
From Interval Require Import Tactic.
From WG Require Import Lib.NumpySem Lib.HydroMatch Lib.HydroMatchTemplate.
From GenC15 Require Import HydroGen.
Local Open Scope R_scope.
Definition et0 : t_env :=
  {| t_cb2 := %(cb2)s; t_cs2 := %(cs2)s; t_alN := %(alN)s; t_psiN := %(psiN)s;
     t_cb := %(cb)s; t_cs := %(cs)s; t_wN := %(wN)s; t_pN := %(pN)s; t_Tnucl := %(Tnucl)s;
     t_nu := %(nu)s; t_mu := %(mu)s; t_vJ := %(vJ)s; t_vMin := %(vMin)s;
     t_epsilon := %(epsilon)s;
     th_pHighT := fun T => %(ap)s * Rpower T %(mmu)s / 3 - %(eps)s;
     th_pLowT := fun T => %(am)s * Rpower T %(mnu)s / 3;
     th_wHighT := fun T => T * (%(mmu)s * %(ap)s * Rpower T (%(mmu)s - 1) / 3);
     th_wLowT := fun T => T * (%(mnu)s * %(am)s * Rpower T (%(mnu)s - 1) / 3);
     th_csqHighT := fun T => %(csqH)s; th_csqLowT := fun T => %(csqL)s;
     th_Tnucl := %(Tnucl)s |}.
Ltac ev :=
  cbv beta iota zeta delta [t_init_cb2 t_init_cs2 t_init_alN t_init_psiN t_init_cb t_init_cs
    t_init_wN t_init_pN t_init_Tnucl t_init_nu t_init_mu t_init_epsilon
    t_findJouguetVelocity t_findJouguetVelocity_a t_getVp t_wFromAlpha t__findTm t__eqWall
    t_detonationVAndT t_findMatching_result t_matchDeflagOrHybInitial_given
    t_findHydroBoundaries gammaSq sign_R fst snd et0 pH pL wH wL eps_ mu_ nu_
    t_cb2 t_cs2 t_alN t_psiN t_cb t_cs t_wN t_pN t_Tnucl t_nu t_mu t_vJ t_vMin t_epsilon
    th_pHighT th_pLowT th_wHighT th_wLowT th_csqHighT th_csqLowT th_Tnucl];
  repeat match goal with
  | |- context [Rlt_dec ?a ?b] =>
      first [ assert (E : a < b) by interval with (i_prec 64);
              destruct (Rlt_dec a b) as [_|N]; [clear E|exfalso; exact (N E)]
            | assert (E : ~ a < b) by (apply Rle_not_lt; interval with (i_prec 64));
              destruct (Rlt_dec a b) as [N|_]; [exfalso; exact (E N)|clear E] ]
  | |- context [Rmin ?a ?b] =>
      first [rewrite (Rmin_left a b) by interval with (i_prec 64)
            |rewrite (Rmin_right a b) by interval with (i_prec 64)]
  | |- context [Rmax ?a ?b] =>
      first [rewrite (Rmax_left a b) by interval with (i_prec 64)
            |rewrite (Rmax_right a b) by interval with (i_prec 64)]
  end;
  cbv beta iota delta [fst snd];
  interval with (i_prec 64).
"""


def tup(n, i, term):
    return pyrx.proj(term, i, n)


def eval_rows(case, th, ht, rng):
    rows = []
    T = "et0"
    # the hand-written template equation of state of Lib/HydroMatchTemplate.v (the one the
    # theorems are about) against the running Thermodynamics object
    P = dict(wn=q(getattr(th, "wn", 1)), Tn=q(case["Tn"]), alN=q(case["alN"]),
             psiN=q(case["psiN"]), cb2=q(case["cb2"]), cs2=q(case["cs2"]))
    for fac in (0.7, 1.0, 1.9):
        Tq = case["Tn"] * fac
        for term, y in (
                ("(pH %(wn)s %(Tn)s %(alN)s %(cb2)s %(cs2)s " % P + q(Tq) + ")",
                 float(th.pHighT(Tq))),
                ("(wH %(wn)s %(Tn)s %(cs2)s " % P + q(Tq) + ")", float(th.wHighT(Tq))),
                ("(pL %(wn)s %(Tn)s %(psiN)s %(cb2)s " % P + q(Tq) + ")",
                 float(th.pLowT(Tq))),
                ("(wL %(wn)s %(Tn)s %(psiN)s %(cb2)s " % P + q(Tq) + ")",
                 float(th.wLowT(Tq)))):
            rows.append((term, y, max(abs(y), abs(float(th.wHighT(Tq))))))
    # the constructor: attribute values recomputed by the generated t_init_<attr>
    for a in gen_hydro_match.T_INIT:
        v = float(getattr(ht, a))
        rows.append(("(t_init_%s %s)" % (a, T), v, v))
    rows.append(("(t_findJouguetVelocity %s)" % T, float(ht.vJ), float(ht.vJ)))
    al2 = case["alN"] * rng.uniform(0.5, 2.0)
    rows.append(("(t_findJouguetVelocity_a %s %s)" % (T, q(al2)),
                 float(ht.findJouguetVelocity(al2)), 1.0))
    vm = min(ht.cb, rng.uniform(0.05, 0.9))
    for br in (-1, 1):
        al = case["alN"] * rng.uniform(0.3, 1.0)
        y = float(ht.getVp(vm, al, br))
        rows.append(("(t_getVp %s %s %s %s)" % (T, q(vm), q(al), "(%d)" % br), y, y))
    for al in (case["alN"] * rng.uniform(0.3, 0.99), case["alN"] * rng.uniform(1.01, 2.0)):
        y = float(ht.wFromAlpha(al))
        rows.append(("(t_wFromAlpha %s %s)" % (T, q(al)), y, y))
    vp = vm * rng.uniform(0.5, 0.95)
    Tp = case["Tn"] * rng.uniform(1.0, 1.3)
    y = float(ht._findTm(vm, vp, Tp))
    rows.append(("(t__findTm %s %s %s %s)" % (T, q(vm), q(vp), q(Tp)), y, y))
    al = case["alN"] * rng.uniform(0.5, 0.99)
    y = float(ht._eqWall(al, vm, -1))
    rows.append(("(t__eqWall %s %s %s (-1))" % (T, q(al), q(vm)), y, 1.0))
    vwd = rng.uniform(ht.vJ + 0.01, 0.98)
    res = [float(x) for x in ht.detonationVAndT(vwd)]
    t = "(t_detonationVAndT %s %s)" % (T, q(vwd))
    for i in range(4):
        rows.append((tup(4, i, t), res[i], res[i]))
    # tail of findMatching after the shooting root
    import WallGo.hydrodynamicsTemplateModel as TM
    got = {}
    orig = TM.root_scalar

    def spy(f, *a, **k):
        r = orig(f, *a, **k)
        got["root"] = r.root
        return r
    TM.root_scalar = spy
    try:
        vw = rng.uniform(max(ht.vMin, 0.05), ht.vJ - 0.01)
        res = ht.findMatching(vw)
    finally:
        TM.root_scalar = orig
    if res[0] is not None and "root" in got and all(math.isfinite(float(x)) for x in res):
        res = [float(x) for x in res]
        t = "(t_findMatching_result %s %s %s)" % (T, q(vw), q(got["root"]))
        for i in range(4):
            rows.append((tup(4, i, t), res[i], res[i]))
        hb = [float(x) for x in ht.findHydroBoundaries(vw)]
        t = "(t_findHydroBoundaries %s %s %s %s %s %s)" % (T, q(vw), q(res[0]), q(res[1]),
                                                       q(res[2]), q(res[3]))
        for i in range(5):
            rows.append((tup(5, i, t), hb[i], hb[i]))
        y = [float(x) for x in ht.matchDeflagOrHybInitial(vw, res[0])]
        t = "(t_matchDeflagOrHybInitial_given %s %s %s)" % (T, q(vw), q(res[0]))
        rows += [(tup(2, 0, t), y[0], y[0]), (tup(2, 1, t), y[1], y[1])]
    return rows


def finite_rows(rows):
    """certified evaluation only where the running code returns finite numbers (python's
    x**y is nan for x < 0, Coq's Rpower is not: outside the common domain)"""
    return [r for r in rows if math.isfinite(r[1]) and math.isfinite(r[2])]


def eval_file(case, th, ht, rows):
    d = dict((a, q(getattr(ht, a))) for a in gen_hydro_match.T_ATTRS)
    d.update(ap=q(th.ap), am=q(th.am), eps=q(th.eps), mmu=q(th.mu), mnu=q(th.nu),
             csqH=q(float(th.csqHighT(th.Tnucl))), csqL=q(float(th.csqLowT(th.Tnucl))))
    hdr = EVAL_HDR % d
    goals = []
    for term, y, scale in rows:
        tol = Fraction(float(abs(scale))) / 10 ** 8 + Fraction(1, 10 ** 30)
        goals.append("Goal Rabs (%s - %s) <= %s.\nProof. ev. Qed." % (term, q(y),
                                                                     pyrx.rlit(tol)))
    return hdr + "\n".join(goals) + "\n"


# ------------------------------------------------------------------------------------

def run(ctx):
    gen_ok = True
    try:
        ctx.pid_saved = None
        base.generate(ctx)
        with open(os.path.join(vlib.COQ, "Props", "C02.v")) as f:
            core = f.read().replace("From GenC02 ", "From GenC15 ")
        ctx.write("C02Core.v", core)
    except pyrx.TranslateError as e:
        ctx.log("translator failed:", e)
        ctx.broken.append("translator: %s" % e)
        gen_ok = False
    proved = gen_ok and ctx.prove(extra=["HydroGen.v", "C02Core.v"])
    ctx.trusted += ["tools/pyrx.py + tools/gen_hydro_match.py (AST translator, solver "
                    "slicing rule)",
                    "Interval tactic (certified evaluation; kernel primitive floats/ints)"]
    rng = ctx.rng
    stats = []
    nsets = ctx.n(16, 400)
    # certified correspondence: files written and coqc started now, collected below
    procs = []
    if proved:
        for m in range(ctx.n(2, 6)):
            case = gen_params(rng)
            try:
                th, hg, ht = build(case)
                allrows = finite_rows(eval_rows(case, th, ht, rng))
                for c in range(0, len(allrows), 8):
                    rows = allrows[c:c + 8]
                    p = ctx.write("Cases/Eval_%d_%d.v" % (m, c // 8),
                                  eval_file(case, th, ht, rows))
                    procs.append(("%d_%d" % (m, c // 8), case, rows, p, subprocess.Popen(
                        ["timeout", "600", "coqc"] + ctx.coq_args() + [p], cwd=ctx.bdir,
                        stdout=subprocess.PIPE, stderr=subprocess.PIPE, text=True)))
                if m == 0:
                    ctx.sample(dict(case=case, vJ=[hg.vJ, ht.vJ], vMin=[hg.vMin, ht.vMin]))
            except Exception:
                ctx.log("correspondence rows failed", json.dumps(case),
                        traceback.format_exc())
                ctx.broken.append("harness: correspondence rows raised")
    t0 = time.time()
    for d in DIRECTED:
        case = d["case"]
        try:
            vws = d["vws"]
            if any(isinstance(v, str) for v in vws):
                _, _, ht0 = build(case)
                vws = [(ht0.vJ * float(v[3:]) if isinstance(v, str) and v[2] == "*" else
                        ht0.vJ - float(v[3:]) if isinstance(v, str) else v) for v in vws]
            with base.time_limit(300):
                compare(ctx, dict(case), stats, rng, 6, with_lte=d.get("lte", False),
                        with_kappa="kappa_vws" in d, vws=vws, kappa_vws=d.get("kappa_vws"),
                        directed=True)
        except TimeoutError as ex:
            ctx.fail_input("comparison of the two solvers: %s [%s]" % (ex, json.dumps(case)),
                           dict(case=case, quantity="timeout"), key="timeout")
        except Exception:
            ctx.log("harness exception", json.dumps(case), traceback.format_exc())
            ctx.broken.append("harness: compare raised")
    # every recorded finding must still reproduce on its recorded input
    reported = set(ctx.known_count) | {v["key"] for v in ctx.violations}
    for d in DIRECTED:
        for key in d.get("expect", []):
            if key not in reported:
                ctx.log("KNOWN-FINDING-GONE:", key, json.dumps(d["case"]))
                ctx.fail_input("the recorded finding %s no longer reproduces on its recorded "
                               "input %s" % (key, json.dumps(d["case"])),
                               dict(case=d["case"], quantity="recorded"),
                               key=key + ":no-longer-reproduces")
    for m in range(nsets):
        case = gen_params(rng)
        try:
            with base.time_limit(300):
                compare(ctx, case, stats, rng, ctx.n(8, 14), with_lte=True, with_kappa=True)
        except TimeoutError as ex:
            ctx.fail_input("comparison of the two solvers: %s [%s]" % (ex, json.dumps(case)),
                           dict(case=case, quantity="timeout"), key="timeout")
        except Exception:
            ctx.log("harness exception", json.dumps(case), traceback.format_exc())
            ctx.broken.append("harness: compare raised")
    ctx.log("direct comparison: %d parameter sets, %d comparisons in %.1fs" % (
        nsets, len(stats), time.time() - t0))
    worst = {}
    for kind, ratio, info in stats:
        if kind not in worst or ratio > worst[kind][0]:
            worst[kind] = (ratio, info)
    for kind, (ratio, info) in sorted(worst.items()):
        ctx.log("worst %s difference / tolerance: %.3g at %s" % (kind, ratio,
                                                                json.dumps(info)))
    ctx.cov["worst_difference_over_tolerance"] = {k: v[0] for k, v in worst.items()}
    # ---- coverage floors and caps on the skips (fail closed) ------------------------------
    cc, dd = ctx.cov["correspondence"], ctx.cov["distribution"]
    nm = cc.get("matching", 0)
    ndefl = sum(v for b, v in dd.get("matching", {}).items() if b != "detonation")
    for k, floor in (("matching", ctx.n(110, 3000)), ("boundaries", ctx.n(70, 2000)),
                     ("matching_tight", ctx.n(30, 800)), ("matching_defaults", ctx.n(30, 800)),
                     ("kappa_tight", ctx.n(30, 800)), ("repeat_call", ctx.n(24, 600)),
                     ("vwLTE", ctx.n(12, 300))):
        if cc.get(k, 0) < floor:
            ctx.broken.append("coverage: only %d %s (floor %d)" % (cc.get(k, 0), k, floor))
    if dd.get("vMin", {}).get("shock-limited", 0) < 3:
        ctx.broken.append("coverage: fewer than 3 shock-limited minimal velocities")
    for k, frac, of in (("general_used_template_fallback", 0.5, ndefl),
                        ("degenerate_edge_skipped", 0.1, nm),
                        ("slow_wall_corner_skipped", 0.15, nm),
                        ("raised", 0.1, nm)):
        if cc.get(k, 0) > frac * max(of, 1):
            ctx.broken.append("coverage: %d %s out of %d comparisons (cap %d%%)" % (
                cc.get(k, 0), k, of, int(100 * frac)))
    for m, case, rows, p, pr in procs:
        out, err = pr.communicate()
        for _ in rows:
            ctx.count("certified_eval")
        if pr.returncode != 0:
            ctx.broken.append("correspondence: certified evaluation Eval_%s" % m)
            ctx.log("certified evaluation failed", vlib.tail(err, 8))
            ctx.log("model", json.dumps(case))
    ctx.log("certified evaluations: %d files" % len(procs))
    ctx.cov["rule"] = (
        "template parameter sets: psiN 0.5..0.995, cs2 and cb2 in 0.2..1/3 in BOTH orderings "
        "(40%% cb2<=cs2 incl. nearly equal, 60%% cb2>cs2 incl. psiN 0.9..0.995), alN = "
        "(1-psiN)/3 + 10^U(-3,-0.45) (transition towards the low-T phase), Tn = "
        "10^{-2..2} * U(0.5,2); per set wall velocities at vMin, near cb, just below/above "
        "vJ, 0.9..0.99, 0.99 and uniform; vwLTE once, efficiency factor on each branch, "
        "both at the default rtol=atol=1e-6 (tolerance %g + %g*atol/Tn: Simpson on the ODE "
        "solver's own steps limits kappa to several %%) and at rtol=atol=1e-10 (tolerance "
        "%g), each plus the sensitivity term 2*K_MATCH*(rtol+atol/scale)*g+^2 g-^2*vm/|vw-vm| "
        "when a rarefaction wave is present; parameter "
        "sets with alN <= (1-psiN)/3 are outside the quantifier (the high-T phase has the "
        "higher pressure at Tn: no transition); tolerances: vJ %g*(rtol+atol/Tn), matching "
        "and boundaries %g*(rtol+atol/min(vp,Tp,Tm)+rtol/heating+S*(rtol+atol/vp))*gamma+^2*"
        "gamma-^2 (heating = Tp/Tn-1, treated as unresolved when < 1%% and the classes differ "
        "by as much; S = |dln w+/dln v+|/mu from the closed forms), vwLTE "
        "%g*(atol+(rtol+atol/Tn)*vw), vMin %g*(atol+(rtol+atol/Tn)*vMin); the measured worst difference/tolerance ratios are in "
        "coverage.worst_difference_over_tolerance; distinct = distinct (parameter set, vw)"
        % (TOL_KAPPA, K_KAPPA_T, TOL_KAPPA_TIGHT, K_VJ, K_MATCH, K_LTE, K_VMIN))
    ctx.assumptions += [
        "both solvers agree on the shooting unknown v+ of deflagrations/hybrids (integration "
        "of the shock ODE: compared numerically, not proved)",
        "wFromAlpha is an exact inverse (true up to 1e-100: wFromAlpha_near_inverse)",
        "sign conditions e+ + p- > 0, e- + p+ > 0, e+ <> e- at the matching"]


def replay(rep):
    print(json.dumps({k: v for k, v in rep.items() if k != "case"}, indent=1))
    case = rep["case"]
    th, hg, ht = build(case, rep.get("rtol", RTOL), rep.get("atol", ATOL))
    print("vJ  general %r template %r" % (hg.vJ, ht.vJ))
    print("vMin general %r template %r" % (hg.vMin, ht.vMin))
    vw = rep.get("vw")
    if vw is not None:
        print("findMatching general ", hg.findMatching(vw))
        print("findMatching template", ht.findMatching(vw))
        print("boundaries general ", hg.findHydroBoundaries(vw))
        print("boundaries template", ht.findHydroBoundaries(vw))
        if rep.get("quantity") == "kappa":
            print("kappa", hg.efficiencyFactor(vw), ht.efficiencyFactor(vw))
    if rep.get("quantity") == "vwLTE":
        print("vwLTE", hg.findvwLTE(), ht.findvwLTE())
    return 0
