"""Generated model of the plasma-profile solver of WallGo.EOM (C04).

Translated from the source on every run (fail closed):
  helpers.gammaSq                                    -> gammaSq
  EOM.plasmaVelocity, EOM.temperatureProfileEqLHS    -> same names
  EOM.deltaToTmunu (list comprehension over the particles, column slices of the
                    Delta polynomials)               -> deltaToTmunu
  EOM.findPlasmaProfile (the loop over the grid: arrays as functions, the success flag)
                                                     -> findPlasmaProfile_step, findPlasmaProfile
  EOM.findPlasmaProfilePoint  (WHOLE method: s1, s2, the bounded minimiser and the
        bracketed root finder as oracles of the environment, the early return, the
        branch rule, the bracket-search `while` loop as a fuel-indexed Fixpoint)
                                                     -> findPlasmaProfilePoint,
                                                        findPlasmaProfilePoint_loop
  Hydrodynamics.findHydroBoundaries, from `wHighT = ...` to the return (sign convention
        of c1 and velocityMid)                        -> H_hydroBoundaries

pyrx.ClassTranslator is subclassed (pyrx itself is not modified); the extra constructs
are: lambda, np.sum over a list comprehension on enumerate(self.particles), np.sum(x**n)
over a field point, `.view(np.ndarray)`, `P.coefficients[:, k]` column slices,
scipy.optimize.minimize_scalar(method="Bounded") / root_scalar(bracket=, xtol=, rtol=) as
oracles (the two tolerances are translated and handed to the oracle; self.errTol is a field),
`while` loops (fuel-indexed Fixpoint, early `return` inside the loop), the numpy
shape-dispatch epilogue `if r.shape == ...: return float(r[0])`.
"""
import ast

import pyrx
from pyrx import Pattern, TranslateError, Env, const_value

FUEL = 200          # fuel handed to the generated loop; Props proves 102 is enough

TYPES = {"index": "nat", "fields": "FieldPt", "dPhidz": "FieldPt",
         "offEquilDeltas": "Deltas"}

EOM_EXT = [
    Pattern("self.thermo.effectivePotential.derivT(_0, _1)", "derivT",
            "FieldPt -> R -> R"),
    Pattern("self.thermo.effectivePotential.evaluate(_0, _1)", "evaluate",
            "FieldPt -> R -> R"),
    Pattern("self.hydrodynamics.Tnucl", "Tnucl", "R"),
    Pattern("self.particles", "particles", "list particle"),
]
EOM_ORACLES = [# f, bounds, xatol (absolute tolerance on the position)
               ("minimize_bounded", "(R -> R) -> R -> R -> R -> R"),
               # f, bracket ends, xtol (absolute), rtol (relative)
               ("root_bracketed", "(R -> R) -> R -> R -> R -> R -> R")]
HYDRO_EXT = [
    Pattern("self.thermodynamics.wHighT(_0)", "wHighT", "R -> R"),
    Pattern("self.thermodynamics.pHighT(_0)", "pHighT", "R -> R"),
]


def _is_mod_call(node, mods, name):
    """mods.name(...) e.g. np.sum / scipy.optimize.root_scalar"""
    return isinstance(node, ast.Call) and ast.unparse(node.func) in [
        m + "." + name for m in mods]


class PlasmaTranslator(pyrx.ClassTranslator):
    def __init__(self, src, cls, externals, methods, prefix="", funcs=(), vtypes=None,
                 attrs=()):
        super().__init__(src, cls, list(attrs), externals, methods, state=False, prefix=prefix)
        self.funcs = set(funcs)       # module-level functions translated without env
        self.vtypes = dict(vtypes or {})
        self.pending = []             # top-level Fixpoints to emit before the method
        self.loops = {}               # id(while node) -> (name, params, carried)
        self.ret_wrap = None
        self.ignored = []             # solver tolerances etc. (recorded, not modelled)
        self.loop_fuel = FUEL
        self.cur = ""

    # ---- helpers -------------------------------------------------------------------
    def type_of(self, name, env):
        return env.v.get((name, "type")) or self.vtypes.get(name)

    # ---- expressions ---------------------------------------------------------------
    def expr(self, node, env):
        if self.ext(node) is not None:
            return super().expr(node, env)
        # x.view(np.ndarray): identity on values
        if isinstance(node, ast.Call) and isinstance(node.func, ast.Attribute) and \
                node.func.attr == "view" and len(node.args) == 1 and \
                ast.unparse(node.args[0]) in ("np.ndarray", "numpy.ndarray"):
            return self.expr(node.func.value, env)
        if _is_mod_call(node, ("np", "numpy"), "sum"):
            if len(node.args) != 1 or node.keywords:
                raise TranslateError("np.sum with options (line %d)" % node.lineno)
            a = node.args[0]
            if isinstance(a, ast.ListComp):
                return self.listcomp_sum(a, env)
            if isinstance(a, ast.BinOp) and isinstance(a.op, ast.Pow) and \
                    isinstance(a.left, ast.Name) and \
                    self.type_of(a.left.id, env) == "FieldPt":
                c = const_value(a.right)
                if c is None or c.denominator != 1 or c < 0:
                    raise TranslateError("np.sum(x**e): exponent (line %d)" %
                                         node.lineno)
                return "(sum_list (map (fun x_ : R => x_ ^ %d) %s))" % (
                    int(c), env.v[a.left.id])
            raise TranslateError("np.sum argument %s (line %d)" % (
                ast.unparse(a)[:50], node.lineno))
        if isinstance(node, ast.Lambda):
            a = node.args
            if a.vararg or a.kwarg or a.kwonlyargs or a.defaults or len(a.args) != 1:
                raise TranslateError("lambda shape (line %d)" % node.lineno)
            env2 = env.copy()
            nm = a.args[0].arg
            env2.v[nm] = nm
            return "(fun %s : R => %s)" % (nm, self.expr(node.body, env2))
        if isinstance(node, ast.Attribute) and isinstance(node.value, ast.Name):
            nm = node.value.id
            if self.type_of(nm, env) == "particle":
                return "(%s %s)" % (node.attr, env.v[nm])
            if env.v.get((nm, "optres")) == node.attr:
                return env.v[nm]
        # scipy.optimize.root_scalar(f, bracket=(a, b), ...).root
        if isinstance(node, ast.Attribute) and node.attr == "root" and _is_mod_call(
                node.value, ("scipy.optimize", "optimize"), "root_scalar"):
            c = node.value
            kw = {k.arg: k.value for k in c.keywords}
            if len(c.args) != 1 or "bracket" not in kw or not isinstance(
                    kw["bracket"], (ast.Tuple, ast.List)) or len(kw["bracket"].elts) != 2:
                raise TranslateError("root_scalar shape (line %d)" % node.lineno)
            # the stopping tolerances are part of the model: they are handed to the oracle
            if set(kw) != {"bracket", "xtol", "rtol"}:
                raise TranslateError("root_scalar keywords %s (line %d): exactly bracket, "
                                     "xtol, rtol are modelled" % (sorted(kw), node.lineno))
            a, b = kw["bracket"].elts
            return "(root_bracketed e %s %s %s %s %s)" % (
                self.expr(c.args[0], env), self.expr(a, env), self.expr(b, env),
                self.expr(kw["xtol"], env), self.expr(kw["rtol"], env))
        if _is_mod_call(node, ("scipy.optimize", "optimize"), "minimize_scalar"):
            kw = {k.arg: k.value for k in node.keywords}
            opt = kw.get("options")
            if len(node.args) != 1 or set(kw) != {"method", "bounds", "options"} or \
                    const_str(kw["method"]) != "Bounded" or not isinstance(
                        kw["bounds"], (ast.Tuple, ast.List)) or \
                    len(kw["bounds"].elts) != 2 or not (
                        isinstance(opt, ast.Dict) and len(opt.keys) == 1 and
                        const_str(opt.keys[0]) == "xatol"):
                raise TranslateError("minimize_scalar shape (line %d): method='Bounded', "
                                     "bounds=[a, b], options={'xatol': e} are modelled" %
                                     node.lineno)
            a, b = kw["bounds"].elts
            # the stopping tolerance is part of the model: it is handed to the oracle
            return "(minimize_bounded e %s %s %s %s)" % (
                self.expr(node.args[0], env), self.expr(a, env), self.expr(b, env),
                self.expr(opt.values[0], env))
        return super().expr(node, env)

    def call(self, node, env):
        f = node.func
        if isinstance(f, ast.Name) and f.id in self.funcs and not node.keywords:
            return "(%s %s)" % (f.id, " ".join(self.expr(a, env) for a in node.args))
        if isinstance(f, ast.Attribute) and isinstance(f.value, ast.Name) and \
                f.attr == "getFieldPoint" and len(node.args) == 1 and not node.keywords and \
                self.type_of(f.value.id, env) == "nat -> FieldPt" and \
                isinstance(node.args[0], ast.Name) and \
                self.type_of(node.args[0].id, env) == "nat":
            return "(%s %s)" % (env.v[f.value.id], env.v[node.args[0].id])
        if isinstance(f, ast.Attribute) and isinstance(f.value, ast.Name) and \
                self.type_of(f.value.id, env) == "particle" and not node.keywords:
            return "(%s %s %s)" % (f.attr, env.v[f.value.id],
                                   " ".join(self.expr(a, env) for a in node.args))
        return super().call(node, env)

    def subscript(self, node, env):
        if isinstance(node.value, ast.Name) and (node.value.id, "arr") in env.v:
            a, n = env.v[node.value.id], env.v[(node.value.id, "arr")]
            sl = node.slice
            if isinstance(sl, ast.Name) and self.type_of(sl.id, env) == "nat":
                return "(%s %s)" % (a, env.v[sl.id])
            if isinstance(sl, ast.BinOp) and isinstance(sl.op, ast.Sub) and isinstance(
                    sl.left, ast.Name) and self.type_of(sl.left.id, env) == "nat":
                c = const_value(sl.right)
                if c is not None and c.denominator == 1 and c > 0:
                    # python: a negative index wraps around
                    return "(%s (pyidx_sub %s %s %d))" % (a, n, env.v[sl.left.id], int(c))
            raise TranslateError("array index %s (line %d)" % (ast.unparse(sl), node.lineno))
        if isinstance(node.value, ast.Name) and (node.value.id, "col") in env.v:
            base, col = env.v[(node.value.id, "col")]
            if isinstance(node.slice, ast.Name) and \
                    self.type_of(node.slice.id, env) == "nat":
                return "(%s %s %s)" % (base, env.v[node.slice.id], col)
            raise TranslateError("row index of a coefficient column must be a nat "
                                 "variable (line %d)" % node.lineno)
        return super().subscript(node, env)

    def listcomp_sum(self, lc, env):
        """np.sum([ELT for i, p in enumerate(self.X)])"""
        if len(lc.generators) != 1:
            raise TranslateError("nested comprehension")
        g = lc.generators[0]
        if g.ifs or g.is_async or not isinstance(g.target, ast.Tuple) or \
                len(g.target.elts) != 2 or not all(
                    isinstance(t, ast.Name) for t in g.target.elts):
            raise TranslateError("comprehension target (line %d)" % lc.lineno)
        it = g.iter
        if not (isinstance(it, ast.Call) and isinstance(it.func, ast.Name) and
                it.func.id == "enumerate" and len(it.args) == 1 and not it.keywords):
            raise TranslateError("comprehension iterable (line %d)" % lc.lineno)
        e = self.ext(it.args[0])
        if e is None or e[0].ty != "list particle":
            raise TranslateError("comprehension over %s" % ast.unparse(it.args[0]))
        lst = super().expr(it.args[0], env)
        i, p = g.target.elts[0].id, g.target.elts[1].id
        env2 = env.copy()
        env2.v[i] = i
        env2.v[(i, "type")] = "nat"
        env2.v[p] = p
        env2.v[(p, "type")] = "particle"
        body = self.expr(lc.elt, env2)
        return ("(sum_list (map (fun ip_ : nat * particle => let %s := fst ip_ in "
                "let %s := snd ip_ in %s) (enumerate %s)))" % (i, p, body, lst))

    # ---- statements ----------------------------------------------------------------
    def block(self, stmts, env, k):
        if not stmts:
            return k(env)
        st, rest = stmts[0], stmts[1:]
        if isinstance(st, ast.Return) and self.ret_wrap is not None and \
                st.value is not None:
            return self.ret_wrap(self.expr(st.value, env))
        if isinstance(st, ast.While):
            return self.while_loop(st, rest, env, k)
        if isinstance(st, ast.If) and ".shape" in ast.unparse(st.test):
            return self.shape_epilogue(stmts, env)
        if isinstance(st, ast.Assign) and len(st.targets) == 1 and \
                isinstance(st.targets[0], ast.Name):
            tg = st.targets[0].id
            col = self.column(st.value, env)
            if col is not None:
                env2 = env.copy()
                env2.v[(tg, "col")] = col
                env2.v.pop(tg, None)
                return self.block(rest, env2, k)
            if _is_mod_call(st.value, ("scipy.optimize", "optimize"), "minimize_scalar"):
                val = self.expr(st.value, env)
                nm = self.newname(tg + "_x")
                env2 = env.copy()
                env2.v[tg] = nm
                env2.v[(tg, "optres")] = "x"
                return "let %s := %s in\n  %s" % (nm, val, self.block(rest, env2, k))
            # a plain rebinding drops special markers of the old value
            if (tg, "col") in env.v or (tg, "optres") in env.v:
                env = env.copy()
                env.v.pop((tg, "col"), None)
                env.v.pop((tg, "optres"), None)
                return super().block(stmts, env, k)
        return super().block(stmts, env, k)

    def column(self, node, env):
        """OBJ.NAME.coefficients[:, IDX] with OBJ : Deltas, IDX : nat"""
        if not isinstance(node, ast.Subscript):
            return None
        v, s = node.value, node.slice
        if not (isinstance(v, ast.Attribute) and v.attr == "coefficients" and
                isinstance(v.value, ast.Attribute) and
                isinstance(v.value.value, ast.Name) and
                self.type_of(v.value.value.id, env) == "Deltas"):
            return None
        if not (isinstance(s, ast.Tuple) and len(s.elts) == 2 and
                isinstance(s.elts[0], ast.Slice) and s.elts[0].lower is None and
                s.elts[0].upper is None and s.elts[0].step is None and
                isinstance(s.elts[1], ast.Name) and
                self.type_of(s.elts[1].id, env) == "nat"):
            raise TranslateError("coefficient slice %s (line %d)" % (
                ast.unparse(node), node.lineno))
        return ("%s %s" % (v.value.attr, env.v[v.value.value.id]), env.v[s.elts[1].id])

    def shape_epilogue(self, stmts, env):
        """if r.shape == ...: return float(r[0]) / return float(r) ... raise: numpy
        shape dispatch of a value that the model treats as one real."""
        name = None
        for st in stmts:
            if isinstance(st, ast.Raise):
                continue
            if not (isinstance(st, ast.If) and not st.orelse and len(st.body) == 1 and
                    isinstance(st.body[0], ast.Return)):
                raise TranslateError("shape dispatch: statement (line %d)" % st.lineno)
            r = st.body[0].value
            if not (isinstance(r, ast.Call) and isinstance(r.func, ast.Name) and
                    r.func.id == "float" and len(r.args) == 1):
                raise TranslateError("shape dispatch: return (line %d)" % st.lineno)
            a = r.args[0]
            if isinstance(a, ast.Subscript) and const_value(a.slice) == 0:
                a = a.value
            if not isinstance(a, ast.Name) or (name is not None and a.id != name):
                raise TranslateError("shape dispatch: value (line %d)" % st.lineno)
            name = a.id
            for n in ast.walk(st.test):
                if isinstance(n, ast.Name) and n.id not in (name, "len"):
                    raise TranslateError("shape dispatch: test (line %d)" % st.lineno)
        if name is None or name not in env.v:
            raise TranslateError("shape dispatch without value")
        v = env.v[name]
        return self.ret_wrap(v) if self.ret_wrap else v

    def while_loop(self, st, rest, env, k):
        if st.orelse:
            raise TranslateError("while/else (line %d)" % st.lineno)
        carried = []
        for n in ast.walk(ast.Module(body=st.body, type_ignores=[])):
            if isinstance(n, ast.Name) and isinstance(n.ctx, ast.Store) and \
                    n.id not in carried:
                carried.append(n.id)
        for c in carried:
            if not isinstance(env.v.get(c), str):
                raise TranslateError("loop variable %s not initialised (line %d)" % (
                    c, st.lineno))
        loaded = pyrx._names_loaded(ast.Module(body=[st], type_ignores=[]))
        params = [n for n in env.v if isinstance(n, str) and n in loaded and
                  n not in carried and isinstance(env.v[n], str)]
        if id(st) not in self.loops:
            name = "%s_loop" % self.cur if not self.loops else "%s_loop%d" % (
                self.cur, len(self.loops) + 1)
            self.loops[id(st)] = name
            inner = Env()
            for n in params + carried:
                inner.v[n] = n
                for tag in ("type", "col", "optres"):
                    if (n, tag) in env.v:
                        inner.v[(n, tag)] = env.v[(n, tag)]
            test = self.test(st.test, inner)
            saved = self.ret_wrap
            self.ret_wrap = lambda s: "Some (inl %s)" % s
            body = self.block(list(st.body), inner, lambda e2: "(%s e fuel_ %s %s)" % (
                name, " ".join(params), " ".join(e2.v[c] for c in carried)))
            self.ret_wrap = saved
            sig = " ".join("(%s : %s)" % (p, self.type_of(p, env) or "R")
                           for p in params + carried)
            self.pending.append(
                "Fixpoint %s (e : %senv) (fuel_ : nat) %s {struct fuel_} :\n"
                "    option ((%s) + (%s)) :=\n  match fuel_ with\n  | O => None\n"
                "  | S fuel_ =>\n    if %s\n    then (%s)\n    else Some (inr (%s))\n  end."
                % (name, self.prefix, sig, self.loop_ret, " * ".join("R" for _ in carried),
                   test, body, ", ".join(carried)))
        name = self.loops[id(st)]
        env2 = env.copy()
        fresh = []
        for c in carried:
            nm = self.newname(c)
            fresh.append(nm)
            env2.v[c] = nm
        after = self.block(rest, env2, k)
        w = self.ret_wrap or (lambda s: s)
        return ("match %s e %d%%nat %s %s with\n  | Some (inr (%s)) =>\n  %s\n"
                "  | Some (inl r_) => %s\n  | None => None\n  end" % (
                    name, self.loop_fuel, " ".join(env.v[p] for p in params),
                    " ".join(env.v[c] for c in carried), ", ".join(fresh), after,
                    w("r_")))

    loop_ret = "R * R"

    # ---- definitions ---------------------------------------------------------------
    def method(self, name, types=None, coq_name=None, fixed=None):
        self.cur = coq_name or self.an(name)
        t = dict(self.vtypes)
        t.update(types or {})
        return super().method(name, t, coq_name, fixed)

    def method_opt(self, name):
        """method with loops: returns option (None only when the loop runs out of fuel)"""
        self.ret_wrap = lambda s: "Some %s" % s
        try:
            d = self.method(name)
        finally:
            self.ret_wrap = None
        out = self.pending + [d]
        self.pending = []
        return "\n".join(out)

    # ---- a `for index in range(len(X))` loop filling arrays and clearing a flag -----------
    def array_loop(self, name, callee, size_name="n"):
        """Method of the shape
             A = np.zeros(len(SIZE)); B = np.zeros(len(SIZE)); self.flag = True
             for index in range(len(SIZE)):  <assignments / if / A[index] = e / self.flag = c>
             return A, B
        becomes  NAME_step (one turn of the loop on the state (A, B, flag), arrays as
        functions nat -> R, python's A[index-1] as A (pyidx_sub n index 1)) and NAME (the fold
        over seq 0 n from the initial state).  `callee` is the option-valued generated method
        that the body calls."""
        fn = self.fn.get(name)
        if fn is None:
            raise TranslateError("method %s not found" % name)
        body = [st for st in fn.body if not (isinstance(st, ast.Expr) and isinstance(
            st.value, ast.Constant) and isinstance(st.value.value, str))]
        arrays, flags, size = [], [], None
        k = 0
        while k < len(body) and not isinstance(body[k], ast.For):
            st = body[k]
            k += 1
            if not (isinstance(st, ast.Assign) and len(st.targets) == 1):
                raise TranslateError("%s: initialisation (line %d)" % (name, st.lineno))
            tg, v = st.targets[0], st.value
            if isinstance(tg, ast.Name) and _is_mod_call(v, ("np", "numpy"), "zeros") and \
                    len(v.args) == 1 and not v.keywords and isinstance(v.args[0], ast.Call) \
                    and isinstance(v.args[0].func, ast.Name) and v.args[0].func.id == "len" \
                    and len(v.args[0].args) == 1:
                sz = ast.unparse(v.args[0].args[0])
                if size not in (None, sz):
                    raise TranslateError("%s: arrays of different sizes" % name)
                size = sz
                arrays.append(tg.id)
            elif isinstance(tg, ast.Attribute) and isinstance(tg.value, ast.Name) and \
                    tg.value.id == "self" and isinstance(v, ast.Constant) and v.value is True:
                flags.append(tg.attr)
            else:
                raise TranslateError("%s: initialisation (line %d)" % (name, st.lineno))
        if k >= len(body) or not arrays or len(flags) != 1:
            raise TranslateError("%s: not an array-filling loop" % name)
        loop, rest = body[k], body[k + 1:]
        if loop.orelse or not isinstance(loop.target, ast.Name) or \
                ast.unparse(loop.iter) != "range(len(%s))" % size:
            raise TranslateError("%s: loop header (line %d)" % (name, loop.lineno))
        if not (len(rest) == 1 and isinstance(rest[0], ast.Return) and isinstance(
                rest[0].value, ast.Tuple) and [ast.unparse(x) for x in rest[0].value.elts]
                == arrays):
            raise TranslateError("%s: must return its arrays" % name)
        idx = loop.target.id
        ps = [(a.arg, {"fields": "nat -> FieldPt", "dPhidz": "nat -> FieldPt"}.get(
            a.arg, self.vtypes.get(a.arg, "R"))) for a in fn.args.args if a.arg != "self"]
        env = Env()
        for p, t in ps:
            env.v[p] = p
            env.v[(p, "type")] = t
        env.v[idx] = idx
        env.v[(idx, "type")] = "nat"
        state = arrays + flags
        for a in arrays:
            env.v[a] = a
            env.v[(a, "arr")] = size_name
        self.arr_flags = {f: f for f in flags}
        self.arr_callee = callee
        self.cur = self.an(name)

        def fin(e2):
            return "Some (%s)" % ", ".join([e2.v[a] for a in arrays] +
                                           [self.arr_flags[f] for f in flags])
        # flags are threaded through self.arr_flags (python attribute stores)
        term = self.arr_block(list(loop.body), env, fin, idx)
        sty = " * ".join(["(nat -> R)"] * len(arrays) + ["bool"] * len(flags))
        sig = " ".join("(%s : %s)" % p for p in ps)
        step = ("Definition %s_step (e : %senv) (%s : nat) %s (st_ : %s) (%s : nat) : option (%s) :=\n"
                "  let '(%s) := st_ in\n  %s." % (self.an(name), self.prefix, size_name, sig, sty,
                                                idx, sty, ", ".join(state), term))
        init = ", ".join(["(fun _ : nat => 0)"] * len(arrays) + ["true"] * len(flags))
        args = " ".join(p for p, _ in ps)
        whole = ("Definition %s (e : %senv) (%s : nat) %s : option (%s) :=\n"
                 "  fold_left (fun acc_ %s => match acc_ with Some st_ => %s_step e %s %s st_ %s "
                 "| None => None end)\n    (seq 0 %s) (Some (%s))." % (
                     self.an(name), self.prefix, size_name, sig, sty, idx, self.an(name),
                     size_name, args, idx, size_name, init))
        self.spans[self.an(name)] = (fn.lineno, fn.end_lineno, pyrx._sha(ast.unparse(fn)))
        return step + "\n" + whole

    def arr_block(self, stmts, env, fin, idx):
        if not stmts:
            return fin(env)
        st, rest = stmts[0], stmts[1:]
        if isinstance(st, ast.Assign) and len(st.targets) == 1:
            tg, v = st.targets[0], st.value
            # T, v = self.CALLEE(...)   (option-valued generated method)
            if isinstance(tg, ast.Tuple) and isinstance(v, ast.Call) and \
                    ast.unparse(v.func) == "self." + self.arr_callee and not v.keywords:
                names, env2 = [], env.copy()
                for x in tg.elts:
                    if not isinstance(x, ast.Name):
                        raise TranslateError("unpack target (line %d)" % st.lineno)
                    nm = self.newname(x.id)
                    names.append(nm)
                    env2.v[x.id] = nm
                args = " ".join(self.expr(a, env) for a in v.args)
                saved = dict(self.arr_flags)
                inner = self.arr_block(rest, env2, fin, idx)
                self.arr_flags = saved
                return ("match %s e %s with\n  | Some (%s) =>\n  %s\n  | None => None\n  end"
                        % (self.an(self.arr_callee), args, ", ".join(names), inner))
            # A[index] = e
            if isinstance(tg, ast.Subscript) and isinstance(tg.value, ast.Name) and \
                    (tg.value.id, "arr") in env.v and isinstance(tg.slice, ast.Name) and \
                    tg.slice.id == idx:
                val = self.expr(v, env)
                env2 = env.copy()
                env2.v[tg.value.id] = "(upd %s %s %s)" % (env.v[tg.value.id], idx, val)
                return self.arr_block(rest, env2, fin, idx)
            # self.flag = True / False
            if isinstance(tg, ast.Attribute) and isinstance(tg.value, ast.Name) and \
                    tg.value.id == "self" and tg.attr in self.arr_flags and \
                    isinstance(v, ast.Constant) and isinstance(v.value, bool):
                self.arr_flags[tg.attr] = "true" if v.value else "false"
                return self.arr_block(rest, env, fin, idx)
            raise TranslateError("loop body assignment %s (line %d)" % (
                ast.unparse(tg), st.lineno))
        if isinstance(st, ast.If):
            t = self.test(st.test, env)
            saved = dict(self.arr_flags)
            a = self.arr_block(list(st.body) + rest, env.copy(), fin, idx)
            self.arr_flags = dict(saved)
            b = self.arr_block(list(st.orelse) + rest, env.copy(), fin, idx)
            self.arr_flags = saved
            return "if %s\n  then (%s)\n  else (%s)" % (t, a, b)
        raise TranslateError("loop body statement %s (line %d)" % (type(st).__name__,
                                                                   st.lineno))

    def tail_slice(self, method, coq_name, start, opaque):
        """Definition of the statements of `method` from the first assignment to `start`
        to the end, with the names in `opaque` as parameters."""
        fn = self.fn.get(method)
        if fn is None:
            raise TranslateError("method %s not found" % method)
        k0 = None
        for j, st in enumerate(fn.body):
            if isinstance(st, ast.Assign) and any(
                    isinstance(t, ast.Name) and t.id == start for t in st.targets):
                k0 = j
                break
        if k0 is None:
            raise TranslateError("%s: no assignment to %s" % (method, start))
        env = Env()
        for o in opaque:
            env.v[o] = o
        body = self.block(fn.body[k0:], env, lambda e: pyrx._fail(
            "%s can fall off its end" % method))
        used = [o for o in opaque if pyrx._mentions_word(body, o)]
        self.spans[coq_name] = (fn.body[k0].lineno, fn.end_lineno, pyrx._sha(
            "\n".join(ast.unparse(s) for s in fn.body[k0:])))
        return "Definition %s (e : %senv) %s :=\n  %s." % (
            coq_name, self.prefix, " ".join("(%s : R)" % o for o in used), body)


def const_str(node):
    return node.value if isinstance(node, ast.Constant) and isinstance(
        node.value, str) else None


def module_function(src, name):
    """Definition of a module-level pure function (no environment)."""
    tree = ast.parse(src)
    for n in tree.body:
        if isinstance(n, ast.FunctionDef) and n.name == name:
            tr = object.__new__(PlasmaTranslator)
            tr.externals, tr.attrs, tr.methods, tr.state, tr.prefix = [], [], [], False, ""
            tr.used_ext, tr.asserts, tr.fresh, tr.spans, tr.svar = [], [], 0, {}, "s"
            tr.funcs, tr.vtypes, tr.pending, tr.loops = set(), {}, [], {}
            tr.ret_wrap, tr.ignored, tr.cur = None, [], name
            env = Env()
            ps = [a.arg for a in n.args.args]
            for p in ps:
                env.v[p] = p
            body = tr.block(n.body, env, lambda e: pyrx._fail(
                "%s can fall off its end" % name))
            span = (n.lineno, n.end_lineno, pyrx._sha(ast.unparse(n)))
            return "Definition %s %s : R :=\n  %s." % (
                name, " ".join("(%s : R)" % p for p in ps), body), span
    raise TranslateError("function %s not found" % name)


def _plain_module(src, names, classes):
    """fail closed on module-level code that changes what the functions / classes we read mean:
    decorated or doubly defined functions, rebinding of their names, `Class.attr = ...` or
    setattr(Class, ...) patches"""
    tree = ast.parse(src)
    seen = {}
    for n in tree.body:
        if isinstance(n, (ast.FunctionDef, ast.AsyncFunctionDef)) and n.name in names:
            if n.decorator_list:
                raise TranslateError("function %s is decorated (line %d)" % (n.name, n.lineno))
            if n.name in seen:
                raise TranslateError("function %s is defined twice" % n.name)
            seen[n.name] = n.lineno
    for n in ast.walk(tree):
        tg = []
        if isinstance(n, ast.Assign):
            tg = n.targets
        elif isinstance(n, (ast.AugAssign, ast.AnnAssign)):
            tg = [n.target]
        for t in tg:
            if isinstance(t, ast.Attribute) and isinstance(t.value, ast.Name) and \
                    t.value.id in classes:
                raise TranslateError("%s.%s is rebound (line %d)" % (t.value.id, t.attr,
                                                                      n.lineno))
        if isinstance(n, ast.Call) and isinstance(n.func, ast.Name) and \
                n.func.id in ("setattr", "delattr") and n.args and \
                isinstance(n.args[0], ast.Name) and n.args[0].id in classes:
            raise TranslateError("%s(%s, ...) (line %d)" % (n.func.id, n.args[0].id, n.lineno))
    for n in tree.body:
        tg = n.targets if isinstance(n, ast.Assign) else []
        for t in tg:
            if isinstance(t, ast.Name) and t.id in set(names) | set(classes):
                raise TranslateError("module rebinds %s (line %d)" % (t.id, n.lineno))


def _eval_test(node, names):
    """value of a side-effect free boolean expression over the given names"""
    return eval(compile(ast.Expression(body=node), "<guard>", "eval"),     # noqa: S307
                {"__builtins__": {}}, dict(names))


PATH_METHODS = {"findPlasmaProfile", "findPlasmaProfilePoint", "_intermediatePressureResults",
                "_getNextPressure", "deltaToTmunu", "plasmaVelocity", "temperatureProfileEqLHS",
                "wallPressure"}


def call_site_facts(src, cls_name="EOM"):
    """Facts about the call path wallPressure -> _getNextPressure -> _intermediatePressureResults
    -> findPlasmaProfile -> findPlasmaProfilePoint, extracted from the AST and checked fail
    closed (TranslateError):
      * every `self.m(...)` in the class passes, in each POSITION, either something that is not
        the name of a parameter of m, or exactly the parameter of that position (a variable
        called Tminus is never handed over as Tplus); keywords name existing parameters;
      * findPlasmaProfile is called from exactly one place, guarded by `X is None or Y is None`
        on the two optional profile inputs, with boltzmannResults.Deltas as the moments;
      * wallPressure freezes the profiles only under `not self.forceEnergyConservation`, whose
        constructor default is True and which is stored unchanged."""
    pyrx.check_plain_source(src, classes=[cls_name])
    tree = ast.parse(src)
    cls = [n for n in tree.body if isinstance(n, ast.ClassDef) and n.name == cls_name]
    if len(cls) != 1:
        raise TranslateError("class %s not found exactly once" % cls_name)
    cls = cls[0]
    fns = {f.name: f for f in cls.body if isinstance(f, ast.FunctionDef)}
    facts = dict(calls=0)
    for f in fns.values():
        for c in ast.walk(f):
            if not (isinstance(c, ast.Call) and isinstance(c.func, ast.Attribute) and
                    isinstance(c.func.value, ast.Name) and c.func.value.id == "self" and
                    c.func.attr in fns):
                continue
            g = fns[c.func.attr]
            if g.args.vararg or g.args.kwarg or g.args.posonlyargs:
                continue
            params = [a.arg for a in g.args.args][1:]
            allp = params + [a.arg for a in g.args.kwonlyargs]
            facts["calls"] += 1
            starred = any(isinstance(a, ast.Starred) for a in c.args) or any(
                k.arg is None for k in c.keywords)
            if starred and g.name not in PATH_METHODS:
                continue
            if len(c.args) > len(params) or starred:
                raise TranslateError("call of %s at line %d: positional arguments" % (
                    g.name, c.lineno))
            # any variable named like a parameter of the callee may only occur (however
            # wrapped: float(Tminus), max(Tplus, Tminus), ...) in that parameter's own slot
            for i, a in enumerate(c.args):
                exempt = set()      # arguments of a method of the right object: fields.m(index)
                for y in ast.walk(a):
                    if isinstance(y, ast.Call) and isinstance(y.func, ast.Attribute) and \
                            isinstance(y.func.value, ast.Name) and y.func.value.id == params[i]:
                        for z in y.args + [k_.value for k_ in y.keywords]:
                            exempt |= {id(w) for w in ast.walk(z)}
                for x in ast.walk(a):
                    if id(x) in exempt:
                        continue
                    if isinstance(x, ast.Name) and x.id in allp and params[i] != x.id:
                        raise TranslateError(
                            "call of %s at line %d uses the variable %s for parameter %s" % (
                                g.name, c.lineno, x.id, params[i]))
            for k in c.keywords:
                if k.arg is None or k.arg not in allp:
                    raise TranslateError("call of %s at line %d: keyword %s" % (
                        g.name, c.lineno, k.arg))
                for x in ast.walk(k.value):
                    if isinstance(x, ast.Name) and x.id in allp and x.id != k.arg:
                        raise TranslateError(
                            "call of %s at line %d uses the variable %s for parameter %s" % (
                                g.name, c.lineno, x.id, k.arg))
    # the single call of findPlasmaProfile
    sites = []
    for f in fns.values():
        for n in ast.walk(f):
            if isinstance(n, ast.If):
                for c in ast.walk(ast.Module(body=n.body, type_ignores=[])):
                    if isinstance(c, ast.Call) and ast.unparse(c.func) == "self.findPlasmaProfile":
                        sites.append((f.name, n, c))
    allcalls = [c for f in fns.values() for c in ast.walk(f) if isinstance(c, ast.Call) and
                ast.unparse(c.func) == "self.findPlasmaProfile"]
    if len(allcalls) != 1 or len(sites) < 1:
        raise TranslateError("findPlasmaProfile must be called from exactly one guarded place "
                             "(found %d calls)" % len(allcalls))
    fname, guard, call = sites[-1]          # innermost enclosing If comes last in walk order
    inner = [s_ for s_ in sites if s_[2] is call]
    guard = inner[-1][1]
    gp = [a.arg for a in fns[fname].args.args]
    t = guard.test
    # semantic: over the two optional inputs (None / given) the test is true exactly when one
    # of them is None, whatever its spelling
    names = sorted({x.id for x in ast.walk(t) if isinstance(x, ast.Name)})
    ok = len(names) == 2 and all(n in gp for n in names) and not any(
        isinstance(x, (ast.Call, ast.Attribute, ast.Subscript)) for x in ast.walk(t))
    if ok:
        for va in (None, 1.0):
            for vb in (None, 1.0):
                ok = ok and bool(_eval_test(t, {names[0]: va, names[1]: vb})) == (
                    va is None or vb is None)
    if not ok:
        raise TranslateError("guard of the findPlasmaProfile call (line %d): %s" % (
            guard.lineno, ast.unparse(t)))
    if len(call.args) != 8 or call.keywords or not (
            isinstance(call.args[5], ast.Attribute) and call.args[5].attr == "Deltas"):
        raise TranslateError("arguments of the findPlasmaProfile call (line %d)" % call.lineno)
    facts["findPlasmaProfile_call"] = [ast.unparse(a) for a in call.args]
    facts["findPlasmaProfile_guard"] = ast.unparse(t)
    # the freeze guard of wallPressure
    wp = fns.get("wallPressure")
    if wp is None:
        raise TranslateError("wallPressure not found")
    frozen = 0
    for n in ast.walk(wp):
        if isinstance(n, ast.If):
            stores = {x.id for st in n.body for x in ast.walk(st)
                      if isinstance(x, ast.Name) and isinstance(x.ctx, ast.Store)}
            if stores & {"temperatureProfile", "velocityProfile"}:
                frozen += 1
                attrs = {ast.unparse(x) for x in ast.walk(n.test) if isinstance(x, ast.Attribute)}
                sem = attrs == {"self.forceEnergyConservation"} and not any(
                    isinstance(x, (ast.Call, ast.Subscript)) for x in ast.walk(n.test)) and not \
                    [x for x in ast.walk(n.test) if isinstance(x, ast.Name) and x.id != "self"]
                if sem:
                    for val in (True, False):
                        fake = type("S", (), {"forceEnergyConservation": val})()
                        sem = sem and bool(_eval_test(n.test, {"self": fake})) == (not val)
                if not sem or n.orelse:
                    raise TranslateError("wallPressure freezes the plasma profile under `%s` "
                                         "(line %d)" % (ast.unparse(n.test), n.lineno))
    for n in ast.walk(wp):
        if isinstance(n, ast.Assign) and not isinstance(n.value, ast.Constant):
            for t_ in n.targets:
                if isinstance(t_, ast.Name) and t_.id in ("temperatureProfile",
                                                          "velocityProfile"):
                    par = [m for m in ast.walk(wp) if isinstance(m, ast.If) and n in m.body]
                    if not par:
                        raise TranslateError("wallPressure assigns %s outside the freeze "
                                             "guard (line %d)" % (t_.id, n.lineno))
    facts["freeze_guards"] = frozen
    init = fns.get("__init__")
    dflt = None
    if init is not None:
        a = init.args
        names = [x.arg for x in a.args]
        if "forceEnergyConservation" in names:
            k = names.index("forceEnergyConservation") - (len(names) - len(a.defaults))
            if 0 <= k < len(a.defaults):
                dflt = a.defaults[k]
        st = [n for n in ast.walk(init) if isinstance(n, ast.Assign) and
              ast.unparse(n.targets[0]) == "self.forceEnergyConservation"]
        if len(st) != 1 or ast.unparse(st[0].value) != "forceEnergyConservation":
            raise TranslateError("__init__ does not store forceEnergyConservation unchanged")
    if not (isinstance(dflt, ast.Constant) and dflt.value is True):
        raise TranslateError("default of forceEnergyConservation is not True")
    for f in fns.values():
        for n in ast.walk(f):
            if isinstance(n, ast.Attribute) and isinstance(n.ctx, (ast.Store, ast.Del)) and \
                    isinstance(n.value, ast.Name) and n.value.id == "self" and n.attr in fns:
                raise TranslateError("%s rebinds the method self.%s (line %d)" % (
                    f.name, n.attr, n.lineno))
            if isinstance(n, ast.Call) and isinstance(n.func, ast.Name) and \
                    n.func.id in ("setattr", "delattr") and n.args and \
                    isinstance(n.args[0], ast.Name) and n.args[0].id == "self":
                raise TranslateError("%s uses %s(self, ...) (line %d)" % (f.name, n.func.id,
                                                                         n.lineno))
    stores = [n for f in fns.values() if f.name != "__init__" for n in ast.walk(f)
              if isinstance(n, ast.Attribute) and isinstance(n.ctx, ast.Store) and
              n.attr == "forceEnergyConservation"]
    if stores:
        raise TranslateError("forceEnergyConservation is reassigned (line %d)" % stores[0].lineno)
    return facts


def package_facts(sources):
    """Facts about the rest of the package (dict file name -> text), fail closed:
      * no class in src/WallGo derives from EOM (an override would bypass the model);
      * BoltzmannSolver.setBackground stores a deepcopy of the background it is given and
        then only touches its own copy (wallPressure returns the original object);
      * every construction `EOM(...)` passes includeOffEq / forceEnergyConservation either as
        literals or from `self.config.configEOM.<field>`, and the ConfigEOM default of that
        field is True (conserveEnergyMomentum): the production default enforces conservation."""
    facts = dict(eom_constructions=[])
    cfg_defaults = {}
    for fname, src in sources.items():
        tree = ast.parse(src)
        for n in ast.walk(tree):
            if isinstance(n, ast.ClassDef):
                for b in n.bases:
                    if "EOM" in {x.id for x in ast.walk(b) if isinstance(x, ast.Name)} | {
                            x.attr for x in ast.walk(b) if isinstance(x, ast.Attribute)}:
                        raise TranslateError("%s: class %s derives from EOM" % (fname, n.name))
                if n.name == "ConfigEOM":
                    for st in n.body:
                        if isinstance(st, ast.AnnAssign) and isinstance(st.target, ast.Name):
                            cfg_defaults[st.target.id] = st.value
    bsrc = sources.get("boltzmann.py")
    if bsrc is None:
        raise TranslateError("boltzmann.py not given")
    pyrx.check_plain_source(bsrc, classes=["BoltzmannSolver"])
    sb = [f for c in ast.parse(bsrc).body if isinstance(c, ast.ClassDef) and
          c.name == "BoltzmannSolver" for f in c.body
          if isinstance(f, ast.FunctionDef) and f.name == "setBackground"]
    if len(sb) != 1:
        raise TranslateError("BoltzmannSolver.setBackground not found")
    par = [a.arg for a in sb[0].args.args][1:]
    body = [st for st in sb[0].body if not (isinstance(st, ast.Expr) and isinstance(
        st.value, ast.Constant))]
    ok = len(par) == 1 and body and isinstance(body[0], ast.Assign) and \
        ast.unparse(body[0].targets[0]) == "self.background" and \
        isinstance(body[0].value, ast.Call) and \
        ast.unparse(body[0].value.func) in ("deepcopy", "copy.deepcopy") and \
        [ast.unparse(a) for a in body[0].value.args] == par and not body[0].value.keywords
    for st in body[1:]:
        ok = ok and par[0] not in {x.id for x in ast.walk(st) if isinstance(x, ast.Name)}
    if not ok:
        raise TranslateError("BoltzmannSolver.setBackground does not work on a deepcopy of its "
                             "argument (line %d)" % sb[0].lineno)
    facts["setBackground"] = "self.background = deepcopy(%s)" % par[0]
    for fname, src in sources.items():
        tree = ast.parse(src)
        for f in ast.walk(tree):
            if not isinstance(f, ast.FunctionDef):
                continue
            for c in ast.walk(f):
                if not (isinstance(c, ast.Call) and isinstance(c.func, ast.Name) and
                        c.func.id == "EOM"):
                    continue
                kw = {k.arg: k.value for k in c.keywords}
                rec = dict(file=fname, line=c.lineno)
                for key in ("includeOffEq", "forceEnergyConservation"):
                    v = kw.get(key)
                    if v is None:
                        rec[key] = "constructor default"
                        continue
                    if isinstance(v, ast.Constant) and isinstance(v.value, bool):
                        rec[key] = v.value
                        continue
                    src_expr = None
                    if isinstance(v, ast.Name):
                        asg = [st for st in ast.walk(f) if isinstance(st, ast.Assign) and
                               len(st.targets) == 1 and isinstance(st.targets[0], ast.Name) and
                               st.targets[0].id == v.id]
                        if len(asg) == 1:
                            src_expr = asg[0].value
                    elif isinstance(v, ast.Attribute):
                        src_expr = v
                    txt = ast.unparse(src_expr) if src_expr is not None else ""
                    if not txt.startswith("self.config.configEOM."):
                        raise TranslateError("%s line %d: EOM(%s=%s) is not a literal nor a "
                                             "ConfigEOM field" % (fname, c.lineno, key,
                                                                  ast.unparse(v)))
                    fld = txt.split(".")[-1]
                    d = cfg_defaults.get(fld)
                    if not (isinstance(d, ast.Constant) and isinstance(d.value, bool)):
                        raise TranslateError("ConfigEOM.%s has no literal boolean default" % fld)
                    rec[key] = "ConfigEOM.%s default %s" % (fld, d.value)
                    if key == "forceEnergyConservation" and d.value is not True:
                        raise TranslateError("%s line %d: EOM is built with "
                                             "forceEnergyConservation=ConfigEOM.%s whose default "
                                             "is %s" % (fname, c.lineno, fld, d.value))
                if rec["forceEnergyConservation"] is False:
                    raise TranslateError("%s line %d: EOM built with forceEnergyConservation="
                                         "False" % (fname, c.lineno))
                facts["eom_constructions"].append(rec)
    return facts


PRELUDE = """From Coq Require Import Reals List.
From WG Require Import Lib.NumpySem Lib.Plasma Lib.PlasmaLoop.
Import ListNotations.
Local Open Scope R_scope.
"""


def generate(src_eom, src_helpers, src_hydro, package=None):
    spans = {}
    _plain_module(src_helpers, ["gammaSq"], [])
    _plain_module(src_eom, [], ["EOM"])
    _plain_module(src_hydro, [], ["Hydrodynamics"])
    pyrx.check_plain_source(src_hydro, classes=["Hydrodynamics"])
    facts = call_site_facts(src_eom)
    if package is not None:
        facts["package"] = package_facts(package)
    gdef, sp = module_function(src_helpers, "gammaSq")
    spans["gammaSq"] = ("helpers.py",) + sp
    tr = PlasmaTranslator(src_eom, "EOM", EOM_EXT,
                          ["plasmaVelocity", "temperatureProfileEqLHS", "deltaToTmunu"],
                          funcs=["gammaSq"], vtypes=TYPES, attrs=["errTol"])
    tr.ret_arity = {"deltaToTmunu": 2}
    defs = [tr.method("plasmaVelocity"), tr.method("temperatureProfileEqLHS"),
            tr.method("deltaToTmunu"), tr.method_opt("findPlasmaProfilePoint"),
            tr.array_loop("findPlasmaProfile", "findPlasmaProfilePoint")]
    th = PlasmaTranslator(src_hydro, "Hydrodynamics", HYDRO_EXT, [], prefix="H_",
                          funcs=["gammaSq"])
    hdef = th.tail_slice("findHydroBoundaries", "H_hydroBoundaries", "wHighT",
                         ["vp", "vm", "Tp", "Tm"])
    for k, v in tr.spans.items():
        spans[k] = ("equationOfMotion.py",) + tuple(v)
    for k, v in th.spans.items():
        spans[k] = ("hydrodynamics.py",) + tuple(v)
    out = [PRELUDE, "(* generated from src/WallGo/helpers.py *)", gdef,
           "(* generated from src/WallGo/equationOfMotion.py *)",
           tr.header(extra_vars=EOM_ORACLES)] + defs + [
        "(* generated from src/WallGo/hydrodynamics.py *)", th.header(), hdef]
    info = dict(spans=spans, ignored=tr.ignored, asserts=tr.asserts, facts=facts)
    return "\n".join(out) + "\n", info


if __name__ == "__main__":
    import sys
    import vlib
    text, info = generate(vlib.read_src("equationOfMotion.py"), vlib.read_src("helpers.py"),
                          vlib.read_src("hydrodynamics.py"))
    sys.stdout.write(text)
    sys.stderr.write(repr(info) + "\n")
