"""Facts read off the Python AST for C18 (InterpolatableFunction).

The state machine coq/Model/InterpFun.v is hand-written; the op-sequence differential ties it
to the running class.  This extractor adds a cheap static tie: a handful of structural facts
the model relies on are recomputed from the source on every run and emitted as Coq
definitions; coq/Props/C18.v proves that the model agrees with them (by computation).  Fails
closed (TranslateError) when a method no longer has the expected outline.
"""
import ast
from fractions import Fraction

import gen_helpers
from gen_helpers import TranslateError


def _method(cls, name):
    for st in cls.body:
        if isinstance(st, ast.FunctionDef) and st.name == name:
            return st
    raise TranslateError("method %s not found" % name)


def _is_self_attr(node, attr=None):
    return isinstance(node, ast.Attribute) and isinstance(node.value, ast.Name) and \
        node.value.id == "self" and (attr is None or node.attr == attr)


def _stores(fn):
    """top-level statements of fn as ('store', attr, value) / ('other', stmt), docstring skipped"""
    out = []
    for st in fn.body:
        if isinstance(st, ast.Expr) and isinstance(st.value, ast.Constant) and \
                isinstance(st.value.value, str):
            continue
        if isinstance(st, ast.Assign) and len(st.targets) == 1 and _is_self_attr(st.targets[0]):
            out.append(("store", st.targets[0].attr, st.value, st))
        else:
            out.append(("other", None, None, st))
    return out


def _calls(node, attr):
    """all calls  <anything>.attr(...)  or  attr(...)  below node"""
    res = []
    for n in ast.walk(node):
        if isinstance(n, ast.Call):
            f = n.func
            if (isinstance(f, ast.Attribute) and f.attr == attr) or \
                    (isinstance(f, ast.Name) and f.id == attr):
                res.append(n)
    return res


def _bool(v):
    return "true" if v else "false"


def modes_before_rebuild(cls):
    """setExtrapolationType: both mode attributes are stored before the statement that rebuilds
    the spline"""
    fn = _method(cls, "setExtrapolationType")
    seq = _stores(fn)
    pos = {}
    rebuild = None
    for i, (kind, attr, val, st) in enumerate(seq):
        if kind == "store" and attr in ("extrapolationTypeLower", "extrapolationTypeUpper"):
            if not (isinstance(val, ast.Name) and val.id == attr):
                raise TranslateError("setExtrapolationType stores something else in " + attr)
            pos[attr] = i
        elif _calls(st, "newInterpolationTableFromValues") or _calls(st, "_interpolate"):
            if rebuild is None:
                rebuild = i
    if len(pos) != 2 or rebuild is None:
        raise TranslateError("setExtrapolationType: stores / rebuild not recognised")
    return max(pos.values()) < rebuild


def interpolate_facts(cls):
    """_interpolate: which array the range, the spline knots and the stored points come from,
    and how the extrapolate flag is computed"""
    fn = _method(cls, "_interpolate")
    filtered = None
    for st in fn.body:
        if isinstance(st, ast.Assign) and isinstance(st.targets[0], ast.Tuple) and \
                isinstance(st.value, ast.Call) and isinstance(st.value.func, ast.Attribute) and \
                st.value.func.attr == "_dropBadPoints":
            filtered = [e.id for e in st.targets[0].elts]
    if not filtered or len(filtered) != 2:
        raise TranslateError("_interpolate: _dropBadPoints call not recognised")
    xf = filtered[0]
    facts = {}
    flag_name = None
    for kind, attr, val, st in _stores(fn):
        if kind != "store":
            continue
        if attr in ("_rangeMin", "_rangeMax"):
            want = "min" if attr == "_rangeMin" else "max"
            ok = isinstance(val, ast.Call) and isinstance(val.func, ast.Attribute) and \
                val.func.attr == want and len(val.args) == 1 and \
                isinstance(val.args[0], ast.Name) and val.args[0].id == xf
            facts[attr] = ok
        elif attr == "_interpolationPoints":
            facts[attr] = isinstance(val, ast.Name) and val.id == xf
        elif attr == "_interpolatedFunction":
            ok = isinstance(val, ast.Call) and len(val.args) >= 1 and \
                isinstance(val.args[0], ast.Name) and val.args[0].id == xf
            for kw in val.keywords if isinstance(val, ast.Call) else []:
                if kw.arg == "extrapolate" and isinstance(kw.value, ast.Name):
                    flag_name = kw.value.id
            facts[attr] = ok
    for a in ("_rangeMin", "_rangeMax", "_interpolationPoints", "_interpolatedFunction"):
        if a not in facts:
            raise TranslateError("_interpolate: store to %s not found" % a)
    flag_ok = False
    for st in fn.body:
        if isinstance(st, ast.Assign) and isinstance(st.targets[0], ast.Name) and \
                st.targets[0].id == flag_name:
            v = st.value
            if isinstance(v, ast.Compare) and len(v.ops) == 1 and isinstance(v.ops[0], ast.In) and \
                    isinstance(v.left, ast.Attribute) and v.left.attr == "FUNCTION" and \
                    isinstance(v.comparators[0], ast.Tuple):
                names = sorted(e.attr for e in v.comparators[0].elts if _is_self_attr(e))
                flag_ok = names == ["extrapolationTypeLower", "extrapolationTypeUpper"]
    return (facts["_rangeMin"] and facts["_rangeMax"] and facts["_interpolationPoints"]
            and facts["_interpolatedFunction"]), flag_ok


def adaptive_counts(cls):
    """int(0.2 * n0) with a table, int(n0 / 2) without"""
    fn = _method(cls, "_adaptiveInterpolationUpdate")
    for st in fn.body:
        if isinstance(st, ast.If) and _calls(st.test, "hasInterpolation"):
            def frac(body):
                """the one assignment  appendPointCount = int(<c * n0> | <n0 / c>)  of a branch"""
                asg = [x for x in body if isinstance(x, ast.Assign) and len(x.targets) == 1 and
                       isinstance(x.targets[0], ast.Name) and
                       isinstance(x.value, ast.Call) and isinstance(x.value.func, ast.Name) and
                       x.value.func.id == "int"]
                if len(asg) != 1:
                    raise TranslateError("_adaptiveInterpolationUpdate: branch without a single "
                                         "int(...) assignment")
                v = asg[0].value
                if not isinstance(v.args[0], ast.BinOp):
                    raise TranslateError("_adaptiveInterpolationUpdate: not int(<binop>)")
                bo = v.args[0]
                if isinstance(bo.op, ast.Mult):
                    num = bo.left if isinstance(bo.left, ast.Constant) else bo.right
                    oth = bo.right if num is bo.left else bo.left
                    q = Fraction(repr(num.value))
                elif isinstance(bo.op, ast.Div):
                    num, oth = bo.right, bo.left
                    q = 1 / Fraction(repr(num.value))
                else:
                    raise TranslateError("_adaptiveInterpolationUpdate: unexpected operator")
                if not _is_self_attr(oth, "_initialInterpolationPointCount"):
                    raise TranslateError("_adaptiveInterpolationUpdate: not the initial point count")
                return q
            # without a table: a guard `if <test>: return` -- kind 1: min == max,
            # kind 2: max - min <= c * scale * 2 * appendPointCount  (c a literal)
            guard, gconst = 0, Fraction(0)
            for b in st.orelse:
                if isinstance(b, ast.If):
                    t = b.test
                    if not (isinstance(t, ast.Compare) and len(t.ops) == 1 and len(b.body) == 1 and
                            isinstance(b.body[0], ast.Return) and not b.orelse) or guard:
                        raise TranslateError("_adaptiveInterpolationUpdate: unexpected guard")
                    if isinstance(t.ops[0], ast.Eq):
                        guard = 1
                    elif isinstance(t.ops[0], ast.LtE) and isinstance(t.left, ast.BinOp) and \
                            isinstance(t.left.op, ast.Sub):
                        consts = [n.value for n in ast.walk(t.comparators[0])
                                  if isinstance(n, ast.Constant) and isinstance(n.value, float)]
                        names = sorted(n.id for n in ast.walk(t.comparators[0])
                                       if isinstance(n, ast.Name))
                        if len(consts) != 1 or names != ["appendPointCount", "scale"]:
                            raise TranslateError("_adaptiveInterpolationUpdate: unexpected guard")
                        guard, gconst = 2, Fraction(repr(consts[0]))
                    else:
                        raise TranslateError("_adaptiveInterpolationUpdate: unexpected guard")
                elif not isinstance(b, ast.Assign):
                    raise TranslateError("_adaptiveInterpolationUpdate: unexpected statement")
                elif isinstance(b.targets[0], ast.Name) and b.targets[0].id == "scale":
                    # scale = max(abs(evaluatedPointMin), abs(evaluatedPointMax))
                    if ast.dump(b.value) != ast.dump(ast.parse(
                            "max(abs(evaluatedPointMin), abs(evaluatedPointMax))", mode="eval").body):
                        raise TranslateError("_adaptiveInterpolationUpdate: scale is not "
                                             "max(|min|, |max|) of the pending points")
            if len(st.body) != 1:
                raise TranslateError("_adaptiveInterpolationUpdate: unexpected guard (table branch)")
            return frac(st.body), frac(st.orelse), (guard, gconst)
    raise TranslateError("_adaptiveInterpolationUpdate: if hasInterpolation() not found")


def derivative_call(cls, htree):
    """keywords the class passes to helpers.derivative outside the table, and the default
    accuracy order of helpers.derivative"""
    fn = _method(cls, "derivative")
    kws = None
    for c in _calls(fn, "derivative"):
        if c.args and _is_self_attr(c.args[0], "_evaluateOutOfBounds"):
            kws = sorted(k.arg for k in c.keywords)
            if len(c.args) != 2:
                raise TranslateError("derivative: positional arguments of the out-of-range call")
            # each keyword is handed the method's own parameter: n=order, epsilon=epsilon,
            # scale=scale (not a constant, not another name)
            want = dict(n="order", epsilon="epsilon", scale="scale")
            for k in c.keywords:
                if k.arg in want and not (isinstance(k.value, ast.Name) and
                                          k.value.id == want[k.arg]):
                    kws = ["<%s is not passed through>" % k.arg]
    if kws is None:
        raise TranslateError("derivative: out-of-range helpers.derivative call not found")
    order = None
    for st in htree.body:
        if isinstance(st, ast.FunctionDef) and st.name == "derivative":
            names = [a.arg for a in st.args.args]
            defaults = st.args.defaults
            dmap = dict(zip(names[len(names) - len(defaults):], defaults))
            if "order" in dmap and isinstance(dmap["order"], ast.Constant):
                order = int(dmap["order"].value)
            bounds_default_none = isinstance(dmap.get("bounds"), ast.Constant) and \
                dmap["bounds"].value is None
    if order is None:
        raise TranslateError("helpers.derivative: default order not found")
    return kws, order, bounds_default_none


def resolution(cls):
    """extendInterpolationTable: resolution = <c> * (self._rangeMax - self._rangeMin) and both
    point counts are capped by int(<width> / resolution)"""
    fn = _method(cls, "extendInterpolationTable")
    c = None
    caps = 0
    for st in ast.walk(fn):
        if isinstance(st, ast.Assign) and len(st.targets) == 1 and \
                isinstance(st.targets[0], ast.Name):
            name, v = st.targets[0].id, st.value
            if name == "resolution" and isinstance(v, ast.BinOp) and isinstance(v.op, ast.Mult) \
                    and isinstance(v.left, ast.Constant) and isinstance(v.right, ast.BinOp) and \
                    isinstance(v.right.op, ast.Sub) and _is_self_attr(v.right.left, "_rangeMax") \
                    and _is_self_attr(v.right.right, "_rangeMin"):
                c = Fraction(repr(v.left.value))
            if name in ("pointsMin", "pointsMax") and isinstance(v, ast.Call) and \
                    isinstance(v.func, ast.Name) and v.func.id == "min" and len(v.args) == 2:
                inner = v.args[1]
                if isinstance(inner, ast.Call) and isinstance(inner.func, ast.Name) and \
                        inner.func.id == "int" and isinstance(inner.args[0], ast.BinOp) and \
                        isinstance(inner.args[0].op, ast.Div) and \
                        isinstance(inner.args[0].right, ast.Name) and \
                        inner.args[0].right.id == "resolution":
                    caps += 1
    if c is None or caps != 2:
        raise TranslateError("extendInterpolationTable: resolution cap not recognised")
    uses_arange = bool(_calls(fn, "arange"))
    return c, uses_arange


def generate(src, hsrc):
    tree = ast.parse(src)
    htree = ast.parse(hsrc)
    cls = None
    for st in tree.body:
        if isinstance(st, ast.ClassDef) and st.name == "InterpolatableFunction":
            cls = st
    if cls is None:
        raise TranslateError("class InterpolatableFunction not found")
    tb = gen_helpers.tables(htree)
    kws, order, bnone = derivative_call(cls, htree)

    def zrow(name):
        row = tb[(name, str(order))][0]
        if any(v.denominator != 1 for v in row):
            raise TranslateError("non-integer stencil position")
        return "[" + "; ".join("(%d)" % int(v) for v in row) + "]%Z"
    from_filtered, flag_ok = interpolate_facts(cls)
    fa, fb, skip = adaptive_counts(cls)
    try:
        res, uses_arange = resolution(cls)
    except TranslateError:
        # older outline (no cap): the fact is emitted as FALSE, so facts_agree breaks while the
        # theorems about the model still compile
        res, uses_arange = Fraction(0), bool(_calls(_method(cls, "extendInterpolationTable"),
                                                    "arange"))
    lines = [
        "(* generated from src/WallGo/interpolatableFunction.py and helpers.py -- do not edit *)",
        "From Coq Require Import List ZArith QArith Bool.",
        "Import ListNotations.",
        "(* central rows of FIRST/SECOND_DERIV_POS[default order], used when no bounds are given *)",
        "Definition src_fd_order : nat := %d." % order,
        "Definition src_stencil1 : list Z := %s." % zrow("FIRST_DERIV_POS"),
        "Definition src_stencil2 : list Z := %s." % zrow("SECOND_DERIV_POS"),
        "(* the out-of-range derivative passes only n, epsilon, scale (no bounds, order, dx) *)",
        "Definition src_fd_call_plain : bool := %s." % _bool(
            kws == ["epsilon", "n", "scale"] and bnone),
        "(* setExtrapolationType stores both modes before it rebuilds the spline *)",
        "Definition src_modes_before_rebuild : bool := %s." % _bool(modes_before_rebuild(cls)),
        "(* _interpolate: range, knots and stored points all come from the FILTERED abscissae *)",
        "Definition src_range_from_filtered : bool := %s." % _bool(from_filtered),
        "(* extrapolate flag = FUNCTION in (lower mode, upper mode) *)",
        "Definition src_flag_is_function_mode : bool := %s." % _bool(flag_ok),
        "(* points appended by an adaptive update: int(c * n0) *)",
        "Definition src_append_frac_table : Q := (%d # %d)." % (fa.numerator, fa.denominator),
        "Definition src_append_frac_notable : Q := (%d # %d)." % (fb.numerator, fb.denominator),
        "(* no table and pending points that cannot seed a table: the update returns without one *)",
        "(* 0: none; 1: `min == max`; 2: `max - min <= c * scale * 2 * appendPointCount` *)",
        "Definition src_notable_guard : nat := %d." % skip[0],
        "Definition src_notable_guard_const : Q := (%d # %d)." % (skip[1].numerator,
                                                                  skip[1].denominator),
        "(* an extension appends at most int(width / (c * table width)) points, built by linspace *)",
        "Definition src_resolution : Q := (%d # %d)." % (res.numerator, res.denominator),
        "Definition src_extend_no_arange : bool := %s." % _bool(not uses_arange),
    ]
    return "\n".join(lines) + "\n"
