"""Generated model of WallGo.BoltzmannSolver.buildLinearEquations (C12).

Everything here is re-derived from the Python AST on every run and fails closed
(pyrx.TranslateError) on any construct outside the subset.

1. Broadcast translator.  `buildLinearEquations` is numpy broadcasting code; every array
   valued local becomes ONE Coq definition `b_<name> e <opaque arrays> i0 i1 ... : R` of its
   value at an index tuple (only the axes that are not size-1 broadcast axes get an index).
   Subscripts built from `None`, `:` and `1:-1` are translated into the index plumbing
   (new broadcast axis / same index / index shifted by one), so WHICH index of the
   8-index operator every factor is attached to is part of the generated text.
   The arrays assigned inside `if self.derivatives == "Spectral": ... else: ...` are the
   mode dependent data (three profile derivatives, intertwiner and derivative matrices);
   they are parameters of the generated definitions (alphabetical order), with their
   broadcast shape read off the subscripts in BOTH branches (which must agree).
   External leaves (profiles, grid coordinates, collision array ...) are fields of `env`.
2. Def-use facts of the two derivative branches: for each mode and each of dTemperaturedChi,
   dvdChi, dMsqdChi, the background profiles it is computed from and whether the chain
   passes through a derivative operator (`.derivative(...)`, findiff.FinDiff).
3. Aliasing facts of BoltzmannSolver.setBackground (copy kind, which object is boosted) and
   of EOM.getBoltzmannFiniteDifference (how the solver it mutates was
   obtained from self.boltzmannSolver, which mutations it performs) and of
   CollisionArray.changeBasis (in place or not).
"""
import ast

import pyrx
from pyrx import TranslateError, const_value, rlit

# ------------------------------------------------------------------------------------
# external leaves: python expression -> (env field, rank)

LEAVES = [
    ("self.background.temperatureProfile", "Tprof", 1),
    ("self.background.velocityProfile", "vprof", 1),
    ("self.background.velocityWall", "vwall", 0),
    ("np.array([particle.msqVacuum(self.background.fieldProfiles) for particle in particles])",
     "msqprof", 2),
    ("np.array([-1 if particle.statistics == 'Fermion' else 1 for particle in particles])",
     "stat", 1),
    ("self.collisionMultiplier", "cmult", 0),
    ("self.collisionArray", "coll", 6),
    ("BoltzmannSolver.MAX_EXPONENT", "maxexp", 0),
]
TUPLE_LEAVES = [
    ("self.grid.getCoordinates()", [("xiv", 1), ("pzv", 1), ("ppv", 1)]),
    ("self.grid.getCompactificationDerivatives()",
     [("dxidchi", 1), ("dpzdrz", 1), ("dppdrp", 1)]),
]
# base rank of the expressions that produce the mode dependent matrices
RANK2_CALLS = ("identity", "matrix", "derivMatrix", "toarray")
NP1 = {"sqrt": "sqrt", "exp": "exp", "log": "ln", "abs": "Rabs"}


def _dump(src):
    return ast.dump(ast.parse(src, mode="eval").body)


class Arr:
    """symbolic array: ext[i] says whether axis i is a real (indexed) axis or a size-1
    broadcast axis; fn(list of index terms, one per axis) -> Coq term of type R;
    deps = set of mode dependent (opaque) arrays the value depends on"""

    def __init__(self, ext, fn, deps=()):
        self.ext = list(ext)
        self.fn = fn
        self.deps = frozenset(deps)

    @property
    def rank(self):
        return len(self.ext)


class Poison:
    def __init__(self, msg):
        self.msg = msg


def scalar(term, deps=()):
    return Arr([], lambda idx: term, deps)


def broadcast(op, *arrs):
    r = max(a.rank for a in arrs)
    ext = [False] * r
    for a in arrs:
        off = r - a.rank
        for i, x in enumerate(a.ext):
            ext[off + i] = ext[off + i] or x

    def fn(idx, arrs=arrs, r=r):
        parts = []
        for a in arrs:
            off = r - a.rank
            parts.append(a.fn(idx[off:]))
        return op(*parts)
    deps = frozenset().union(*[a.deps for a in arrs])
    return Arr(ext, fn, deps)


class BoltzTranslator:
    def __init__(self, src):
        self.src = src
        tree = ast.parse(src)
        self.cls = None
        for n in tree.body:
            if isinstance(n, ast.ClassDef) and n.name == "BoltzmannSolver":
                self.cls = n
        if self.cls is None:
            raise TranslateError("class BoltzmannSolver not found")
        self.fn = {f.name: f for f in self.cls.body if isinstance(f, ast.FunctionDef)}
        self.leaf = {_dump(s): (nm, rk) for s, nm, rk in LEAVES}
        self.tleaf = {_dump(s): parts for s, parts in TUPLE_LEAVES}
        self.used_leaves = {}
        self.defs = []            # (coq name, binders text, body)
        self.names = {}           # python name -> number of versions
        self.opaque = {}          # name -> ext list
        self.spans = {}
        self.facts = {}
        self.sigs = {}            # coq name -> (deps sorted, number of indices)
        self.static = {}

    # -- leaves ------------------------------------------------------------------------
    def leaf_arr(self, nm, rk):
        self.used_leaves[nm] = rk
        return Arr([True] * rk, lambda idx, nm=nm: "(%s e%s)" % (
            nm, "".join(" " + i for i in idx)) if idx else "(%s e)" % nm)

    # -- expressions -------------------------------------------------------------------
    def use(self, v, node):
        if isinstance(v, Poison):
            raise TranslateError("needs untranslatable value: %s" % v.msg)
        return v

    def expr(self, node, env):
        d = ast.dump(node)
        if d in self.leaf:
            return self.leaf_arr(*self.leaf[d])
        c = const_value(node)
        if c is not None:
            return scalar(rlit(c))
        if isinstance(node, ast.Name):
            if node.id not in env:
                raise TranslateError("unbound name %s (line %d)" % (node.id, node.lineno))
            return self.use(env[node.id], node)
        if isinstance(node, ast.UnaryOp) and isinstance(node.op, ast.USub):
            return broadcast(lambda a: "(- %s)" % a, self.expr(node.operand, env))
        if isinstance(node, ast.BinOp):
            if isinstance(node.op, ast.Pow):
                n = const_value(node.right)
                if n is None or n.denominator != 1 or n < 0:
                    raise TranslateError("power with non-literal exponent (line %d)" %
                                         node.lineno)
                return broadcast(lambda a, n=int(n): "(%s ^ %d)" % (a, n),
                                 self.expr(node.left, env))
            op = {ast.Add: "+", ast.Sub: "-", ast.Mult: "*", ast.Div: "/"}.get(
                type(node.op))
            if op is None:
                raise TranslateError("operator %s (line %d)" % (type(node.op).__name__,
                                                                node.lineno))
            return broadcast(lambda a, b, op=op: "(%s %s %s)" % (a, op, b),
                             self.expr(node.left, env), self.expr(node.right, env))
        if isinstance(node, ast.Subscript):
            return self.subscript(node, env)
        if isinstance(node, ast.Compare) and len(node.ops) == 1:
            raise TranslateError("comparison outside np.where (line %d)" % node.lineno)
        if isinstance(node, ast.Call):
            return self.call(node, env)
        raise TranslateError("expression %s (line %d): %s" % (
            type(node).__name__, getattr(node, "lineno", 0), ast.unparse(node)[:60]))

    def test(self, node, env):
        if isinstance(node, ast.Compare) and len(node.ops) == 1:
            a = self.expr(node.left, env)
            b = self.expr(node.comparators[0], env)
            op = type(node.ops[0])
            if op is ast.Gt:
                return broadcast(lambda x, y: "Rlt_dec %s %s" % (y, x), a, b)
            if op is ast.Lt:
                return broadcast(lambda x, y: "Rlt_dec %s %s" % (x, y), a, b)
            if op is ast.GtE:
                return broadcast(lambda x, y: "Rle_dec %s %s" % (y, x), a, b)
            if op is ast.LtE:
                return broadcast(lambda x, y: "Rle_dec %s %s" % (x, y), a, b)
        raise TranslateError("test %s (line %d)" % (ast.unparse(node)[:50], node.lineno))

    def call(self, node, env):
        f = node.func
        fs = ast.unparse(f)
        if fs in ("np.%s" % k for k in NP1) and len(node.args) == 1 and not node.keywords:
            g = NP1[fs[3:]]
            return broadcast(lambda a, g=g: "(%s %s)" % (g, a), self.expr(node.args[0], env))
        if fs == "np.asarray" and len(node.args) == 1 and not node.keywords:
            return self.expr(node.args[0], env)
        if fs == "np.where" and len(node.args) == 3 and not node.keywords:
            t = self.test(node.args[0], env)
            return broadcast(lambda c, a, b: "(if %s then %s else %s)" % (c, a, b), t,
                             self.expr(node.args[1], env), self.expr(node.args[2], env))
        if fs == "np.identity" and len(node.args) == 1 and not node.keywords:
            return Arr([True, True], lambda idx: "(kron %s %s)" % (idx[0], idx[1]))
        if fs == "np.reshape":
            kw = {k.arg: k.value for k in node.keywords}
            if len(node.args) != 2 or set(kw) != {"order"} or \
                    not (isinstance(kw["order"], ast.Constant) and kw["order"].value == "C"):
                raise TranslateError("np.reshape must be (x, shape, order='C') (line %d)" %
                                     node.lineno)
            a = self.expr(node.args[0], env)
            self.facts.setdefault("reshapeC", []).append(ast.unparse(node.args[0]))
            return a      # same numbers, C-order flattening of the same index tuple
        if fs.startswith("BoltzmannSolver.") and f.attr in self.static and not node.keywords:
            nm, nargs = self.static[f.attr]
            if nargs != len(node.args):
                raise TranslateError("arity of %s (line %d)" % (fs, node.lineno))
            return broadcast(lambda *a, nm=nm: "(%s e %s)" % (nm, " ".join(a)),
                             *[self.expr(a, env) for a in node.args])
        raise TranslateError("call %s (line %d)" % (ast.unparse(node)[:60], node.lineno))

    def subscript(self, node, env):
        base = self.expr(node.value, env)
        sl = node.slice
        elts = list(sl.elts) if isinstance(sl, ast.Tuple) else [sl]
        plan = []       # per result axis: ("new",) | ("keep", base axis, shift)
        k = 0
        for e in elts:
            if isinstance(e, ast.Constant) and e.value is None:
                plan.append(("new",))
                continue
            if not isinstance(e, ast.Slice) or e.step is not None:
                raise TranslateError("subscript element %s (line %d)" % (
                    ast.unparse(e), node.lineno))
            if k >= base.rank:
                raise TranslateError("too many indices in %s (line %d)" % (
                    ast.unparse(node)[:50], node.lineno))
            if e.lower is None and e.upper is None:
                plan.append(("keep", k, 0))
            elif const_value(e.lower) == 1 and e.upper is not None and \
                    const_value(e.upper) == -1:
                plan.append(("keep", k, 1))
            else:
                raise TranslateError("slice %s (line %d)" % (ast.unparse(e), node.lineno))
            k += 1
        while k < base.rank:
            plan.append(("keep", k, 0))
            k += 1
        ext = [False if p[0] == "new" else base.ext[p[1]] for p in plan]

        def fn(idx, plan=plan, base=base):
            bidx = [None] * base.rank
            for p, i in zip(plan, idx):
                if p[0] == "keep":
                    bidx[p[1]] = "(S %s)" % i if p[2] else i
            return base.fn(bidx)
        return Arr(ext, fn, base.deps)

    # -- definitions -------------------------------------------------------------------
    def define(self, pyname, arr):
        """emit a Coq definition for the array bound to `pyname`; returns the Arr that
        refers to it"""
        k = self.names.get(pyname, 0)
        self.names[pyname] = k + 1
        cn = "b_%s%s" % (pyname, "'" * k)
        nidx = sum(1 for x in arr.ext if x)
        ivars = ["i%d" % j for j in range(arr.rank)]
        body = arr.fn(ivars)
        deps = sorted(arr.deps)
        binders = "(e : env)" + "".join(" (%s : %s)" % (d, self.opaque_type(d)) for d in deps)
        used = [v for v, x in zip(ivars, arr.ext) if x]
        if used:
            binders += " (%s : nat)" % " ".join(used)
        self.defs.append("Definition %s %s : R :=\n  %s." % (cn, binders, body))
        self.sigs[cn] = (deps, nidx)

        def fn(idx, cn=cn, ext=arr.ext, deps=deps):
            args = [i for i, x in zip(idx, ext) if x]
            return "(%s e%s%s)" % (cn, "".join(" " + d for d in deps),
                                   "".join(" " + a for a in args))
        return Arr(arr.ext, fn, arr.deps), cn

    def opaque_type(self, name):
        n = sum(1 for x in self.opaque[name] if x)
        return " -> ".join(["nat"] * n + ["R"])

    def opaque_arr(self, name):
        ext = self.opaque[name]

        def fn(idx, name=name, ext=ext):
            args = [i for i, x in zip(idx, ext) if x]
            return "(%s%s)" % (name, "".join(" " + a for a in args)) if args else name
        return Arr(ext, fn, [name])

    # -- shape of the mode dependent arrays ------------------------------------------
    def shape_of(self, node):
        """broadcast shape of an expression assigned in a derivative-mode branch"""
        def base_rank(n):
            if isinstance(n, ast.Call):
                f = n.func
                nm = f.attr if isinstance(f, ast.Attribute) else getattr(f, "id", "")
                if nm in RANK2_CALLS:
                    return 2
            return None
        if isinstance(node, ast.Subscript):
            sl = node.slice
            elts = list(sl.elts) if isinstance(sl, ast.Tuple) else [sl]
            ext = []
            nsl = 0
            for e in elts:
                if isinstance(e, ast.Constant) and e.value is None:
                    ext.append(False)
                elif isinstance(e, ast.Slice) and e.step is None and (
                        (e.lower is None and e.upper is None) or
                        (const_value(e.lower) == 1 and e.upper is not None and
                         const_value(e.upper) == -1)):
                    ext.append(True)
                    nsl += 1
                else:
                    raise TranslateError("mode branch subscript %s (line %d)" % (
                        ast.unparse(e), node.lineno))
            br = base_rank(node.value)
            if br is not None:
                ext += [True] * (br - nsl)
            return ext
        br = base_rank(node)
        if br is not None:
            return [True] * br
        return None

    def mode_if(self, st, env):
        t = st.test
        if not (isinstance(t, ast.Compare) and ast.unparse(t.left) == "self.derivatives"
                and len(t.ops) == 1 and isinstance(t.ops[0], ast.Eq)
                and isinstance(t.comparators[0], ast.Constant)
                and t.comparators[0].value == "Spectral"):
            raise TranslateError("unexpected if-statement (line %d)" % st.lineno)
        shapes = []
        for branch in (st.body, st.orelse):
            sh = {}
            for s in branch:
                if not (isinstance(s, ast.Assign) and len(s.targets) == 1 and
                        isinstance(s.targets[0], ast.Name)):
                    if isinstance(s, ast.Assign) and isinstance(s.targets[0], ast.Tuple):
                        for e in s.targets[0].elts:
                            if isinstance(e, ast.Name):
                                sh[e.id] = None
                        continue
                    raise TranslateError("statement in derivative-mode branch (line %d)" %
                                         s.lineno)
                sh[s.targets[0].id] = self.shape_of(s.value)
            shapes.append(sh)
        common = sorted(set(shapes[0]) & set(shapes[1]))
        self.facts["mode_branches"] = dict(spectral=(st.body[0].lineno, st.body[-1].end_lineno),
                                           finite_difference=(st.orelse[0].lineno,
                                                              st.orelse[-1].end_lineno))
        for nm in set(shapes[0]) | set(shapes[1]):
            if nm in common and shapes[0][nm] is not None and shapes[0][nm] == shapes[1][nm]:
                self.opaque[nm] = shapes[0][nm]
                env[nm] = self.opaque_arr(nm)
            else:
                env[nm] = Poison("%s has no common broadcast shape in the two derivative "
                                 "modes (%r vs %r)" % (nm, shapes[0].get(nm),
                                                       shapes[1].get(nm)))

    # -- static elementwise helper ----------------------------------------------------
    def static_method(self, name):
        fn = self.fn.get(name)
        if fn is None:
            raise TranslateError("method %s not found" % name)
        params = [a.arg for a in fn.args.args]
        env = {p: scalar(p) for p in params}
        body = None
        for st in fn.body:
            if isinstance(st, ast.Expr) and isinstance(st.value, ast.Constant):
                continue
            if isinstance(st, ast.Assign) and len(st.targets) == 1 and \
                    isinstance(st.targets[0], ast.Name):
                env[st.targets[0].id] = self.expr(st.value, env)
                continue
            if isinstance(st, ast.Return):
                body = self.expr(st.value, env).fn([])
                break
            raise TranslateError("statement in %s (line %d)" % (name, st.lineno))
        if body is None:
            raise TranslateError("%s does not return" % name)
        cn = "b_%s" % name
        self.defs.append("Definition %s (e : env) %s : R :=\n  %s." % (
            cn, " ".join("(%s : R)" % p for p in params), body))
        self.static[name] = (cn, len(params))
        self.spans[cn] = (fn.lineno, fn.end_lineno, pyrx._sha(ast.unparse(fn)))

    # -- the method --------------------------------------------------------------------
    def build(self):
        self.static_method("_feq")
        self.static_method("_dfeq")
        fn = self.fn.get("buildLinearEquations")
        if fn is None:
            raise TranslateError("buildLinearEquations not found")
        self.spans["buildLinearEquations"] = (fn.lineno, fn.end_lineno,
                                              pyrx._sha(ast.unparse(fn)))
        env = {}
        ret = None
        for st in fn.body:
            if isinstance(st, ast.Expr) and isinstance(st.value, ast.Constant):
                continue
            if isinstance(st, ast.If):
                self.mode_if(st, env)
                continue
            if isinstance(st, ast.Return):
                ret = st
                break
            if not (isinstance(st, ast.Assign) and len(st.targets) == 1):
                raise TranslateError("statement %s (line %d)" % (type(st).__name__,
                                                                 st.lineno))
            tg = st.targets[0]
            if isinstance(tg, ast.Tuple):
                parts = self.tleaf.get(ast.dump(st.value))
                if parts is None or len(parts) != len(tg.elts):
                    for e in tg.elts:
                        env[e.id] = Poison("tuple assignment from %s (line %d)" % (
                            ast.unparse(st.value)[:40], st.lineno))
                    continue
                for e, (nm, rk) in zip(tg.elts, parts):
                    if not isinstance(e, ast.Name):
                        raise TranslateError("unpack target (line %d)" % st.lineno)
                    if e.id != "_":
                        env[e.id], _ = self.define(e.id, self.leaf_arr(nm, rk))
                continue
            if not isinstance(tg, ast.Name):
                raise TranslateError("assignment target %s (line %d)" % (
                    ast.unparse(tg), st.lineno))
            try:
                val = self.expr(st.value, env)
            except TranslateError as ex:
                env[tg.id] = Poison(str(ex))
                continue
            env[tg.id], _ = self.define(tg.id, val)
        if ret is None or not isinstance(ret.value, ast.Tuple) or \
                [ast.unparse(e) for e in ret.value.elts] != ["operator", "source",
                                                            "liouville", "collision"]:
            raise TranslateError("buildLinearEquations must return operator, source, "
                                 "liouville, collision")
        out = {}
        for nm in ("operator", "source", "liouville", "collision"):
            a = self.use(env.get(nm, Poison("%s is never assigned" % nm)), ret)
            want = 8 if nm != "source" else 4
            if a.rank != want or not all(a.ext):
                raise TranslateError("%s has broadcast shape %r, expected %d full axes" % (
                    nm, a.ext, want))
            ivars = ["a", "al", "be", "ga", "b", "i", "j", "k"][:want]
            deps = sorted(a.deps)
            self.defs.append("Definition %s_k (e : env)%s (%s : nat) : R :=\n  %s." % (
                nm, "".join(" (%s : %s)" % (d, self.opaque_type(d)) for d in deps),
                " ".join(ivars), a.fn(ivars)))
            out[nm] = deps
            self.sigs[nm + "_k"] = (deps, want)
        return out

    def header(self):
        fields = []
        for nm, rk in sorted(self.used_leaves.items()):
            fields.append("%s : %s" % (nm, " -> ".join(["nat"] * rk + ["R"])))
        return "Record env := mk_env { %s }." % ";\n  ".join(fields)

    def ones_env(self):
        """an inhabitant of env (every leaf constantly 1): for satisfiability Examples"""
        names = sorted(self.used_leaves)
        return "Definition env_ones : env :=\n  mk_env %s." % " ".join(
            "(%s1)" % ("fun %s => " % " ".join(["_"] * self.used_leaves[n])
                       if self.used_leaves[n] else "") for n in names)

    EXAMPLE = {"vprof": "(3 / 5)", "pzv": "0", "ppv": "0", "maxexp": "1000", "vwall": "(1 / 2)"}

    def example_env(self):
        """a physically sensible inhabitant of env (T = m^2 = 1, v = 3/5, vw = 1/2, p = 0, bosons)
        on which the hypotheses of source_is_minus_liouville_of_equilibrium are checked"""
        names = sorted(self.used_leaves)
        return "Definition env_example : env :=\n  mk_env %s." % " ".join(
            "(%s%s)" % ("fun %s => " % " ".join(["_"] * self.used_leaves[n])
                        if self.used_leaves[n] else "", self.EXAMPLE.get(n, "1")) for n in names)

    def setter(self, field):
        """record update of one env field + the projection lemmas (rewrite db)"""
        names = sorted(self.used_leaves)
        if field not in names:
            raise TranslateError("leaf %s is not used by buildLinearEquations" % field)
        ty = " -> ".join(["nat"] * self.used_leaves[field] + ["R"])
        out = ["Definition with_%s (c : %s) (e : env) : env :=\n  mk_env %s." % (
            field, ty, " ".join("c" if n == field else "(%s e)" % n for n in names))]
        for n in names:
            out.append("Lemma %s_with_%s c e : %s (with_%s c e) = %s.\nProof. reflexivity. "
                       "Qed.\n#[export] Hint Rewrite %s_with_%s : with_%s_db." % (
                           n, field, n, field, "c" if n == field else "%s e" % n,
                           n, field, field))
        return "\n".join(out)


# ------------------------------------------------------------------------------------
# def-use facts of the two derivative branches

PROFILE_ROOTS = {"self.background.temperatureProfile": "PT",
                 "self.background.velocityProfile": "PV",
                 "self.background.fieldProfiles": "PM"}
TARGETS = [("dTemperaturedChi", "DT"), ("dvdChi", "DV"), ("dMsqdChi", "DM")]


def _stores(st):
    return [n.id for n in ast.walk(st) if isinstance(n, ast.Name) and
            isinstance(n.ctx, ast.Store)]


def _loads(node):
    """names loaded by an expression, not counting comprehension-bound variables"""
    bound = set()
    for n in ast.walk(node):
        if isinstance(n, ast.comprehension):
            for m in ast.walk(n.target):
                if isinstance(m, ast.Name):
                    bound.add(m.id)
    return [n.id for n in ast.walk(node) if isinstance(n, ast.Name) and
            isinstance(n.ctx, ast.Load) and n.id not in bound]


def _roots(node):
    """profile roots and derivative-operator marks appearing directly in an expression"""
    prof, deriv = set(), False
    for n in ast.walk(node):
        if isinstance(n, ast.Attribute):
            s = ast.unparse(n)
            if s in PROFILE_ROOTS:
                prof.add(PROFILE_ROOTS[s])
        if isinstance(n, ast.Call):
            f = n.func
            if isinstance(f, ast.Attribute) and f.attr == "derivative":
                deriv = True
            if ast.unparse(f) in ("findiff.FinDiff", "FinDiff"):
                deriv = True
    return prof, deriv


def derivative_facts(src):
    tree = ast.parse(src)
    fn = None
    for n in ast.walk(tree):
        if isinstance(n, ast.FunctionDef) and n.name == "buildLinearEquations":
            fn = n
    if fn is None:
        raise TranslateError("buildLinearEquations not found")
    prefix, mode_if = [], None
    for st in fn.body:
        if isinstance(st, ast.If) and "self.derivatives" in ast.unparse(st.test):
            mode_if = st
            break
        prefix.append(st)
    if mode_if is None:
        raise TranslateError("derivative-mode if not found")
    facts = []
    for mode, branch in (("Spectral", mode_if.body), ("FiniteDiff", mode_if.orelse)):
        stmts = prefix + list(branch)
        for py, coq in TARGETS:
            # last assignment of the target in the branch
            pos = None
            for k in range(len(stmts) - 1, len(prefix) - 1, -1):
                if isinstance(stmts[k], ast.Assign) and py in _stores(stmts[k]):
                    pos = k
                    break
            if pos is None:
                raise TranslateError("%s is not assigned in the %s branch" % (py, mode))
            prof, deriv = set(), False
            seen = set()
            work = [(pos, stmts[pos].value)]
            while work:
                p, node = work.pop()
                pr, dv = _roots(node)
                prof |= pr
                deriv = deriv or dv
                for nm in _loads(node):
                    # reaching definition: the latest assignment strictly before p
                    for k in range(p - 1, -1, -1):
                        s = stmts[k]
                        if isinstance(s, (ast.Assign, ast.AugAssign, ast.AnnAssign)) and \
                                nm in _stores(s):
                            if (k, nm) not in seen:
                                seen.add((k, nm))
                                work.append((k, s.value))
                            break
            along = _along_chi(mode, py, stmts, pos, seen)
            facts.append((mode, coq, sorted(prof), deriv, py, stmts[pos].lineno, along))
    return facts


def _last_def(stmts, pos, name):
    for k in range(pos - 1, -1, -1):
        s = stmts[k]
        if isinstance(s, ast.Assign) and name in _stores(s):
            return k, s
    return None, None


def _along_chi(mode, py, stmts, pos, seen):
    """the derivative operator of the def-use chain acts along chi and the result is cut
    [1:-1] on the position axis, nowhere else"""
    val = stmts[pos].value
    # outermost subscript: position axis (index 1) sliced 1:-1, the others None or `:`
    if not isinstance(val, ast.Subscript):
        return False
    sl = val.slice
    elts = list(sl.elts) if isinstance(sl, ast.Tuple) else [sl]
    if len(elts) != 4:
        return False
    for k, e in enumerate(elts):
        if k == 1:
            if not (isinstance(e, ast.Slice) and e.step is None and const_value(e.lower) == 1
                    and e.upper is not None and const_value(e.upper) == -1):
                return False
        elif isinstance(e, ast.Constant) and e.value is None:
            continue
        elif k == 0 and isinstance(e, ast.Slice) and e.lower is None and e.upper is None \
                and e.step is None and py == "dMsqdChi":
            continue
        else:
            return False
    names = {nm for (_, nm) in seen} | set(_loads(val))
    if mode == "Spectral":
        # <poly>.derivative(k).coefficients with direction[k] == "z", basis[k] == "Cardinal"
        base = val.value
        if not (isinstance(base, ast.Attribute) and base.attr == "coefficients" and
                isinstance(base.value, ast.Call) and isinstance(base.value.func, ast.Attribute)
                and base.value.func.attr == "derivative" and
                isinstance(base.value.func.value, ast.Name) and len(base.value.args) == 1
                and not base.value.keywords):
            return False
        axis = const_value(base.value.args[0])
        _, d = _last_def(stmts, pos, base.value.func.value.id)
        if d is None or axis is None or not (isinstance(d.value, ast.Call) and
                                             ast.unparse(d.value.func) == "Polynomial" and
                                             len(d.value.args) == 5 and not d.value.keywords):
            return False
        def aslist(n):
            if isinstance(n, ast.Constant):
                return [n.value]
            if isinstance(n, ast.Tuple):
                return [e.value if isinstance(e, ast.Constant) else None for e in n.elts]
            return None
        bas, dirs = aslist(d.value.args[2]), aslist(d.value.args[3])
        ep = d.value.args[4]
        k = int(axis)
        # the polynomial is built from the bare profile variable (no reversal, slicing, ...)
        if not isinstance(d.value.args[0], ast.Name):
            return False
        return bool(bas and dirs and len(bas) == len(dirs) and 0 <= k < len(dirs) and
                    dirs[k] == "z" and bas[k] == "Cardinal" and
                    isinstance(ep, ast.Constant) and ep.value is True and
                    ast.unparse(d.value.args[1]) == "self.grid")
    # finite differences: through the findiff matrix built on the chi grid (first element of
    # getCompactCoordinates(endpoints=True)), never the rz one
    if "derivMatrixChi" not in names or "derivMatrixRz" in names:
        return False
    # ... applied in one of the recognised ways: D @ profile (rank 1), or for the
    # (particle, position) array the broadcast sum over the last axis / einsum('ij,aj->ai')
    inner = ast.unparse(val.value)
    prof = {"dTemperaturedChi": "temperatureFull", "dvdChi": "vFull",
            "dMsqdChi": "msqFull"}[py]
    if py == "dMsqdChi":
        ok_forms = ("np.sum(derivMatrixChi.toarray()[None, :, :] * msqFull[:, None, :], axis=-1)",
                    "np.einsum('ij,aj->ai', derivMatrixChi.toarray(), msqFull)")
    else:
        ok_forms = ("derivMatrixChi @ %s" % prof,)
    if inner not in ok_forms:
        return False
    kp, dp = _last_def(stmts, pos, prof)
    if dp is None or isinstance(dp.value, ast.Subscript) or (
            isinstance(dp.value, ast.Call) and ast.unparse(dp.value.func) != "np.array"):
        return False
    k, d = _last_def(stmts, pos, "derivMatrixChi")
    if d is None or not (isinstance(d.value, ast.Call) and isinstance(d.value.func, ast.Attribute)
                         and d.value.func.attr == "matrix" and
                         isinstance(d.value.func.value, ast.Name)):
        return False
    k2, op = _last_def(stmts, k, d.value.func.value.id)
    if op is None or not (isinstance(op.value, ast.Call) and
                          ast.unparse(op.value.func) in ("findiff.FinDiff", "FinDiff") and
                          len(op.value.args) == 1 and isinstance(op.value.args[0], ast.Tuple) and
                          len(op.value.args[0].elts) == 3 and
                          [(k_.arg, ast.unparse(k_.value)) for k_ in op.value.keywords]
                          == [("acc", "2")]):
        return False
    ax, gridname, order = op.value.args[0].elts
    if not (const_value(ax) == 0 and const_value(order) == 1 and isinstance(gridname, ast.Name)):
        return False
    k3, g = _last_def(stmts, k2, gridname.id)
    return bool(g is not None and isinstance(g.targets[0], ast.Tuple) and
                isinstance(g.targets[0].elts[0], ast.Name) and
                g.targets[0].elts[0].id == gridname.id and
                ast.unparse(g.value) == "self.grid.getCompactCoordinates(endpoints=True)")


# ------------------------------------------------------------------------------------
# aliasing facts of the finite-difference cross-check

def fd_copy_facts(eom_src, coll_src):
    tree = ast.parse(eom_src)
    fn = None
    for n in ast.walk(tree):
        if isinstance(n, ast.FunctionDef) and n.name == "getBoltzmannFiniteDifference":
            fn = n
    if fn is None:
        raise TranslateError("EOM.getBoltzmannFiniteDifference not found")
    OWNER = "self.boltzmannSolver"
    var, kind = None, None
    ops = []
    for st in fn.body:
        if isinstance(st, ast.Expr) and isinstance(st.value, ast.Constant):
            continue
        if isinstance(st, ast.Assert):
            continue
        if isinstance(st, ast.Assign) and len(st.targets) == 1:
            tg, val = st.targets[0], st.value
            if isinstance(tg, ast.Name) and var is None:
                s = ast.unparse(val)
                if s in ("copy.deepcopy(%s)" % OWNER, "deepcopy(%s)" % OWNER):
                    var, kind = tg.id, "Deep"
                elif s in ("copy.copy(%s)" % OWNER, "copy(%s)" % OWNER):
                    var, kind = tg.id, "Shallow"
                elif s == OWNER:
                    var, kind = tg.id, "Alias"
                else:
                    raise TranslateError("getBoltzmannFiniteDifference: solver obtained by "
                                         "%s (line %d)" % (s[:50], st.lineno))
                continue
            if isinstance(tg, ast.Attribute):
                path = ast.unparse(tg.value)
                tgt = "copy" if path == var else ("owner" if path == OWNER else None)
                if tgt is None:
                    raise TranslateError("store to %s (line %d)" % (ast.unparse(tg),
                                                                    st.lineno))
                want = {"derivatives": ("SetDerivs", "Finite Difference"),
                        "basisN": ("SetBasisN", "Cardinal"),
                        "basisM": ("SetBasisM", "Cardinal")}.get(tg.attr)
                if want is not None:
                    # the heap model reads SetDerivs as := "Finite Difference" and SetBasisN/M
                    # as := "Cardinal": the assigned VALUE must be exactly that constant
                    if not (isinstance(val, ast.Constant) and val.value == want[1]):
                        raise TranslateError(
                            "getBoltzmannFiniteDifference: %s is assigned %s, the model only "
                            "knows := %r (line %d)" % (tg.attr, ast.unparse(val)[:40], want[1],
                                                       st.lineno))
                    ops.append((tgt, want[0]))
                else:
                    raise TranslateError("store to solver attribute %s (line %d)" % (
                        tg.attr, st.lineno))
                continue
        call = None
        if isinstance(st, ast.Expr) and isinstance(st.value, ast.Call):
            call = st.value
        elif isinstance(st, ast.Return) and isinstance(st.value, ast.Call):
            call = st.value
        if call is not None and isinstance(call.func, ast.Attribute):
            recv = ast.unparse(call.func.value)
            meth = call.func.attr
            tgt = None
            for base, lab in ((var, "copy"), (OWNER, "owner")):
                if base and (recv == base or recv.startswith(base + ".")):
                    tgt, sub = lab, recv[len(base):].lstrip(".")
            if tgt is None:
                raise TranslateError("call %s (line %d)" % (ast.unparse(call)[:50],
                                                            st.lineno))
            if sub == "collisionArray" and meth == "changeBasis":
                if not (len(call.args) == 1 and not call.keywords and
                        isinstance(call.args[0], ast.Constant) and
                        call.args[0].value == "Cardinal"):
                    raise TranslateError("getBoltzmannFiniteDifference: changeBasis(%s), the "
                                         "model only knows changeBasis('Cardinal') (line %d)" % (
                                             ", ".join(ast.unparse(a) for a in call.args),
                                             st.lineno))
                ops.append((tgt, "ChangeCollBasis"))
            elif sub == "" and meth == "getDeltas":
                if call.args or call.keywords:
                    raise TranslateError("getBoltzmannFiniteDifference: getDeltas with "
                                         "arguments (line %d)" % st.lineno)
                ops.append((tgt, "Solve"))
            else:
                raise TranslateError("call %s (line %d)" % (ast.unparse(call)[:50],
                                                            st.lineno))
            continue
        raise TranslateError("getBoltzmannFiniteDifference: statement (line %d)" % st.lineno)
    if var is None:
        raise TranslateError("getBoltzmannFiniteDifference: no solver variable")
    # CollisionArray.changeBasis: in place?
    ctree = ast.parse(coll_src)
    cb = None
    for n in ast.walk(ctree):
        if isinstance(n, ast.ClassDef) and n.name == "CollisionArray":
            for f in n.body:
                if isinstance(f, ast.FunctionDef) and f.name == "changeBasis":
                    cb = f
    if cb is None:
        raise TranslateError("CollisionArray.changeBasis not found")
    inplace = False
    for n in ast.walk(cb):
        if isinstance(n, ast.Attribute) and isinstance(n.ctx, ast.Store) and \
                ast.unparse(n.value).startswith("self"):
            inplace = True
        if isinstance(n, ast.Call) and isinstance(n.func, ast.Attribute) and \
                ast.unparse(n.func.value).startswith("self.") and \
                n.func.attr in ("changeBasis",):
            inplace = True
    return dict(kind=kind, ops=ops, inplace=inplace,
                span=(fn.lineno, fn.end_lineno, pyrx._sha(ast.unparse(fn))),
                cb_span=(cb.lineno, cb.end_lineno, pyrx._sha(ast.unparse(cb))))



def background_facts(boltz_src, cont_src):
    """how BoltzmannSolver.setBackground stores the caller's background and on which object it
    calls boostToPlasmaFrame; whether BoltzmannBackground.boostToPlasmaFrame only rebinds
    attributes (no in-place array update)"""
    fn = None
    for n in ast.walk(ast.parse(boltz_src)):
        if isinstance(n, ast.FunctionDef) and n.name == "setBackground":
            fn = n
    if fn is None:
        raise TranslateError("BoltzmannSolver.setBackground not found")
    params = [a.arg for a in fn.args.args]
    if len(params) != 2:
        raise TranslateError("setBackground signature")
    arg = params[1]
    kind, target = None, None
    for st in fn.body:
        if isinstance(st, ast.Expr) and isinstance(st.value, ast.Constant):
            continue
        if isinstance(st, ast.Assign) and len(st.targets) == 1 and \
                ast.unparse(st.targets[0]) == "self.background" and kind is None:
            v = ast.unparse(st.value)
            if v in ("deepcopy(%s)" % arg, "copy.deepcopy(%s)" % arg):
                kind = "Deep"
            elif v in ("copy(%s)" % arg, "copy.copy(%s)" % arg):
                kind = "Shallow"
            elif v == arg:
                kind = "Alias"
            else:
                raise TranslateError("setBackground stores %s (line %d)" % (v[:40], st.lineno))
            continue
        if isinstance(st, ast.Expr) and isinstance(st.value, ast.Call) and \
                isinstance(st.value.func, ast.Attribute) and \
                st.value.func.attr == "boostToPlasmaFrame" and target is None:
            recv = ast.unparse(st.value.func.value)
            if recv == "self.background" and kind is not None:
                target = "Wcopy"
            elif recv == arg:
                target = "Wowner"
            else:
                raise TranslateError("boostToPlasmaFrame called on %s (line %d)" % (
                    recv, st.lineno))
            continue
        raise TranslateError("setBackground: statement (line %d)" % st.lineno)
    if kind is None or target is None:
        raise TranslateError("setBackground must store the background and boost it")
    bf = None
    for n in ast.walk(ast.parse(cont_src)):
        if isinstance(n, ast.ClassDef) and n.name == "BoltzmannBackground":
            for f in n.body:
                if isinstance(f, ast.FunctionDef) and f.name == "boostToPlasmaFrame":
                    bf = f
    if bf is None:
        raise TranslateError("BoltzmannBackground.boostToPlasmaFrame not found")
    rebinds = True
    for st in bf.body:
        if isinstance(st, ast.Expr) and isinstance(st.value, ast.Constant):
            continue
        if isinstance(st, ast.Assign) and len(st.targets) == 1 and \
                isinstance(st.targets[0], ast.Attribute) and \
                ast.unparse(st.targets[0].value) == "self":
            continue
        rebinds = False
    return dict(kind=kind, target=target, rebinds=rebinds,
                span=(fn.lineno, fn.end_lineno, pyrx._sha(ast.unparse(fn))),
                bspan=(bf.lineno, bf.end_lineno, pyrx._sha(ast.unparse(bf))))


# ------------------------------------------------------------------------------------
# solveBoltzmannEquations: build -> dense double-precision solve -> C-order reshape -> return

AXES = {"len(self.offEqParticles)": "AxParticles", "len(particles)": "AxParticles",
        "self.grid.M - 1": "AxM1", "self.grid.N - 1": "AxN1"}


def _method(src, name, cls="BoltzmannSolver"):
    for n in ast.parse(src).body:
        if isinstance(n, ast.ClassDef) and n.name == cls:
            for f in n.body:
                if isinstance(f, ast.FunctionDef) and f.name == name:
                    return f
    raise TranslateError("%s.%s not found" % (cls, name))


def _body(fn):
    return [st for st in fn.body
            if not (isinstance(st, ast.Expr) and isinstance(st.value, ast.Constant))]


def _axes(node, what):
    if isinstance(node, ast.Tuple):
        parts = node.elts
    else:
        parts = []
        while isinstance(node, ast.BinOp) and isinstance(node.op, ast.Mult):
            parts.insert(0, node.right)
            node = node.left
        parts.insert(0, node)
    out = []
    for e in parts:
        a = AXES.get(ast.unparse(e))
        if a is None:
            raise TranslateError("%s: unknown extent %s" % (what, ast.unparse(e)))
        out.append(a)
    return out


def solve_facts(src):
    fn = _method(src, "solveBoltzmannEquations")
    if fn.decorator_list or [a.arg for a in fn.args.args] != ["self"]:
        raise TranslateError("solveBoltzmannEquations: signature / decorators")
    body = _body(fn)
    want = ["operator, source, _, _ = self.buildLinearEquations()",
            "deltaF = np.linalg.solve(operator, source)", None,
            "deltaF = np.reshape(deltaF, deltaFShape, order='C')", "return deltaF"]
    if len(body) != len(want):
        raise TranslateError("solveBoltzmannEquations: body is not build / np.linalg.solve / "
                             "shape / reshape / return (%d statements, line %d)" % (
                                 len(body), fn.lineno))
    for st, w in zip(body, want):
        if w is not None and ast.unparse(st) != w:
            raise TranslateError("solveBoltzmannEquations: `%s` where `%s` is expected (line %d)"
                                 % (ast.unparse(st)[:70], w, st.lineno))
    sh = body[2]
    if not (isinstance(sh, ast.Assign) and ast.unparse(sh.targets[0]) == "deltaFShape"):
        raise TranslateError("solveBoltzmannEquations: shape statement (line %d)" % sh.lineno)
    shape = _axes(sh.value, "deltaFShape")
    # the flattening in buildLinearEquations
    bl = _method(src, "buildLinearEquations")
    flat = None
    for st in bl.body:
        if isinstance(st, ast.Assign) and ast.unparse(st.targets[0]) == "totalSize":
            flat = _axes(st.value, "totalSize")
    if flat is None:
        raise TranslateError("buildLinearEquations: totalSize not found")
    resh = [ast.unparse(st) for st in bl.body if isinstance(st, ast.Assign) and
            isinstance(st.value, ast.Call) and ast.unparse(st.value.func) == "np.reshape"]
    if resh != ["source = np.reshape(source, totalSize, order='C')",
                "operator = np.reshape(operator, (totalSize, totalSize), order='C')"]:
        raise TranslateError("buildLinearEquations: flattening statements %r" % resh)
    return dict(steps=["SBuild", "SSolveDense", "SReshapeC", "SReturn"], shape=shape, flat=flat,
                span=(fn.lineno, fn.end_lineno, pyrx._sha(ast.unparse(fn))))


# ------------------------------------------------------------------------------------
# how getDeltas / checkLinearization / estimateTruncationError use deltaF

DMETH = {"getDeltas": "MgetDeltas", "checkLinearization": "McheckLinearization",
         "estimateTruncationError": "MestimateTruncationError"}
SOLVER_BASES = "('Array', self.basisM, self.basisN, self.basisN)"


def _parents(fn):
    par = {}
    for n in ast.walk(fn):
        for c in ast.iter_child_nodes(n):
            par[c] = n
    return par


def deltaF_use_facts(src):
    uses = []
    for mname, coq in DMETH.items():
        fn = _method(src, mname)
        if fn.decorator_list:
            raise TranslateError("%s is decorated" % mname)
        par = _parents(fn)
        # names bound to what buildLinearEquations returns
        built = set()
        consts = {}
        for st in ast.walk(fn):
            if isinstance(st, ast.Assign) and len(st.targets) == 1:
                if isinstance(st.targets[0], ast.Tuple) and \
                        ast.unparse(st.value) == "self.buildLinearEquations()":
                    built |= {e.id for e in st.targets[0].elts if isinstance(e, ast.Name)
                              and e.id != "_"}
                if isinstance(st.targets[0], ast.Name) and isinstance(st.value, ast.Tuple):
                    consts.setdefault(st.targets[0].id, []).append(ast.unparse(st.value))
        # single assignment of everything the recognisers rely on
        nstores = {}
        for n in ast.walk(fn):
            if isinstance(n, ast.Name) and isinstance(n.ctx, ast.Store):
                nstores[n.id] = nstores.get(n.id, 0) + 1
        for nm in sorted(built):
            if nstores.get(nm, 0) != 1:
                uses.append((coq, "URaw", fn.lineno, "%s (returned by buildLinearEquations) is "
                             "assigned %d times" % (nm, nstores.get(nm, 0))))
        polyvars = set()
        for st in ast.walk(fn):
            if isinstance(st, ast.Assign) and isinstance(st.value, ast.Call) and \
                    ast.unparse(st.value.func) == "Polynomial" and st.value.args and \
                    ast.unparse(st.value.args[0]) == "deltaF" and \
                    isinstance(st.targets[0], ast.Name):
                polyvars.add(st.targets[0].id)
        for nm in sorted(polyvars):
            if nstores.get(nm, 0) != 1:
                uses.append((coq, "URaw", fn.lineno, "%s is assigned %d times" % (nm, nstores[nm])))
            ncb = sum(1 for c in ast.walk(fn) if isinstance(c, ast.Call) and
                      ast.unparse(c.func) == nm + ".changeBasis")
            if ncb != 1:
                uses.append((coq, "URaw", fn.lineno, "%s.changeBasis is called %d times" % (nm, ncb)))
        nsolve = [c for c in ast.walk(fn) if isinstance(c, ast.Call) and
                  ast.unparse(c.func) == "self.solveBoltzmannEquations"]
        for c in nsolve:
            stc = c
            while stc in par and not isinstance(stc, ast.stmt):
                stc = par[stc]
            if ast.unparse(stc) != "deltaF = self.solveBoltzmannEquations()":
                uses.append((coq, "URaw", c.lineno, "solveBoltzmannEquations() bound to "
                             "something else than deltaF"))
        stmts_flat = []

        def flat(b):
            for st in b:
                stmts_flat.append(st)
                if isinstance(st, ast.If):
                    flat(st.body)
                    flat(st.orelse)
        flat(fn.body)

        def stmt_of(n):
            while n in par and not isinstance(n, ast.stmt):
                n = par[n]
            return n
        for n in ast.walk(fn):
            if not (isinstance(n, ast.Name) and n.id == "deltaF"):
                continue
            st = stmt_of(n)
            what = "URaw"
            if isinstance(n.ctx, ast.Store):
                if ast.unparse(st) == "deltaF = self.solveBoltzmannEquations()" and \
                        isinstance(par.get(st), ast.If) and \
                        ast.unparse(par[st].test) == "deltaF is None":
                    continue
                uses.append((coq, "URaw", n.lineno, "deltaF is rebound"))
                continue
            p = par.get(n)
            if isinstance(p, ast.Compare) and ast.unparse(p) == "deltaF is None" and \
                    isinstance(par.get(p), ast.If):
                what = "UNoneDefault"
            elif isinstance(p, ast.Call) and isinstance(p.func, ast.Attribute) and \
                    ast.unparse(p.func.value) == "self" and p.func.attr in DMETH and \
                    p.args == [n] and not p.keywords:
                what = "UPassToSelf"
            elif isinstance(p, ast.keyword) and p.arg == "deltaF" and \
                    isinstance(par.get(p), ast.Call) and \
                    ast.unparse(par[p].func) == "BoltzmannResults":
                what = "UResultField"
            elif isinstance(p, ast.Call) and ast.unparse(p.func) == "Polynomial" and \
                    p.args and p.args[0] is n and len(p.args) == 5 and not p.keywords:
                bas = p.args[2]
                bs = ast.unparse(bas)
                if isinstance(bas, ast.Name) and len(consts.get(bas.id, [])) == 1:
                    bs = consts[bas.id][0]
                ep = p.args[4]
                target = None
                if bs == SOLVER_BASES and isinstance(ep, ast.Constant) and ep.value is False \
                        and ast.unparse(p.args[1]) == "self.grid" and \
                        isinstance(st, ast.Assign) and st.value is p and \
                        isinstance(st.targets[0], ast.Name):
                    var = st.targets[0].id
                    k = stmts_flat.index(st)
                    nxt = stmts_flat[k + 1] if k + 1 < len(stmts_flat) else None
                    if nxt is not None and isinstance(nxt, ast.Expr) and \
                            isinstance(nxt.value, ast.Call) and not nxt.value.keywords and \
                            ast.unparse(nxt.value.func) == var + ".changeBasis" and \
                            len(nxt.value.args) == 1:
                        a = ast.unparse(nxt.value.args[0])
                        if a == "('Array', 'Cardinal', 'Cardinal', 'Cardinal')":
                            target = "true"
                        elif a == "('Array', 'Chebyshev', 'Chebyshev', 'Chebyshev')":
                            target = "false"
                if target is not None:
                    what = "(UPolyThenChange %s)" % target
            elif isinstance(p, ast.Subscript) and p.value is n and \
                    ast.unparse(p.slice) == "(None, None, None, None, ...)":
                m = par.get(p)
                s_ = par.get(m)
                if isinstance(m, ast.BinOp) and isinstance(m.op, ast.Mult) and m.right is p and \
                        isinstance(m.left, ast.Name) and m.left.id in built and \
                        isinstance(s_, ast.Call) and ast.unparse(s_.func) == "np.sum" and \
                        s_.args == [m] and [(k.arg, ast.unparse(k.value)) for k in s_.keywords] \
                        == [("axis", "(4, 5, 6, 7)")]:
                    what = "UTimesBuilt"
            uses.append((coq, what, n.lineno, ast.unparse(st)[:60]))
    return uses


# ------------------------------------------------------------------------------------
# copy hooks of the classes reachable from the solver

COPY_HOOKS = tuple(h for h in pyrx.HOOK_METHODS if h in (
    "__deepcopy__", "__copy__", "__getstate__", "__setstate__", "__reduce__", "__reduce_ex__"))


def copy_hook_facts(sources):
    """(file, class, hook) for every copy hook defined by a class in `sources` (dict file ->
    text): copy.deepcopy / copy.copy of the solver are structural iff this is empty"""
    found = []
    for fname in sorted(sources):
        for n in ast.walk(ast.parse(sources[fname])):
            if isinstance(n, ast.ClassDef):
                for f in n.body:
                    if isinstance(f, (ast.FunctionDef, ast.AsyncFunctionDef)) and \
                            f.name in COPY_HOOKS:
                        found.append((fname, n.name, f.name, f.lineno))
                    if isinstance(f, ast.Assign):
                        for t in f.targets:
                            if isinstance(t, ast.Name) and t.id in COPY_HOOKS:
                                found.append((fname, n.name, t.id, f.lineno))
    return found


# ------------------------------------------------------------------------------------
# the plain setters / constructor of the solver, precision, class-level machinery

def setter_facts(src):
    """setCollisionArray, updateParticleList store their argument itself; __init__ stores its
    parameters / None / []; fail closed otherwise"""
    want = {"setCollisionArray": ["self.collisionArray = collisionArray"],
            "updateParticleList": ["for p in offEqParticles:\n    assert isinstance(p, Particle)",
                                   "self.offEqParticles = offEqParticles"]}
    for name, body in want.items():
        fn = _method(src, name)
        got = [ast.unparse(st) for st in _body(fn)]
        if got != body:
            raise TranslateError("%s: body %r is not the plain store %r (line %d)" % (
                name, got, body, fn.lineno))
    init = _method(src, "__init__")
    params = [a.arg for a in init.args.args][1:]
    stores = {}
    for st in ast.walk(init):
        if isinstance(st, ast.Assign):
            for t in st.targets:
                if isinstance(t, ast.Attribute) and ast.unparse(t.value) == "self":
                    v = ast.unparse(st.value)
                    if t.attr in stores or not (v in params or v in ("None", "[]")):
                        raise TranslateError("__init__: self.%s = %s (line %d)" % (
                            t.attr, v[:40], st.lineno))
                    stores[t.attr] = v
    need = dict(grid="grid", derivatives="derivatives", basisM="basisM", basisN="basisN",
                collisionMultiplier="collisionMultiplier", background="None",
                collisionArray="None", offEqParticles="[]")
    if stores != need:
        raise TranslateError("__init__ stores %r, expected %r" % (stores, need))
    return True


DOWNCAST = ("astype", "float32", "float16", "single", "half", "dtype", "longdouble", "view")


def precision_facts(src):
    """no precision-changing construct in buildLinearEquations / solveBoltzmannEquations /
    _feq / _dfeq: with float64 inputs (checked at run time) everything stays double"""
    bad = []
    for name in ("buildLinearEquations", "solveBoltzmannEquations", "_feq", "_dfeq"):
        fn = _method(src, name)
        for n in ast.walk(fn):
            tok = None
            if isinstance(n, ast.Attribute) and n.attr in DOWNCAST:
                tok = n.attr
            if isinstance(n, ast.keyword) and n.arg in DOWNCAST:
                tok = n.arg
            if isinstance(n, ast.Name) and n.id in DOWNCAST:
                tok = n.id
            if tok:
                bad.append((name, tok, getattr(n, "lineno", fn.lineno)))
    return bad


PLAIN_CLASSES = {"boltzmann.py": ("BoltzmannSolver",), "containers.py": ("BoltzmannBackground",),
                 "collisionArray.py": ("CollisionArray",), "polynomial.py": ("Polynomial",),
                 "grid.py": ("Grid",), "grid3Scales.py": ("Grid3Scales",),
                 "particle.py": ("Particle",), "fields.py": ("Fields", "FieldPoint")}
ALLOWED_BASES = {"Grid3Scales": ["Grid"], "Fields": ["np.ndarray"], "FieldPoint": ["np.ndarray"]}


def class_machinery(sources):
    """Fail closed on everything that changes what attribute access / method calls / copies of
    the objects reachable from the solver mean without showing in the method bodies read here:
    pyrx.check_plain_class (decorators, properties shadowing attributes, attribute and copy
    hooks, metaclasses, duplicate definitions) on every such class, unknown base classes
    (mixins), hooks or methods attached after the class body (Cls.name = ..., setattr(Cls, ..)),
    copyreg."""
    for fname, classes in PLAIN_CLASSES.items():
        src = sources.get(fname)
        if src is None:
            raise TranslateError("source %s not available" % fname)
        tree = ast.parse(src)
        found = set()
        for n in tree.body:
            if isinstance(n, ast.ClassDef) and n.name in classes:
                found.add(n.name)
                allow = ("__new__",) if fname == "fields.py" else ()
                pyrx.check_plain_class(n, allow_hooks=allow)
                bases = [ast.unparse(b) for b in n.bases]
                if bases != ALLOWED_BASES.get(n.name, []):
                    raise TranslateError("class %s has bases %r (expected %r)" % (
                        n.name, bases, ALLOWED_BASES.get(n.name, [])))
                for f in n.body:
                    if isinstance(f, ast.FunctionDef):
                        for d in f.decorator_list:
                            if ast.unparse(d) not in ("staticmethod", "classmethod"):
                                raise TranslateError("%s.%s is decorated with %s" % (
                                    n.name, f.name, ast.unparse(d)))
        if found != set(classes):
            raise TranslateError("%s: classes %r not found" % (fname, set(classes) - found))
        names = set(classes)
        for n in ast.walk(tree):
            tg = []
            if isinstance(n, ast.Assign):
                tg = n.targets
            elif isinstance(n, (ast.AugAssign, ast.AnnAssign)):
                tg = [n.target]
            for t in tg:
                if isinstance(t, ast.Attribute) and isinstance(t.value, ast.Name) and \
                        t.value.id in names:
                    raise TranslateError("%s: %s is assigned after the class body (line %d)" % (
                        fname, ast.unparse(t), n.lineno))
            if isinstance(n, ast.Call) and ast.unparse(n.func) in ("setattr", "delattr") and \
                    n.args and isinstance(n.args[0], ast.Name) and n.args[0].id in names:
                raise TranslateError("%s: %s on a class (line %d)" % (
                    fname, ast.unparse(n)[:40], n.lineno))
            if isinstance(n, (ast.Import, ast.ImportFrom)) and "copyreg" in ast.unparse(n):
                raise TranslateError("%s imports copyreg (line %d)" % (fname, n.lineno))
    return True

REACHABLE = ("boltzmann.py", "containers.py", "collisionArray.py", "polynomial.py", "grid.py",
             "grid3Scales.py", "fields.py", "particle.py")

# ------------------------------------------------------------------------------------

PRELUDE = """From Coq Require Import Reals List Bool.
From WG Require Import Lib.NumpySem Lib.BoltzLin.
Import ListNotations.
Local Open Scope R_scope.
"""


def generate(boltz_src, eom_src, coll_src, cont_src, reachable=None, runtime_hooks=()):
    tr = BoltzTranslator(boltz_src)
    deps = tr.build()
    dfacts = derivative_facts(boltz_src)
    fd = fd_copy_facts(eom_src, coll_src)
    bg = background_facts(boltz_src, cont_src)
    sv = solve_facts(boltz_src)
    du = deltaF_use_facts(boltz_src)
    srcs = dict(reachable or {})
    srcs.setdefault('boltzmann.py', boltz_src)
    srcs.setdefault('containers.py', cont_src)
    srcs.setdefault('collisionArray.py', coll_src)
    hooks = copy_hook_facts(srcs) + [("<runtime>",) + tuple(h) for h in runtime_hooks]
    if reachable:
        class_machinery(srcs)
    setter_facts(boltz_src)
    downcast = precision_facts(boltz_src)
    out = [PRELUDE, "(* generated from src/WallGo/boltzmann.py, equationOfMotion.py, "
                    "collisionArray.py *)", tr.header()] + tr.defs
    out.append(tr.setter("coll"))
    out.append("(* def-use facts of the two derivative branches *)")
    out.append("Definition deriv_facts : list dfact :=\n  [%s]." % ";\n   ".join(
        "mk_dfact %s %s [%s] %s %s" % (m, t, "; ".join(p), "true" if d else "false",
                                       "true" if al else "false")
        for m, t, p, d, _, _, al in dfacts))
    out.append("(* aliasing facts of EOM.getBoltzmannFiniteDifference / "
               "CollisionArray.changeBasis *)")
    out.append("Definition fd_copy_kind : copykind := %s." % fd["kind"])
    out.append("Definition fd_ops : list (who * sop) :=\n  [%s]." % "; ".join(
        "(%s, %s)" % ("Wcopy" if w == "copy" else "Wowner", o) for w, o in fd["ops"]))
    out.append("Definition changeBasis_inplace : bool := %s." % (
        "true" if fd["inplace"] else "false"))
    out.append("(* aliasing facts of BoltzmannSolver.setBackground / "
               "BoltzmannBackground.boostToPlasmaFrame *)")
    out.append("Definition bg_copy_kind : copykind := %s." % bg["kind"])
    out.append("Definition bg_boost_target : who := %s." % bg["target"])
    out.append("Definition bg_boost_rebinds : bool := %s." % ("true" if bg["rebinds"] else "false"))
    out.append("(* copy hooks (%s) defined by classes in %s: %s *)" % (
        ", ".join(COPY_HOOKS), ", ".join(sorted(srcs)),
        "; ".join(":".join(str(x) for x in h) for h in hooks) or "none"))
    out.append("Definition deepcopy_structural : bool := %s." % ("false" if hooks else "true"))
    out.append("(* solveBoltzmannEquations *)")
    out.append("Definition solve_steps : list sstep := [%s]." % "; ".join(sv["steps"]))
    out.append("Definition solve_shape : list saxis := [%s]." % "; ".join(sv["shape"]))
    out.append("Definition build_flat : list saxis := [%s]." % "; ".join(sv["flat"]))
    out.append("(* precision-changing constructs in build / solve / _feq / _dfeq: %s *)" % (
        "; ".join("%s:%s line %d" % b for b in downcast) or "none"))
    out.append("Definition no_downcast : bool := %s." % ("false" if downcast else "true"))
    out.append("(* uses of deltaF in getDeltas / checkLinearization / estimateTruncationError *)")
    out.append("Definition deltaF_uses : list (dmeth * duse) :=\n  [%s]." % ";\n   ".join(
        "(%s, %s) (* line %d: %s *)" % (m, u, ln, " ".join(txt.replace("*)", "* )").split())) for m, u, ln, txt in du))
    out.append(tr.ones_env())
    out.append(tr.example_env())
    tr.spans["solveBoltzmannEquations"] = sv["span"]
    tr.hooks, tr.solve, tr.duses = hooks, sv, du
    tr.spans["setBackground"] = bg["span"]
    tr.spans["BoltzmannBackground.boostToPlasmaFrame"] = bg["bspan"]
    tr.bg = bg
    tr.spans["getBoltzmannFiniteDifference"] = fd["span"]
    tr.spans["CollisionArray.changeBasis"] = fd["cb_span"]
    tr.deps_out = deps
    tr.dfacts = dfacts
    tr.fd = fd
    return "\n".join(out) + "\n", tr


if __name__ == "__main__":
    import sys
    import vlib
    text, tr = generate(vlib.read_src("boltzmann.py"), vlib.read_src("equationOfMotion.py"),
                        vlib.read_src("collisionArray.py"), vlib.read_src("containers.py"),
                        {f: vlib.read_src(f) for f in REACHABLE})
    sys.stdout.write(text)
    print(tr.deps_out, file=sys.stderr)
