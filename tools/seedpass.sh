#!/bin/bash
# tools/seedpass.sh Cxx : quick check with seeds 1 2 3 on /repo; one summary line per run
pid=$1
for s in 1 2 3; do
  VERIF_SEED=$s /verif/check $pid > /tmp/seed_${pid}_$s.log 2>&1; rc=$?
  echo "$pid seed=$s rc=$rc $(grep -E 'obligations' /tmp/seed_${pid}_$s.log | sed 's/.*\] //') $(grep -c VIOLATION /tmp/seed_${pid}_$s.log) viol"
done
