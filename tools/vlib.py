"""Shared machinery of the WallGo Coq verification framework.

One check = gen (regenerate model text from /repo) -> prove (coqc, Print Assumptions
gate) -> corr (model vs implementation, hypotheses validation) -> search on failure ->
evidence.  See DESIGN.md section 2.2.
"""
from __future__ import annotations

import fractions
import hashlib
import json
import os
import random
import re
import shutil
import subprocess
import sys
import time
import traceback

VERIF = os.path.dirname(os.path.dirname(os.path.abspath(__file__)))
REPO = os.environ.get("WALLGO_REPO", "/repo")
SRC = os.path.join(REPO, "src", "WallGo")
COQ = os.path.join(VERIF, "coq")
BUILD = os.path.join(VERIF, "build")
# evidence/replays of runs against a scratch checkout (seeded changes) never overwrite the real ones
_SCR = REPO != "/repo"
EVID = os.path.join(BUILD, "scratch_evidence") if _SCR else os.path.join(VERIF, "evidence")
REPLAYS = os.path.join(BUILD, "scratch_replays") if _SCR else os.path.join(VERIF, "replays")
KNOWN = os.path.join(VERIF, "known_findings.json")

# Axioms of the standard library (or of libraries built on it) that a theorem may depend
# on.  Anything else printed by Print Assumptions fails the gate.
AXIOM_ALLOW = {
    "ClassicalDedekindReals.sig_forall_dec",
    "ClassicalDedekindReals.sig_not_dec",
    "FunctionalExtensionality.functional_extensionality_dep",
    "Classical_Prop.classic",
    "ProofIrrelevance.proof_irrelevance",
    "ClassicalEpsilon.constructive_indefinite_description",
    "ChoiceFacts.constructive_indefinite_description",
    "IndefiniteDescription.constructive_indefinite_description",
    "Eqdep.Eq_rect_eq.eq_rect_eq",
    "JMeq.JMeq_eq",
    "PropExtensionality.propositional_extensionality",
    "Reals.Raxioms / Rdefinitions (via ClassicalDedekindReals)",
}
# kernel primitives that Print Assumptions lists but which are not axioms of ours
PRIMITIVE_PREFIXES = ("PrimInt63.", "PrimFloat.", "Uint63.", "Float64", "PArray.",
                      "Int63", "FloatOps", "Sint63")

FORBIDDEN = re.compile(
    r"\b(Admitted|admit|Axiom|Axioms|Parameter|Parameters|Conjecture|Conjectures|"
    r"Admit Obligations|bypass_check|Unset Guard Checking|Unset Positivity Checking|"
    r"Unset Universe Checking|native_compute|type-in-type|impredicative-set)\b")


def sh(cmd, timeout=None, cwd=None, env=None, inp=None):
    """Run a command (list) and return (rc, stdout, stderr). Timeout -> rc 124."""
    try:
        p = subprocess.run(cmd, cwd=cwd, env=env, input=inp, capture_output=True,
                           text=True, timeout=timeout)
        return p.returncode, p.stdout, p.stderr
    except subprocess.TimeoutExpired as e:
        out = e.stdout.decode() if isinstance(e.stdout, bytes) else (e.stdout or "")
        err = e.stderr.decode() if isinstance(e.stderr, bytes) else (e.stderr or "")
        return 124, out, err + "\nTIMEOUT"


def sha(text):
    if isinstance(text, str):
        text = text.encode()
    return hashlib.sha256(text).hexdigest()[:16]


def src_path(name):
    return os.path.join(SRC, name)


def read_src(name):
    with open(src_path(name)) as f:
        return f.read()


# ----------------------------------------------------------------------------------
# exact numbers

def frac(x):
    """Exact rational value of a Python float / int / Fraction."""
    if isinstance(x, fractions.Fraction):
        return x
    if isinstance(x, int):
        return fractions.Fraction(x)
    return fractions.Fraction(float(x))


def coq_Q(x):
    """Coq Q literal (scope-free: uses Qmake) for an exact rational."""
    q = frac(x)
    return "(Qmake (%d) %d)" % (q.numerator, q.denominator)


def coq_R(x):
    """Coq R expression for an exact rational (IZR num / IZR den)."""
    q = frac(x)
    if q.denominator == 1:
        return "(IZR (%d))" % q.numerator
    return "(IZR (%d) / IZR %d)" % (q.numerator, q.denominator)


def coq_Z(n):
    return "(%d)%%Z" % int(n)


# ----------------------------------------------------------------------------------

class Violation(Exception):
    pass


class Ctx:
    """State of one run of one property's check."""

    def __init__(self, pid, tier, seed):
        self.pid = pid
        self.tier = tier
        self.seed = seed
        self.rng = random.Random((seed, pid).__hash__() if False else f"{seed}:{pid}")
        self.t0 = time.time()
        # runs against a scratch checkout (seeded changes) build elsewhere, so that they
        # cannot wipe the build directory of a concurrent run against /repo
        # (one directory per process: concurrent scratch runs of one property must not share
        # .v/.vo files); runs against /repo take an exclusive lock on build/<pid>.lock, so two
        # concurrent runs of the same property serialise instead of wiping each other's files
        os.makedirs(BUILD, exist_ok=True)
        if _SCR:
            self.bdir = os.path.join(BUILD, "scratch_build", "%s.%d" % (pid, os.getpid()))
            import atexit
            atexit.register(shutil.rmtree, self.bdir, True)
        else:
            self.bdir = os.path.join(BUILD, pid)
            import fcntl
            self._lock = open(os.path.join(BUILD, pid + ".lock"), "w")
            fcntl.flock(self._lock, fcntl.LOCK_EX)
        shutil.rmtree(self.bdir, ignore_errors=True)
        os.makedirs(self.bdir, exist_ok=True)
        ensure_library()
        os.makedirs(EVID, exist_ok=True)
        os.makedirs(REPLAYS, exist_ok=True)
        self.obligations = []        # list of dict(name, ok, axioms, detail)
        self.broken = []             # names of theorems / ties that do not check
        self.violations = []         # dict(replay, note, no_input)
        self.known_hits = []
        self.known_count = {}        # key -> number of failing inputs attributed to it
        self.known_inputs = {}       # key -> first few replays attributed to it
        self.cov = {"evaluations": 0, "distinct_nontrivial": 0, "samples": [],
                    "correspondence": {}, "distribution": {}}
        self.assumptions = []
        self.trusted = []
        self.gen_sources = {}
        self.log_lines = []
        self._distinct = set()
        self.known = load_known()

    # -- logging ------------------------------------------------------------------
    def log(self, *a):
        s = " ".join(str(x) for x in a)
        self.log_lines.append(s)
        print("[%s %6.1fs] %s" % (self.pid, time.time() - self.t0, s), flush=True)

    @property
    def quick(self):
        return self.tier == "quick"

    def n(self, quick, thorough):
        return quick if self.quick else thorough

    # -- coverage accounting ------------------------------------------------------
    def count(self, key, case=None, nontrivial=True, bucket=None):
        """Record one explored case under correspondence counter `key`."""
        c = self.cov["correspondence"]
        c[key] = c.get(key, 0) + 1
        self.cov["evaluations"] += 1
        if case is not None and nontrivial:
            h = sha(json.dumps(case, sort_keys=True, default=str))
            if (key, h) not in self._distinct:
                self._distinct.add((key, h))
                self.cov["distinct_nontrivial"] += 1
        if bucket is not None:
            d = self.cov["distribution"].setdefault(key, {})
            d[str(bucket)] = d.get(str(bucket), 0) + 1

    def sample(self, case, limit=6):
        if len(self.cov["samples"]) < limit:
            self.cov["samples"].append(case)

    # -- generated files ----------------------------------------------------------
    def write(self, relname, text, sources=None):
        path = os.path.join(self.bdir, relname)
        os.makedirs(os.path.dirname(path), exist_ok=True)
        with open(path, "w") as f:
            f.write(text)
        if sources:
            self.gen_sources[relname] = sources
        return path

    # -- Coq ----------------------------------------------------------------------
    def coq_args(self):
        return ["-Q", COQ, "WG", "-Q", self.bdir, "Gen" + self.pid]

    def coqc(self, path, timeout=300):
        """Compile one .v file (inside build dir). Returns (ok, out, err)."""
        t = time.time()
        rc, out, err = sh(["coqc"] + self.coq_args() + [path], timeout=timeout,
                          cwd=self.bdir)
        self.log("coqc %s rc=%d %.1fs" % (os.path.relpath(path, VERIF), rc,
                                          time.time() - t))
        return rc == 0, out, err

    def gate_text(self, text, fname):
        """Forbidden-construct gate on Coq text we are about to compile."""
        # strip comments
        body = re.sub(r"\(\*.*?\*\)", "", text, flags=re.S)
        m = FORBIDDEN.search(body)
        if m:
            self.broken.append("gate:%s:%s" % (fname, m.group(0)))
            self.log("FORBIDDEN construct", m.group(0), "in", fname)
            return False
        return True

    def prove(self, props_name=None, extra=(), timeout=600):
        """Compile generated dependencies `extra` (relative to build dir, in order) and
        then Props/<pid>.v (copied into the build dir so that it sees the freshly
        generated modules).  Every `Print Assumptions t.` in it is one obligation.
        """
        props_name = props_name or self.pid
        ok_all = True
        # forbidden-construct gate over the whole hand-written development
        for root, _, files in os.walk(COQ):
            for fn in files:
                if fn.endswith(".v"):
                    with open(os.path.join(root, fn)) as f:
                        self.gate_text(f.read(), os.path.relpath(os.path.join(root, fn),
                                                                 VERIF))
        for rel in extra:
            p = os.path.join(self.bdir, rel)
            with open(p) as f:
                self.gate_text(f.read(), rel)
            ok, out, err = self.coqc(p, timeout=timeout)
            if not ok:
                ok_all = False
                self.broken.append("generated:%s" % rel)
                self.log("generated file failed:", rel, tail(err))
                self.obligations.append(dict(name="compile " + rel, ok=False,
                                             axioms=[], detail=tail(err)))
                return False
        src = os.path.join(COQ, "Props", props_name + ".v")
        with open(src) as f:
            text = f.read()
        self.gate_text(text, src)
        dst = os.path.join(self.bdir, "Props_" + props_name + ".v")
        with open(dst, "w") as f:
            f.write(text)
        names = re.findall(r"^\s*Print Assumptions\s+([\w'.]+)\s*\.", text, flags=re.M)
        ok, out, err = self.coqc(dst, timeout=timeout)
        if ok:
            blocks = parse_assumptions(out)
            if len(blocks) != len(names):
                self.log("assumption blocks %d != names %d" % (len(blocks), len(names)))
            for i, nm in enumerate(names):
                ax = blocks[i] if i < len(blocks) else ["<missing>"]
                bad = [a for a in ax if not axiom_allowed(a)]
                self.obligations.append(dict(name=nm, ok=not bad, axioms=ax,
                                             detail="" if not bad else
                                             "disallowed axioms: %s" % bad))
                if bad:
                    ok_all = False
                    self.broken.append("axioms:%s" % nm)
        else:
            ok_all = False
            failed = locate_failure(text, err)
            self.log("Props failed at", failed, tail(err))
            seen_fail = False
            for nm in names:
                # theorems stated before the failing one were accepted by coqc
                if nm == failed:
                    seen_fail = True
                self.obligations.append(dict(
                    name=nm, ok=False if seen_fail or failed is None else True,
                    axioms=[], detail=tail(err) if nm == failed else
                    ("not reached" if seen_fail else "")))
            if failed is None or failed not in names:
                self.obligations.append(dict(name=str(failed), ok=False, axioms=[],
                                             detail=tail(err)))
            self.broken.append("theorem:%s" % failed)
        return ok_all

    def run_cases(self, name, header, cases, per_file=400, timeout=600, jobs=8):
        """Certified evaluation: `cases` is a list of Coq boolean terms (strings); each
        file proves  forallb id [..] = true  by vm_compute.  Returns list of indices of
        files that failed (and which cases, by re-running them singly when small)."""
        files = []
        for k in range(0, len(cases), per_file):
            chunk = cases[k:k + per_file]
            body = header + "\n" + "Definition cases : list bool :=\n  [" + \
                ";\n   ".join(chunk) + "].\n" + \
                "Definition failing := filter (fun p => negb (snd p)) " \
                "(combine (seq 0 (length cases)) cases).\n" + \
                "Eval vm_compute in (map fst failing).\n" + \
                "Goal forallb (fun b => b) cases = true. " \
                "Proof. vm_compute. reflexivity. Qed.\n"
            files.append((k, self.write("Cases/%s_%d.v" % (name, k // per_file), body)))
        bad = []
        procs = []
        for k, p in files:
            procs.append((k, p, subprocess.Popen(
                ["timeout", str(timeout), "coqc"] + self.coq_args() + [p],
                cwd=self.bdir, stdout=subprocess.PIPE, stderr=subprocess.PIPE,
                text=True)))
            if len(procs) >= jobs:
                self._drain(procs, bad)
        self._drain(procs, bad)
        return bad

    def _drain(self, procs, bad):
        for k, p, pr in procs:
            out, err = pr.communicate()
            if pr.returncode != 0:
                idx = re.search(r"=\s*\[([^\]]*)\]", out)
                which = []
                if idx:
                    which = [k + int(x.strip().rstrip("%nat")) for x in
                             idx.group(1).split(";") if x.strip()]
                bad.append(dict(file=os.path.relpath(p, VERIF), first=k, cases=which,
                                err=tail(err)))
        procs.clear()

    # -- violations ---------------------------------------------------------------
    def fail_input(self, what, replay, key=None):
        """A concrete failing input on the implementation. `key` identifies it for the
        known-findings file."""
        key = key or what
        for k in self.known.get("findings", []):
            if k.get("property") == self.pid and k.get("key") == key:
                if key not in [h["key"] for h in self.known_hits]:
                    self.known_hits.append(dict(key=key, what=k.get("what", what)))
                self.known_count[key] = self.known_count.get(key, 0) + 1
                if len(self.known_inputs.setdefault(key, [])) < 12:
                    self.known_inputs[key].append(dict(what=what, replay=replay))
                return False
        replay = dict(replay)
        replay.update(property=self.pid, what=what, key=key)
        path = os.path.join(REPLAYS, "%s-%s.json" % (self.pid, sha(json.dumps(
            replay, sort_keys=True, default=str))))
        with open(path, "w") as f:
            json.dump(replay, f, indent=1, default=str)
        if not any(v["key"] == key for v in self.violations):
            self.violations.append(dict(replay=path, what=what, key=key,
                                        no_input=False))
        self.log("FAILING INPUT:", what)
        return True

    def finish(self, level="proof", checker_cmd=None, explanation=""):
        # broken proof / tie with no concrete failing input
        has_input = any(not v["no_input"] for v in self.violations)
        if self.broken and not has_input:
            replay = dict(property=self.pid, broken=self.broken,
                          obligations=[o for o in self.obligations if not o["ok"]],
                          note="proof obligation or correspondence no longer checks; "
                               "search found no failing input")
            path = os.path.join(REPLAYS, "%s-broken-%s.json" % (self.pid, sha(
                json.dumps(replay, sort_keys=True, default=str))))
            with open(path, "w") as f:
                json.dump(replay, f, indent=1, default=str)
            self.violations.append(dict(replay=path, what=";".join(self.broken),
                                        key="broken", no_input=True))
        # a recorded finding identifies a specific input or a narrow class; the class rules
        # are symptom-based, so a regression that multiplies the symptom must not hide behind
        # the key: each entry carries the largest number of hits seen on the unchanged tree
        # (per tier, over many seeds, with slack) and more hits than that is a violation
        for k in self.known.get("findings", []):
            if k.get("property") != self.pid:
                continue
            cap = (k.get("max_hits") or {}).get(self.tier)
            n = self.known_count.get(k["key"], 0)
            if cap is not None and n > cap:
                replay = dict(property=self.pid, key=k["key"] + ":more-often-than-recorded",
                              hits=n, max_hits=cap, inputs=self.known_inputs.get(k["key"], []),
                              what="%d failing inputs fall into the class of the recorded finding "
                                   "%s, more than the %d ever seen on the unchanged tree"
                                   % (n, k["key"], cap))
                path = os.path.join(REPLAYS, "%s-%s.json" % (self.pid, sha(json.dumps(
                    replay, sort_keys=True, default=str))))
                with open(path, "w") as f:
                    json.dump(replay, f, indent=1, default=str)
                self.violations.append(dict(replay=path, what=replay["what"],
                                            key=replay["key"], no_input=False))
                self.log("FAILING INPUT:", replay["what"])
        for h in self.known_hits:
            h["hits"] = self.known_count.get(h["key"], 0)
        nob = len(self.obligations)
        ndis = sum(1 for o in self.obligations if o["ok"])
        cov = self.cov
        cov.update(
            obligations=nob, discharged=ndis,
            checker_cmd=checker_cmd or
            "coqc -Q coq WG -Q build/%s Gen%s build/%s/Props_%s.v  (full .vo build of "
            "coq/ by `make` in setup; Print Assumptions under every theorem)"
            % (self.pid, self.pid, self.pid, self.pid),
            trusted_base=sorted(set(self.trusted + [
                "Coq 8.16.1 kernel + vm_compute (no native_compute)",
                "translator / fact extractors under /verif/tools (Python)",
                "correspondence harness (generators, tolerances, float->dyadic "
                "conversion)"])),
            theorems=[dict(name=o["name"], ok=o["ok"], axioms=o["axioms"])
                      for o in self.obligations],
            generated_from=self.gen_sources,
            broken=self.broken,
            known_findings_hit=self.known_hits,
            rule=cov.get("rule", ""),
            explanation=explanation,
        )
        if not cov["samples"]:
            cov["samples"] = [dict(note="no correspondence sample recorded")]
        ev = dict(property_id=self.pid, tier=self.tier, seed=self.seed, level=level,
                  coverage=cov, assumptions=self.assumptions,
                  wall_s=round(time.time() - self.t0, 2),
                  violations=len(self.violations))
        with open(os.path.join(EVID, self.pid + ".json"), "w") as f:
            json.dump(ev, f, indent=1, default=str)
        for h in self.known_hits:
            print("KNOWN-FINDING: property=%s %s" % (self.pid, h["what"]), flush=True)
        for v in self.violations:
            print("VIOLATION property=%s replay=%s%s" % (
                self.pid, v["replay"],
                " no-failing-input-found" if v["no_input"] else ""), flush=True)
        self.log("obligations %d/%d, correspondence evaluations %d, violations %d" % (
            ndis, nob, cov["evaluations"], len(self.violations)))
        return 1 if self.violations else 0


def ensure_library():
    """The repo-independent Coq library under coq/ is built by setup.sh; make sure its .vo
    files are consistent with its .v sources on every run (a no-op `make` when up to date,
    a rebuild when a source changed), under a lock so that concurrent checks do not compile
    the same file at the same time."""
    import fcntl
    with open(os.path.join(BUILD, "lib.lock"), "w") as lk:
        fcntl.flock(lk, fcntl.LOCK_EX)
        if not os.path.exists(os.path.join(COQ, "Makefile")):
            sh(["coq_makefile", "-f", "_CoqProject", "-o", "Makefile"], timeout=120, cwd=COQ)
        rc, out, err = sh(["make", "-j8"], timeout=3000, cwd=COQ)
        if rc != 0:
            print("[vlib] building coq/ failed:\n" + tail(out + "\n" + err, 15), flush=True)


def tail(s, n=12):
    lines = [l for l in (s or "").strip().splitlines() if l.strip()]
    return "\n".join(lines[-n:])


def load_known():
    try:
        with open(KNOWN) as f:
            return json.load(f)
    except FileNotFoundError:
        return {"findings": [], "fixed": []}


def axiom_allowed(a):
    a = a.strip()
    if not a:
        return True
    name = a.split(":")[0].strip()
    if name in AXIOM_ALLOW:
        return True
    if name.startswith(PRIMITIVE_PREFIXES):
        return True
    # Stdlib real-number axioms (8.16 has none beyond the ClassicalDedekindReals ones)
    return False


def parse_assumptions(out):
    """Split coqc stdout into one list of axiom names per Print Assumptions."""
    blocks = []
    cur = None
    for line in out.splitlines():
        if line.startswith("Closed under the global context"):
            blocks.append([])
            cur = None
        elif line.startswith("Axioms:"):
            cur = []
            blocks.append(cur)
        elif cur is not None:
            if re.match(r"^[A-Za-z_][\w'.]*\s*:", line):
                cur.append(line.split(":")[0].strip())
            elif line.startswith(" ") or not line.strip():
                continue
            else:
                cur = None
    return blocks


def locate_failure(text, err):
    """Name of the Theorem/Lemma enclosing the error position reported by coqc."""
    # the position that belongs to the Error (warnings from imported libraries also
    # print a File/line header; take the last header before the first "Error")
    cut = err.find("Error")
    head = err if cut < 0 else err[:cut]
    ms = re.findall(r'line (\d+), characters', head)
    if not ms:
        ms = re.findall(r'line (\d+), characters', err)
    if not ms:
        return None
    ln = int(ms[-1])
    name = None
    for i, line in enumerate(text.splitlines(), 1):
        mm = re.match(r"\s*(Theorem|Lemma|Example|Corollary|Fact|Definition|Goal)\s+"
                      r"([\w']+)", line)
        if mm:
            name = mm.group(2)
        if i >= ln:
            break
    return name


# ----------------------------------------------------------------------------------
# running implementation-side code in the repo's interpreter

PY = "/venv/bin/python"


def impl_env():
    env = dict(os.environ)
    env["PYTHONPATH"] = os.path.join(REPO, "src") + os.pathsep + REPO + os.pathsep + \
        os.path.join(VERIF, "tools")
    env["PYTHONHASHSEED"] = "0"
    env["OMP_NUM_THREADS"] = "1"
    env["OPENBLAS_NUM_THREADS"] = "1"
    env["MKL_NUM_THREADS"] = "1"
    env["PYTHONWARNINGS"] = "ignore"
    return env


def ensure_repo_python():
    """Re-exec under /venv/bin/python with the repo on the path (the checks import the
    real WallGo from /repo's working tree)."""
    if os.path.realpath(sys.executable) != os.path.realpath(PY) or \
            os.environ.get("WGV_REEXEC") != "1":
        env = impl_env()
        env["WGV_REEXEC"] = "1"
        os.execve(PY, [PY] + sys.argv, env)
