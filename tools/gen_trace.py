"""gen_trace -- fail-closed translator for the bookkeeping code of WallGo's phase tracer.

From the current source it regenerates (build/C11/TraceGen.v):

  freeEnergy.py::tracePhase
    odeFunction, spinodalEvent          (the closures handed to RK45 / used as stop test)
    loop_body, trace_dir                (body of `while ode.status == "running"` as a state
                                         transformer on Model.TraceBook.lstate, + the loop)
    join_T / join_F / join_P, join_cond (how the downward and upward sweeps are joined)
    clamp_TMin / clamp_TMax             (requested range clamped by the previous range)
    tail                                (min/maxPossibleTemperature bookkeeping)
    structural facts                    (direction 0 integrates towards TMax, 1 towards TMin;
                                         what the first sweep starts from)
  thermodynamics.py::findCriticalTemperature
    tc_loop, tc_bracket                 (the stepping loop and the bracket given to brentq)
  all call sites of FreeEnergy.tracePhase in src/WallGo
    trace_calls                         (which expression reaches which parameter, and how)

Python semantics is given to a small vocabulary of idioms only (see Model/TraceBook.v);
every AST node outside it raises pyrx.TranslateError: the check then reports the tie as
broken.  The translator is typed (R, bool, nat, Fld, Hess, lists, option R) so that a
changed expression cannot silently be given another meaning.
"""
from __future__ import annotations

import ast

import pyrx
from pyrx import TranslateError, rlit, const_value

POT_METHODS = {
    # name -> (positional arg types, keyword-only extras in order, result type)
    "allSecondDerivatives": (["Fld", "R"], [], "tuple:Hess,Fld,R"),
    "deriv2Field2": (["Fld", "R"], [], "Hess"),
    "derivField": (["Fld", "R"], [], "Fld"),
    "evaluate": (["Fld", "R"], [], "R"),
    "findLocalMinimum": (["Fld", "R"], ["tol"], "tuple:fields1,R"),
}
LIST_OF = {"R": "listR", "Fld": "listF", "optR": "listP"}


def err(node, msg):
    raise TranslateError("%s: %s (line %s)" % (msg, ast.unparse(node)[:70],
                                               getattr(node, "lineno", "?")))


class Tr:
    """One translation context: immutable names in `env`, mutable variables in `state`
    (lvalue text -> (getter, setter-format or None, type)); the state value is always
    called `st` in the generated text."""

    def __init__(self, env, state, closures=None):
        self.env = dict(env)
        self.state = dict(state)
        self.closures = closures or {}
        self.fresh = 0

    def child(self):
        t = Tr(self.env, self.state, self.closures)
        t.fresh = self.fresh
        return t

    def new(self, base):
        self.fresh += 1
        return "%s_%d" % (base.strip("_") or "u", self.fresh)

    # ---- expressions ---------------------------------------------------------------
    def lv(self, node):
        return ast.unparse(node).replace(" ", "")

    def expr(self, node):
        c = const_value(node)
        if c is not None:
            return rlit(c), "R"
        if isinstance(node, ast.Constant) and isinstance(node.value, bool):
            return ("true" if node.value else "false"), "bool"
        key = self.lv(node) if isinstance(node, (ast.Name, ast.Attribute, ast.Subscript)) \
            else None
        if key in self.state:
            g, _, ty = self.state[key]
            return g, ty
        if isinstance(node, ast.Name):
            if node.id in self.env:
                return self.env[node.id]
            err(node, "unbound or unsupported name")
        if isinstance(node, ast.Attribute):
            if node.attr == "size":
                v, ty = self.expr(node.value)
                if ty.startswith("list"):
                    return "(length %s)" % v, "nat"
            err(node, "attribute")
        if isinstance(node, ast.Subscript):
            i = const_value(node.slice)
            v, ty = self.expr(node.value)
            if ty == "fields1" and i == 0:
                return v, "Fld"
            if ty == "listR" and i == -1:
                return "(last %s 0)" % v, "R"
            err(node, "subscript")
        if isinstance(node, ast.UnaryOp):
            v, ty = self.expr(node.operand)
            if isinstance(node.op, ast.USub) and ty == "R":
                return "(- %s)" % v, "R"
            if isinstance(node.op, ast.USub) and ty == "Fld":
                return "(vneg X %s)" % v, "Fld"
            if isinstance(node.op, ast.Not) and ty == "bool":
                return "(negb %s)" % v, "bool"
            err(node, "unary operator")
        if isinstance(node, ast.BinOp):
            if isinstance(node.op, ast.Pow):
                n = const_value(node.right)
                b, ty = self.expr(node.left)
                if ty == "R" and n is not None and n.denominator == 1 and n >= 0:
                    return "(%s ^ %d)" % (b, int(n)), "R"
                err(node, "power")
            a, ta = self.expr(node.left)
            b, tb = self.expr(node.right)
            op = {ast.Add: "+", ast.Sub: "-", ast.Mult: "*", ast.Div: "/"}.get(
                type(node.op))
            if op and ta == "R" and tb == "R":
                return "(%s %s %s)" % (a, op, b), "R"
            err(node, "binary operator on %s,%s" % (ta, tb))
        if isinstance(node, ast.List) and len(node.elts) == 1:
            v, ty = self.expr(node.elts[0])
            if ty in LIST_OF:
                return "[%s]" % v, LIST_OF[ty]
            err(node, "list literal of %s" % ty)
        if isinstance(node, ast.Tuple):
            if len(node.elts) == 1:
                return self.expr(node.elts[0])
            parts = [self.expr(e) for e in node.elts]
            return "(" + ", ".join(p[0] for p in parts) + ")", \
                "tuple:" + ",".join(p[1] for p in parts)
        if isinstance(node, (ast.Compare, ast.BoolOp)):
            return self.test(node), "bool"
        if isinstance(node, ast.Call):
            return self.call(node)
        err(node, "expression")

    def call(self, node):
        f = self.lv(node.func)
        args, kws = node.args, {k.arg: k.value for k in node.keywords}
        if None in kws:
            err(node, "**kwargs")
        if f in ("Fields", "FieldPoint") and len(args) == 1 and not kws:
            v, ty = self.expr(args[0])
            if ty in ("Fld", "fields1"):
                return v, "Fld"
            err(node, "Fields() of %s" % ty)
        if f in ("np.asarray", "float", "np.asanyarray") and len(args) == 1 and not kws:
            return self.expr(args[0])
        if f == "bool" and len(args) == 1 and not kws:
            v, ty = self.expr(args[0])
            if ty == "bool":
                return v, "bool"
            err(node, "bool() of %s" % ty)
        if f.startswith("self.effectivePotential."):
            m = f.split(".")[-1]
            if m not in POT_METHODS:
                err(node, "effectivePotential method")
            pts, kw, rty = POT_METHODS[m]
            if len(args) != len(pts) or sorted(kws) != sorted(kw):
                err(node, "argument shape of %s" % m)
            vals = []
            for a, want in zip(args, pts):
                v, ty = self.expr(a)
                if ty != want:
                    err(a, "argument of type %s where %s expected" % (ty, want))
                vals.append(v)
            for k in kw:
                v, ty = self.expr(kws[k])
                if ty != "R":
                    err(kws[k], "keyword %s" % k)
                vals.append(v)
            return "(%s X %s)" % (m, " ".join(vals)), rty
        if f in ("scipylinalg.solve", "scipy.linalg.solve") and len(args) == 2 and \
                list(kws) == ["assume_a"] and isinstance(kws["assume_a"], ast.Constant) \
                and kws["assume_a"].value == "sym":
            a, ta = self.expr(args[0])
            b, tb = self.expr(args[1])
            if (ta, tb) == ("Hess", "Fld"):
                return "(linsolve X %s %s)" % (a, b), "Fld"
            err(node, "solve on %s,%s" % (ta, tb))
        if f in ("scipylinalg.eigvalsh", "np.linalg.eigvalsh", "scipy.linalg.eigvalsh") \
                and len(args) == 1 and not kws:
            a, ta = self.expr(args[0])
            if ta == "Hess":
                return "(eigvalsh X %s)" % a, "listR"
            err(node, "eigvalsh of %s" % ta)
        if f == "np.linalg.norm" and len(args) == 1 and not kws:
            a, ta = self.expr(args[0])
            if ta == "Fld":
                return "(norm X %s)" % a, "R"
            err(node, "norm of %s" % ta)
        if f in ("min", "max") and not kws:
            if len(args) == 1:
                a, ta = self.expr(args[0])
                if ta == "listR":
                    return "(l%s %s)" % (f, a), "R"
            if len(args) == 2:
                a, ta = self.expr(args[0])
                b, tb = self.expr(args[1])
                if ta == tb == "R":
                    return "(R%s %s %s)" % (f, a, b), "R"
            err(node, "min/max")
        if f in ("abs", "np.abs") and len(args) == 1 and not kws:
            a, ta = self.expr(args[0])
            if ta == "R":
                return "(Rabs %s)" % a, "R"
            err(node, "abs of %s" % ta)
        if f == "np.sign" and len(args) == 1 and not kws:
            a, ta = self.expr(args[0])
            if ta == "R":
                return "(sgn %s)" % a, "R"
        if f == "len" and len(args) == 1 and not kws:
            a, ta = self.expr(args[0])
            if ta.startswith("list"):
                return "(length %s)" % a, "nat"
        if f == "np.append" and len(args) == 2 and list(kws) == ["axis"] and \
                const_value(kws["axis"]) == 0:
            a, ta = self.expr(args[0])
            b, tb = self.expr(args[1])
            if ta == tb and ta.startswith("list"):
                return "(%s ++ %s)" % (a, b), ta
            err(node, "append of %s,%s" % (ta, tb))
        if f == "np.flip" and ((len(args) == 2 and not kws and const_value(args[1]) == 0)
                               or (len(args) == 1 and list(kws) == ["axis"] and
                                   const_value(kws["axis"]) == 0)):
            a, ta = self.expr(args[0])
            if ta.startswith("list"):
                return "(rev %s)" % a, ta
        if f in self.closures and not kws:
            cname, ptys, rty = self.closures[f]
            if len(args) != len(ptys):
                err(node, "closure arity")
            vals = []
            for a, want in zip(args, ptys):
                v, ty = self.expr(a)
                if ty != want:
                    err(a, "closure argument of type %s where %s expected" % (ty, want))
                vals.append(v)
            return "(%s %s)" % (cname, " ".join(vals)), rty
        err(node, "call")

    def test(self, node):
        if isinstance(node, ast.Compare) and len(node.ops) == 1:
            a, ta = self.expr(node.left)
            b, tb = self.expr(node.comparators[0])
            op = type(node.ops[0])
            if ta == tb == "R":
                m = {ast.Lt: "(Rltb %s %s)" % (a, b), ast.Gt: "(Rltb %s %s)" % (b, a),
                     ast.LtE: "(Rleb %s %s)" % (a, b), ast.GtE: "(Rleb %s %s)" % (b, a),
                     ast.Eq: "(Reqb %s %s)" % (a, b),
                     ast.NotEq: "(negb (Reqb %s %s))" % (a, b)}
                if op in m:
                    return m[op]
            if ta == "nat" and tb == "R" and const_value(node.comparators[0]) is not None \
                    and const_value(node.comparators[0]).denominator == 1 \
                    and const_value(node.comparators[0]) >= 0:
                n = int(const_value(node.comparators[0]))
                m = {ast.Gt: "(%d <? %s)%%nat" % (n, a), ast.GtE: "(%d <=? %s)%%nat" % (n, a),
                     ast.Lt: "(%s <? %d)%%nat" % (a, n), ast.LtE: "(%s <=? %d)%%nat" % (a, n),
                     ast.Eq: "(%s =? %d)%%nat" % (a, n)}
                if op in m:
                    return m[op]
            err(node, "comparison of %s,%s" % (ta, tb))
        if isinstance(node, ast.BoolOp):
            parts = [self.test(v) for v in node.values]
            return "(" + (" && " if isinstance(node.op, ast.And) else " || ").join(parts) \
                + ")"
        v, ty = self.expr(node)
        if ty == "bool":
            return v
        err(node, "test of type %s" % ty)

    # ---- statements ----------------------------------------------------------------
    def store(self, target, val, ty):
        if isinstance(target, ast.Subscript) and const_value(target.slice) == -1 and \
                self.lv(target.value) in self.state:
            g, setter, sty = self.state[self.lv(target.value)]
            if setter is None or not sty.startswith("list"):
                err(target, "element store")
            if sty == "listP" and ty == "R":
                val, ty = "(Some %s)" % val, "optR"
            if LIST_OF.get(ty) != sty:
                err(target, "stores %s into an element of %s" % (ty, sty))
            # numpy: X[-1] = v overwrites the last element (IndexError on an empty array; the
            # model keeps the convention removelast [] ++ [v], theorems require non-empty)
            return "let st := %s in\n" % (setter % ("(removelast %s ++ [%s])" % (g, val)))
        key = self.lv(target)
        if key not in self.state:
            err(target, "assignment target")
        _, setter, sty = self.state[key]
        if setter is None:
            err(target, "read-only target")
        if sty == "optR" and ty == "R":
            val, ty = "(Some %s)" % val, "optR"
        if sty == "Fld" and ty == "fields1":
            err(target, "Fields collection stored where a point is expected")
        if sty != ty:
            err(target, "stores %s into %s" % (ty, sty))
        return "let st := %s in\n" % (setter % val)

    def block(self, stmts, k, brk=None):
        """Coq term for the statement list; `k` = term when falling off the end, `brk` =
        term for `break` (None outside loops)."""
        if not stmts:
            return k
        st, rest = stmts[0], list(stmts[1:])
        if isinstance(st, ast.Expr):
            v = st.value
            if isinstance(v, ast.Constant) and isinstance(v.value, str):
                return self.block(rest, k, brk)
            if isinstance(v, ast.Call) and self.lv(v.func).split(".")[0] == "logging" and \
                    not any(isinstance(n, (ast.NamedExpr, ast.Await, ast.Yield)) or
                            (isinstance(n, ast.Call) and ast.unparse(n.func) not in
                             ("str", "repr", "float", "int", "len"))
                            for a in list(v.args) + [kw.value for kw in v.keywords]
                            for n in ast.walk(a)):
                return self.block(rest, k, brk)
            err(st, "expression statement")
        if isinstance(st, ast.Pass):
            return self.block(rest, k, brk)
        if isinstance(st, ast.Break):
            if brk is None:
                err(st, "break outside a translated loop")
            return brk
        if isinstance(st, ast.Continue):
            if brk is None:
                err(st, "continue outside a translated loop")
            return "(st, false)"
        if isinstance(st, ast.AugAssign):
            st = ast.Assign(targets=[st.target], value=ast.BinOp(
                left=ast.parse(ast.unparse(st.target), mode="eval").body, op=st.op,
                right=st.value), lineno=st.lineno)
        if isinstance(st, ast.Assign) and len(st.targets) == 1:
            tg = st.targets[0]
            if isinstance(tg, ast.Tuple):
                v, ty = self.expr(st.value)
                if not ty.startswith("tuple:"):
                    err(st, "unpacking a non-tuple")
                tys = ty[6:].split(",")
                if len(tys) != len(tg.elts):
                    err(st, "unpack arity")
                names, post = [], ""
                for e, t in zip(tg.elts, tys):
                    if not isinstance(e, ast.Name):
                        err(st, "unpack target")
                    nm = self.new(e.id)
                    names.append(nm)
                    if e.id in self.state:
                        post += self.store(e, nm, t)
                    else:
                        self.env[e.id] = (nm, t)
                return "let '(%s) := %s in\n%s%s" % (", ".join(names), v, post,
                                                    self.block(rest, k, brk))
            v, ty = self.expr(st.value)
            if self.lv(tg) in self.state or (isinstance(tg, ast.Subscript) and
                                             self.lv(tg.value) in self.state):
                return self.store(tg, v, ty) + self.block(rest, k, brk)
            if isinstance(tg, ast.Name):
                nm = self.new(tg.id)
                self.env[tg.id] = (nm, ty)
                return "let %s := %s in\n%s" % (nm, v, self.block(rest, k, brk))
            err(st, "assignment target")
        if isinstance(st, ast.If):
            t = self.test(st.test)
            if _has(st, ast.Break) or _has(st, ast.Return) or _has(st, ast.Raise) or \
                    _has(st, ast.Continue):
                a = self.child().block(st.body + rest, k, brk)
                b = self.child().block(st.orelse + rest, k, brk)
                return "if %s then (\n%s) else (\n%s)" % (t, a, b)
            a = self.child().block(st.body, "st", None)
            b = self.child().block(st.orelse, "st", None)
            return "let st := (if %s then (\n%s) else (\n%s)) in\n%s" % (
                t, a, b, self.block(rest, k, brk))
        if isinstance(st, ast.Try):
            # try: ode.step()  except RuntimeWarning ...: <logging>; break
            if len(st.body) == 1 and isinstance(st.body[0], ast.Expr) and \
                    self.lv(st.body[0].value) == "ode.step()" and len(st.handlers) == 1 \
                    and _handler_ok(st.handlers[0].type) and \
                    not st.orelse and not st.finalbody and "ode" in self.state:
                h = self.child().block(st.handlers[0].body, "st", brk)
                if h != brk:
                    err(st, "handler does not end the loop")
                g, setter, _ = self.state["ode"]
                nm = self.new("ode")
                return "match rk_step X %s with\n| None => %s\n| Some %s =>\nlet st := %s in\n%s\nend" % (
                    g, brk, nm, setter % nm, self.block(rest, k, brk))
            err(st, "try statement")
        if isinstance(st, ast.While):
            err(st, "nested while")
        err(st, "statement")


STEP_FAILURES = {"RuntimeWarning", "LinAlgError", "np.linalg.LinAlgError",
                 "numpy.linalg.LinAlgError", "scipylinalg.LinAlgError",
                 "scipy.linalg.LinAlgError", "scipylinalg.LinAlgWarning"}


def _handler_ok(ty):
    """the handler around ode.step() catches failures of the step only (model: rk_step = None)"""
    if ty is None:
        return False
    names = ty.elts if isinstance(ty, ast.Tuple) else [ty]
    return bool(names) and all(ast.unparse(n) in STEP_FAILURES for n in names)


def _has(node, kind):
    return any(isinstance(n, kind) for n in ast.walk(node))


def _find_class_fn(tree, cls, fn):
    for n in tree.body:
        if isinstance(n, ast.ClassDef) and n.name == cls:
            for f in n.body:
                if isinstance(f, ast.FunctionDef) and f.name == fn:
                    return f
    raise TranslateError("%s.%s not found" % (cls, fn))


def _only(xs, what):
    xs = list(xs)
    if len(xs) != 1:
        raise TranslateError("expected exactly one %s, found %d" % (what, len(xs)))
    return xs[0]


def _closure(fn, name):
    return _only((s for s in fn.body if isinstance(s, ast.FunctionDef) and s.name == name),
                 "closure " + name)


def _ret_block(tr, stmts):
    """closure body: assignments / ifs ending in return -> Coq term"""
    if not stmts:
        raise TranslateError("closure can fall off its end")
    st, rest = stmts[0], list(stmts[1:])
    if isinstance(st, ast.Expr) and isinstance(st.value, ast.Constant):
        return _ret_block(tr, rest)
    if isinstance(st, ast.Return):
        v, ty = tr.expr(st.value)
        return v, ty
    if isinstance(st, ast.If):
        t = tr.test(st.test)
        a, ta = _ret_block(tr.child(), st.body + rest)
        b, tb = _ret_block(tr.child(), st.orelse + rest)
        if ta != tb:
            err(st, "branches return %s / %s" % (ta, tb))
        return "if %s then (%s) else (\n%s)" % (t, a, b), ta
    if isinstance(st, ast.Assign) and len(st.targets) == 1:
        tg = st.targets[0]
        v, ty = tr.expr(st.value)
        if isinstance(tg, ast.Name):
            nm = tr.new(tg.id)
            tr.env[tg.id] = (nm, ty)
            r, rty = _ret_block(tr, rest)
            return "let %s := %s in\n%s" % (nm, v, r), rty
        if isinstance(tg, ast.Tuple) and ty.startswith("tuple:"):
            tys = ty[6:].split(",")
            if len(tys) != len(tg.elts) or not all(isinstance(e, ast.Name) for e in tg.elts):
                err(st, "unpack")
            names = []
            for e, t in zip(tg.elts, tys):
                nm = tr.new(e.id)
                names.append(nm)
                tr.env[e.id] = (nm, t)
            r, rty = _ret_block(tr, rest)
            return "let '(%s) := %s in\n%s" % (", ".join(names), v, r), rty
    err(st, "closure statement")



# Top-level statements of tracePhase, in order.  ("verbatim", text): the statement must read
# exactly so (its meaning is fixed in Model/TraceBook.v or it feeds only scipy's RK45 options);
# ("def", name) / ("for",) / ("tail",): translated elsewhere in this module.  Anything else,
# a missing statement, a second binding of a parameter or of a name below -> TranslateError.
TOPLEVEL = [
    ("doc",),
    ("verbatim", "extraTol = 0.01 * rTol"),
    ("verbatim", "T0 = self.startingTemperature"),
    ("verbatim", "phase0Temp, potential0 = self.effectivePotential.findLocalMinimum("
                 "self.startingPhaseLocationGuess, T0, tol=extraTol)"),
    ("verbatim", "phase0 = FieldPoint(phase0Temp[0])"),
    ("verbatim", "tolAbsolute = rTol * max(*abs(phase0), T0)"),
    ("def", "odeFunction"),
    ("verbatim", "ddVT0 = self.effectivePotential.deriv2Field2(phase0, T0)"),
    ("verbatim", "eigsT0 = np.linalg.eigvalsh(ddVT0)"),
    ("assert", "min(eigsT0) * max(eigsT0) > 0"),
    ("def", "spinodalEvent"),
    ("verbatim", "TList = np.full(1, T0)"),
    ("verbatim", "fieldList = np.full((1, phase0.numFields()), Fields((phase0,)))"),
    ("verbatim", "potentialEffList = np.full((1, 1), [potential0])"),
    ("verbatim", "keepMinFlag = self.minPossibleTemperature[1] and TMin <= "
                 "self.minPossibleTemperature[0]"),
    ("verbatim", "keepMaxFlag = self.maxPossibleTemperature[1] and TMax >= "
                 "self.maxPossibleTemperature[0]"),
    ("verbatim", "TMin = min(max(self.minPossibleTemperature[0], TMin), T0)"),
    ("verbatim", "TMax = max(min(self.maxPossibleTemperature[0], TMax), T0)"),
    ("verbatim", "scipyKwargs = {'rtol': rTol, 'atol': tolAbsolute, 'max_step': dT, "
                 "'first_step': None if phaseTracerFirstStep is None else "
                 "phaseTracerFirstStep * dT}"),
    ("verbatim", "endpoints = [TMax, TMin]"),
    ("for",),
    ("tail",),
]
TRACE_PARAMS = ["self", "TMin", "TMax", "dT", "rTol", "spinodal", "paranoid",
                "phaseTracerFirstStep"]


def _toplevel(fn, params):
    if params != TRACE_PARAMS:
        raise TranslateError("tracePhase parameters changed: %r" % (params,))
    body = list(fn.body)
    k = 0
    for item in TOPLEVEL:
        if item[0] == "tail":
            break
        if k >= len(body):
            raise TranslateError("tracePhase: statement %r is missing" % (item,))
        st = body[k]
        if item[0] == "doc":
            if isinstance(st, ast.Expr) and isinstance(st.value, ast.Constant) and \
                    isinstance(st.value.value, str):
                k += 1
            continue
        if item[0] == "verbatim":
            if ast.unparse(st) != item[1]:
                err(st, "top-level statement of tracePhase is not `%s`" % item[1])
        elif item[0] == "def":
            if not (isinstance(st, ast.FunctionDef) and st.name == item[1]):
                err(st, "expected the closure %s here" % item[1])
        elif item[0] == "assert":
            if not (isinstance(st, ast.Assert) and ast.unparse(st.test) == item[1]):
                err(st, "expected `assert %s` here" % item[1])
        elif item[0] == "for":
            if not isinstance(st, ast.For):
                err(st, "expected the loop over directions here")
        k += 1
    # no rebinding of parameters / pinned locals anywhere outside the statements above
    pinned = set(TRACE_PARAMS) | {"extraTol", "T0", "phase0", "potential0", "tolAbsolute",
                                  "scipyKwargs", "endpoints", "phase0Temp"}
    allowed = {"TMin": 1, "TMax": 1, "extraTol": 1, "T0": 1, "phase0": 1, "potential0": 1,
               "tolAbsolute": 1, "scipyKwargs": 1, "endpoints": 1, "phase0Temp": 1}
    seen = {}
    for n in ast.walk(fn):
        if isinstance(n, ast.FunctionDef) and n is not fn:
            continue
        if isinstance(n, ast.Name) and isinstance(n.ctx, (ast.Store, ast.Del)) and \
                n.id in pinned:
            seen[n.id] = seen.get(n.id, 0) + 1
    for nm, c in seen.items():
        if c > allowed.get(nm, 0):
            raise TranslateError("tracePhase rebinds %s (%d stores)" % (nm, c))
    # the closures may not rebind anything of the enclosing scope either
    for n in ast.walk(fn):
        if isinstance(n, (ast.Nonlocal, ast.Global)):
            err(n, "nonlocal/global in tracePhase")
    # the first table entry: (T0, phase0, potential0) with
    tr = Tr({"guess": ("guess", "Fld"), "T0": ("T0", "R"), "rTol": ("rTol", "R"),
             "extraTol": ("(extraTol_of rTol)", "R")}, {})
    call = ast.parse("self.effectivePotential.findLocalMinimum(guess, T0, tol=extraTol)",
                     mode="eval").body
    v, ty = tr.expr(call)
    if ty != "tuple:fields1,R":
        raise TranslateError("findLocalMinimum result type %s" % ty)
    tr2 = Tr({"phase0": ("phase0", "Fld"), "T0": ("T0", "R")}, {})
    dd, ty1 = tr2.expr(ast.parse("self.effectivePotential.deriv2Field2(phase0, T0)",
                                 mode="eval").body)
    tr2.env["ddVT0"] = (dd, ty1)
    eg, ty2 = tr2.expr(ast.parse("np.linalg.eigvalsh(ddVT0)", mode="eval").body)
    tr2.env["eigsT0"] = (eg, ty2)
    asr = [x for x in body if isinstance(x, ast.Assert)][0]
    test = tr2.test(asr.test)
    return ("(* first table entry: phase0, potential0 = findLocalMinimum(startingPhaseLocationGuess,"
            " T0, tol=extraTol) *)\n"
            "Definition first_point (guess : Fld) (T0 rTol : R) : Fld * R := %s.\n\n"
            "Definition first_eigs (phase0 : Fld) (T0 : R) : list R := %s.\n\n"
            "(* the stability assert before the loops *)\n"
            "Definition first_assert (phase0 : Fld) (T0 : R) : bool := %s." % (v, eg, test))



def _segments(wl, env):
    """The body of the stepping loop as named straight-line segments:
         seg_k : lstate -> lstate        consecutive statements without break/continue  (KUpd)
         seg_k : lstate -> bool          `if test: <logging>; break`                     (KBrk)
         seg_k, seg_k_do                 `if test: <updates>; continue`                  (KCont)
    and loop_body composing them in source order after the RK45 step.  Locals do not cross
    segment boundaries (fail closed on an unbound name)."""
    closures = {"spinodalEvent": ("spinodalEvent spinodal", ["R", "Fld"], "R")}
    P = "(T0 rTol : R) (spinodal paranoid : bool)"
    A = "T0 rTol spinodal paranoid"
    body = list(wl.body)
    st0 = body[0]
    if not (isinstance(st0, ast.Try) and len(st0.body) == 1 and
            isinstance(st0.body[0], ast.Expr) and
            ast.unparse(st0.body[0].value) == "ode.step()" and len(st0.handlers) == 1 and
            _handler_ok(st0.handlers[0].type) and not st0.orelse and not st0.finalbody):
        err(st0, "the loop does not start with the guarded ode.step()")
    h = Tr(env, LSTATE, closures).block(st0.handlers[0].body, "st", "BREAK")
    if h != "BREAK":
        err(st0, "handler of ode.step() does not end the loop")

    def plain(x):
        return not (_has(x, ast.Break) or _has(x, ast.Continue) or _has(x, ast.Return) or
                    _has(x, ast.Raise) or _has(x, ast.While) or _has(x, ast.For))

    def only_logging(xs):
        return all(isinstance(x, ast.Expr) and isinstance(x.value, ast.Call) and
                   ast.unparse(x.value.func).split(".")[0] == "logging" for x in xs)
    defs, kinds, comp = [], [], []
    # every segment takes the externals X (uniform arity after the Section is closed)
    DEP = "let _ := X in\n"
    k, i = 0, 1
    while i < len(body):
        x = body[i]
        if plain(x):
            grp = []
            while i < len(body) and plain(body[i]):
                grp.append(body[i])
                i += 1
            k += 1
            t = Tr(env, LSTATE, closures).block(grp, "st", None)
            defs.append("Definition seg_%d %s (st : lstate Fld) : lstate Fld :=\n%s%s." % (k, P, DEP, t))
            kinds.append("KUpd")
            comp.append(("upd", k))
            continue
        if isinstance(x, ast.If) and not x.orelse and x.body and \
                isinstance(x.body[-1], ast.Break) and only_logging(x.body[:-1]):
            k += 1
            t = Tr(env, LSTATE, closures).test(x.test)
            defs.append("Definition seg_%d %s (st : lstate Fld) : bool :=\n%s%s." % (k, P, DEP, t))
            kinds.append("KBrk")
            comp.append(("brk", k))
        elif isinstance(x, ast.If) and not x.orelse and x.body and \
                isinstance(x.body[-1], ast.Continue) and all(plain(y) for y in x.body[:-1]):
            k += 1
            t = Tr(env, LSTATE, closures).test(x.test)
            d = Tr(env, LSTATE, closures).block(x.body[:-1], "st", None)
            defs.append("Definition seg_%d %s (st : lstate Fld) : bool :=\n%s%s." % (k, P, DEP, t))
            defs.append("Definition seg_%d_do %s (st : lstate Fld) : lstate Fld :=\n%s%s." % (
                k, P, DEP, d))
            kinds.append("KCont")
            comp.append(("cont", k))
        else:
            err(x, "loop statement is neither straight-line, `if ..: break` nor "
                   "`if ..: ..; continue`")
        i += 1
    term = "(st, false)"
    for kind, n in reversed(comp):
        if kind == "upd":
            term = "let st := seg_%d %s st in\n%s" % (n, A, term)
        elif kind == "brk":
            term = "if seg_%d %s st then (st, true) else (\n%s)" % (n, A, term)
        else:
            term = "if seg_%d %s st then (seg_%d_do %s st, false) else (\n%s)" % (n, A, n, A,
                                                                             term)
    defs.append("Definition body_shape : list segkind := [%s]." % "; ".join(kinds))
    defs.append("Definition loop_body %s (st : lstate Fld) : lstate Fld * bool :=\n"
                "match rk_step X (l_ode st) with\n| None => (st, true)\n| Some ode_1 =>\n"
                "let st := (set_l_ode st ode_1) in\n%s\nend." % (P, term))
    return "\n\n".join(defs)


LSTATE = {
    "ode": ("(l_ode st)", "(set_l_ode st %s)", "ode"),
    "ode.t": ("(ode_t (l_ode st))", None, "R"),
    "ode.y": ("(ode_y (l_ode st))", "(set_l_ode st (set_y (l_ode st) %s))", "Fld"),
    "ode.step_size": ("(ode_h (l_ode st))", None, "R"),
    "potentialEffT": ("(l_pot st)", "(set_l_pot st %s)", "optR"),
    "TList": ("(l_T st)", "(set_l_T st %s)", "listR"),
    "fieldList": ("(l_F st)", "(set_l_F st %s)", "listF"),
    "potentialEffList": ("(l_P st)", "(set_l_P st %s)", "listP"),
}
RANGES = {
    "self.minPossibleTemperature[0]": ("(minT st)", "(set_minT st %s)", "R"),
    "self.minPossibleTemperature[1]": ("(minFlag st)", "(set_minFlag st %s)", "bool"),
    "self.maxPossibleTemperature[0]": ("(maxT st)", "(set_maxT st %s)", "R"),
    "self.maxPossibleTemperature[1]": ("(maxFlag st)", "(set_maxFlag st %s)", "bool"),
}
CSTATE = {
    "T": ("(c_T st)", "(set_c_T st %s)", "R"),
    "bConverged": ("(c_conv st)", "(set_c_conv st %s)", "bool"),
}


def gen_tracephase(src):
    tree = ast.parse(src)
    fn = _find_class_fn(tree, "FreeEnergy", "tracePhase")
    out, spans = [], {}
    params = [a.arg for a in fn.args.args]
    # ---- closures --------------------------------------------------------------------
    ode_fn = _closure(fn, "odeFunction")
    if [a.arg for a in ode_fn.args.args] != ["temperature", "field"]:
        err(ode_fn, "odeFunction parameters")
    tr = Tr({"temperature": ("temperature", "R"), "field": ("field", "Fld")}, {})
    body, ty = _ret_block(tr, ode_fn.body)
    if ty != "Fld":
        err(ode_fn, "odeFunction returns %s" % ty)
    out.append("Definition odeFunction (temperature : R) (field : Fld) : Fld :=\n%s." % body)
    spans["odeFunction"] = (ode_fn.lineno, ode_fn.end_lineno)
    sp_fn = _closure(fn, "spinodalEvent")
    if [a.arg for a in sp_fn.args.args] != ["temperature", "field"]:
        err(sp_fn, "spinodalEvent parameters")
    tr = Tr({"temperature": ("temperature", "R"), "field": ("field", "Fld"),
             "spinodal": ("spinodal", "bool")}, {})
    body, ty = _ret_block(tr, sp_fn.body)
    if ty != "R":
        err(sp_fn, "spinodalEvent returns %s" % ty)
    out.append("Definition spinodalEvent (spinodal : bool) (temperature : R) (field : Fld) "
               ": R :=\n%s." % body)
    spans["spinodalEvent"] = (sp_fn.lineno, sp_fn.end_lineno)
    # ---- every top-level statement of tracePhase must be one the model accounts for -----
    _ex = _only((x for x in fn.body if isinstance(x, ast.Assign) and
                 ast.unparse(x.targets[0]) == "extraTol"), "assignment to extraTol")
    out.append("Definition extraTol_of (rTol : R) : R := %s." %
               Tr({"rTol": ("rTol", "R")}, {}).expr(_ex.value)[0])
    out.append(_toplevel(fn, params))
    # ---- locals defined before the loops that the loop reads ---------------------------
    top = {}
    for s in fn.body:
        if isinstance(s, ast.Assign) and len(s.targets) == 1 and \
                isinstance(s.targets[0], ast.Name):
            top.setdefault(s.targets[0].id, []).append(s)
    t0 = _only(top.get("T0", []), "assignment to T0")
    if ast.unparse(t0.value) != "self.startingTemperature":
        err(t0, "T0 is not the starting temperature")
    # ---- the for loop over directions --------------------------------------------------
    floop = _only((s for s in fn.body if isinstance(s, ast.For)), "for loop")
    if ast.unparse(floop.iter) != "[0, 1]" or ast.unparse(floop.target) != "direction":
        err(floop, "direction loop")
    ends = _only(top.get("endpoints", []), "assignment to endpoints")
    if not (isinstance(ends.value, ast.List) and len(ends.value.elts) == 2 and
            all(isinstance(e, ast.Name) for e in ends.value.elts)):
        err(ends, "endpoints")
    if not (isinstance(floop.body[0], ast.Assign) and
            ast.unparse(floop.body[0]) == "TEnd = endpoints[direction]"):
        err(floop.body[0], "TEnd")
    pin = ["kwargs = dict(scipyKwargs)",
           "if kwargs['first_step'] is not None:\n    kwargs['first_step'] = "
           "min(kwargs['first_step'], abs(TEnd - T0)) or None"]
    if [ast.unparse(x) for x in floop.body[1:3]] != pin:
        err(floop.body[1], "RK45 options of one direction (the first step is limited to the "
                           "distance to the end, nothing else changes)")
    mk = floop.body[3]
    if not (isinstance(mk, ast.Assign) and ast.unparse(mk.targets[0]) == "ode" and
            isinstance(mk.value, ast.Call) and
            ast.unparse(mk.value.func) in ("scipyint.RK45", "scipy.integrate.RK45") and
            [ast.unparse(a) for a in mk.value.args] == ["odeFunction", "T0", "phase0",
                                                        "TEnd"] and
            [(k.arg, ast.unparse(k.value)) for k in mk.value.keywords] ==
            [(None, "kwargs")]):
        err(mk, "RK45 construction (function, start, end and **kwargs are pinned)")
    # direction d integrates from T0 to endpoints[d]
    out.append("(* direction 0 integrates from T0 towards %s, direction 1 towards %s *)" % (
        ends.value.elts[0].id, ends.value.elts[1].id))
    code = {"TMax": "true", "TMin": "false"}
    if sorted(e.id for e in ends.value.elts) != ["TMax", "TMin"]:
        err(ends, "endpoints are not TMax/TMin")
    out.append("Definition first_direction_is_up : bool := %s." % code[ends.value.elts[0].id])
    out.append("Definition second_direction_is_up : bool := %s." %
               code[ends.value.elts[1].id])
    # initial lists of the first sweep
    inits = {}
    for nm, want in (("TList", "np.full(1, T0)"),
                     ("fieldList", "np.full((1, phase0.numFields()), Fields((phase0,)))"),
                     ("potentialEffList", "np.full((1, 1), [potential0])")):
        a = [s for s in top.get(nm, [])]
        if not a or ast.unparse(a[0].value) != want:
            raise TranslateError("initial value of %s is not %s" % (nm, want))
    out.append("Definition first_sweep_lists (T0 : R) (phase0 : Fld) (potential0 : R) :=\n"
               "  ([T0], [phase0], [Some potential0]).")
    # ---- the while loop ----------------------------------------------------------------
    wl = floop.body[4]
    if not (isinstance(wl, ast.While) and ast.unparse(wl.test) == "ode.status == 'running'"
            and not wl.orelse):
        err(wl, "while loop")
    env = {"T0": ("T0", "R"), "rTol": ("rTol", "R"), "extraTol": ("(extraTol_of rTol)", "R"),
           "paranoid": ("paranoid", "bool"), "spinodal": ("spinodal", "bool")}
    out.append(_segments(wl, env))
    spans["loop_body"] = (wl.lineno, wl.end_lineno)
    out.append("Definition trace_dir (fuel : nat) (T0 rTol : R) (spinodal paranoid : bool) "
               "(st : lstate Fld) : lstate Fld :=\n  run_while fuel (fun st => "
               "ode_running (l_ode st)) (loop_body T0 rTol spinodal paranoid) st.")
    # ---- after the loop: keep the first sweep / join the second ------------------------
    post = floop.body[5:]
    if len(post) != 1 or not isinstance(post[0], ast.If) or \
            ast.unparse(post[0].test) != "direction == 0":
        err(post[0] if post else floop, "statements after the while loop")
    keep, second = post[0].body, post[0].orelse
    want_keep = ["TFullList = TList", "fieldFullList = fieldList",
                 "potentialEffFullList = potentialEffList",
                 "TList = np.empty(0, dtype=float)",
                 "fieldList = np.empty((0, phase0.numFields()), dtype=float)",
                 "potentialEffList = np.empty((0, 1), dtype=float)"]
    if [ast.unparse(s) for s in keep] != want_keep:
        err(post[0], "first-direction bookkeeping")
    out.append("(* after direction 0: Full lists := lists; the second sweep starts from "
               "empty lists *)")
    if len(second) != 1 or not isinstance(second[0], ast.If):
        err(post[0], "second-direction bookkeeping")
    jn = second[0]
    jenv = {"TList": ("TList", "listR"), "TFullList": ("TFullList", "listR"),
            "fieldList": ("fieldList", "listF"), "fieldFullList": ("fieldFullList", "listF"),
            "potentialEffList": ("potentialEffList", "listP"),
            "potentialEffFullList": ("potentialEffFullList", "listP")}
    tj = Tr(jenv, {})
    out.append("Definition join_cond (TList : list R) : bool := %s." % tj.test(jn.test))
    tys = {"listR": "list R", "listF": "list Fld", "listP": "list (option R)"}
    got = {}
    for s in jn.body:
        if not (isinstance(s, ast.Assign) and isinstance(s.targets[0], ast.Name)):
            err(s, "join statement")
        got[s.targets[0].id] = s
    for full, part, nm in (("TFullList", "TList", "join_T"),
                           ("fieldFullList", "fieldList", "join_F"),
                           ("potentialEffFullList", "potentialEffList", "join_P")):
        if full not in got:
            raise TranslateError("join does not assign %s" % full)
        v, ty = tj.expr(got[full].value)
        if ty != jenv[full][1]:
            err(got[full], "join type")
        out.append("Definition %s (%s %s : %s) : %s := %s." % (nm, part, full, tys[ty],
                                                             tys[ty], v))
    if len(got) != 3:
        err(jn, "join assigns other variables")
    # elif len(TFullList) <= 1: raise RuntimeError
    if not (len(jn.orelse) == 1 and isinstance(jn.orelse[0], ast.If) and
            isinstance(jn.orelse[0].body[0], ast.Raise) and not jn.orelse[0].orelse):
        err(jn, "failure branch of the join")
    out.append("Definition join_fails (TFullList : list R) : bool := %s." %
               tj.test(jn.orelse[0].test))
    spans["join"] = (jn.lineno, jn.end_lineno)
    # ---- clamping of the requested range -----------------------------------------------
    for nm in ("TMin", "TMax"):
        a = _only(top.get(nm, []), "assignment to " + nm)
        tc = Tr({nm: (nm, "R"), "T0": ("T0", "R")}, RANGES)
        v, ty = tc.expr(a.value)
        if ty != "R":
            err(a, "clamp")
        out.append("Definition clamp_%s (st : ranges) (%s T0 : R) : R := %s." % (nm, nm, v))
        if a.lineno > floop.lineno:
            err(a, "clamp after the loop")
    # ---- which previously set flags survive this call (evaluated BEFORE the clamps) --------
    for nm, par in (("keepMinFlag", "TMin"), ("keepMaxFlag", "TMax")):
        a = _only(top.get(nm, []), "assignment to " + nm)
        clamp = _only(top.get(par, []), "assignment to " + par)
        if not a.lineno < clamp.lineno < floop.lineno:
            err(a, "%s must be computed from the requested %s before it is clamped" % (nm, par))
        tk = Tr({par: (par, "R")}, RANGES)
        out.append("Definition %s (st : ranges) (%s : R) : bool := %s." % (
            {"keepMinFlag": "keep_min", "keepMaxFlag": "keep_max"}[nm], par, tk.test(a.value)))
    # ---- tail: statements after the for loop up to the interpolation --------------------
    idx = fn.body.index(floop)
    tail = []
    asserts_seen = []
    for s in fn.body[idx + 1:]:
        if isinstance(s, ast.If) and _has(s, ast.Call) and all(
                isinstance(b, ast.Expr) and ast.unparse(b.value).startswith("logging.")
                for b in s.body) and not s.orelse:
            continue      # a pure warning
        if isinstance(s, ast.Assign) and ast.unparse(s.targets[0]) == "result":
            break
        if isinstance(s, ast.Assert):
            # the only assert of the tail: list comparison [maxT, flag] > [minT, flag]
            # (lexicographic), evaluated after the two range stores and before the flags
            if ast.unparse(s.test) != "self.maxPossibleTemperature > self.minPossibleTemperature" \
                    or asserts_seen or len(tail) != 2:
                err(s, "assert in the tail of tracePhase")
            asserts_seen.append(s)
            ta = Tr({"TFullList": ("TFullList", "listR"), "dT": ("dT", "R")}, RANGES)
            out.append("Definition tail_assert (TFullList : list R) (dT : R) (st : ranges) : bool "
                       ":=\n%s." % ta.block(list(tail), "(Rltb (minT st) (maxT st) || (Reqb (minT st) "
                                            "(maxT st) && (maxFlag st && negb (minFlag st))))",
                                            None))
            continue
        if _has(s, ast.Raise) or _has(s, ast.Assert):
            err(s, "raise/assert in the tail of tracePhase")
        tail.append(s)
    endb = list(fn.body)
    frozen = ast.unparse(endb[-1]) == "self.disableAdaptiveInterpolation()"
    if frozen:
        endb = endb[:-1]
    out.append("(* after building the table tracePhase switches adaptive interpolation off, so that "
               "later direct evaluations cannot extend the traced table *)\n"
               "Definition table_frozen_after_trace : bool := %s." % ("true" if frozen else "false"))
    last = endb[-2:]
    if [ast.unparse(s) for s in last] != [
            "result = np.concatenate((fieldFullList, potentialEffFullList), axis=1)",
            "self.newInterpolationTableFromValues(TFullList, result)"]:
        err(fn.body[-1], "table construction")
    if not asserts_seen:
        raise TranslateError("the range assert of the tail of tracePhase is missing")
    tt = Tr({"TFullList": ("TFullList", "listR"), "dT": ("dT", "R"), "TMin": ("TMin", "R"),
             "TMax": ("TMax", "R"), "keepMinFlag": ("keepMinFlag", "bool"),
             "keepMaxFlag": ("keepMaxFlag", "bool")}, RANGES)
    body = tt.block(tail, "st", None)
    out.append("Definition tail (TFullList : list R) (dT TMin TMax : R) "
               "(keepMinFlag keepMaxFlag : bool) (st : ranges) : ranges :=\n%s." % body)
    spans["tail"] = (tail[0].lineno, tail[-1].end_lineno)
    # parameter order of tracePhase (for the call facts)
    return "\n\n".join(out), spans, params, fn


def gen_tc(src):
    tree = ast.parse(src)
    fn = _find_class_fn(tree, "Thermodynamics", "findCriticalTemperature")
    out, spans = [], {}
    wl = _only((s for s in fn.body if isinstance(s, ast.While)), "while loop")
    i = fn.body.index(wl)
    pre = [ast.unparse(s) for s in fn.body[i - 4:i]]
    want = ["T = TMax", "TStep = dT", "signAtStart = np.sign(freeEnergyDifference(T))",
            "bConverged = False"]
    if pre != want:
        raise TranslateError("initialisation of the Tc loop changed: %r" % (pre,))
    env = {"TStep": ("TStep", "R"), "TMin": ("TMin", "R"), "TMax": ("TMax", "R"),
           "signAtStart": ("(sgn (fd TMax))", "R")}
    tr = Tr(env, CSTATE, {"freeEnergyDifference": ("fd", ["R"], "R")})
    cond = tr.test(wl.test)
    body = tr.block(wl.body, "(st, false)", "(st, true)")
    out.append("Definition tc_cond (TStep TMin : R) (st : cstate) : bool := %s." % cond)
    out.append("Definition tc_body (fd : R -> R) (TStep TMax : R) (st : cstate) : "
               "cstate * bool :=\n%s." % body)
    out.append("Definition tc_loop (fuel : nat) (fd : R -> R) (TStep TMin TMax : R) : cstate "
               ":=\n  run_while fuel (tc_cond TStep TMin) (tc_body fd TStep TMax) "
               "(mk_cstate TMax false).")
    spans["tc_loop"] = (wl.lineno, wl.end_lineno)
    nxt = fn.body[i + 1]
    if not (isinstance(nxt, ast.If) and ast.unparse(nxt.test) == "not bConverged" and
            isinstance(nxt.body[0], ast.Raise)):
        err(nxt, "failure test after the Tc loop")
    out.append("(* `if not bConverged: raise` follows the loop *)")
    root = fn.body[i + 2]
    call = root.value if isinstance(root, ast.Assign) else None
    if not (isinstance(call, ast.Call) and ast.unparse(call.func) ==
            "scipy.optimize.root_scalar" and ast.unparse(call.args[0]) ==
            "freeEnergyDifference"):
        err(root, "root_scalar call")
    kws = {k.arg: k.value for k in call.keywords}
    if "bracket" not in kws or not isinstance(kws["bracket"], ast.Tuple):
        err(root, "bracket")
    v, ty = tr.expr(kws["bracket"])
    if ty != "tuple:R,R":
        err(root, "bracket type")
    out.append("Definition tc_bracket (TStep : R) (st : cstate) : R * R := %s." % v)
    # the difference whose sign is tested: f2 - f1 with f1 = High, f2 = Low
    fd = _closure(fn, "freeEnergyDifference")
    txt = [ast.unparse(s) for s in fd.body if not isinstance(s, ast.Expr)]
    if txt[:3] != ["f1 = self.freeEnergyHigh(inputT).veffValue",
                   "f2 = self.freeEnergyLow(inputT).veffValue", "diff = f2 - f1"]:
        raise TranslateError("freeEnergyDifference changed: %r" % (txt,))
    out.append("Definition freeEnergyDifference (fHigh fLow : R -> R) (inputT : R) : R := "
               "fLow inputT - fHigh inputT.")
    return "\n\n".join(out), spans


def call_facts(sources, params, fn):
    """Every call `<expr>.tracePhase(...)` in the given sources, with its arguments bound
    to the parameters of FreeEnergy.tracePhase."""
    names = params[1:]                       # without self
    defaults = {}
    ds = fn.args.defaults
    for p, d in zip(names[len(names) - len(ds):], ds):
        defaults[p] = d
    code = {"True": "X_True", "False": "X_False", "paranoid": "X_caller_paranoid",
            "rTol": "X_caller_rTol", "dT": "X_caller_dT"}
    calls = []
    for fname, src in sources.items():
        for n in ast.walk(ast.parse(src)):
            if isinstance(n, ast.Call) and isinstance(n.func, ast.Attribute) and \
                    n.func.attr == "tracePhase":
                bound = {}
                if any(isinstance(a, ast.Starred) for a in n.args) or \
                        any(k.arg is None for k in n.keywords):
                    err(n, "star arguments in a tracePhase call")
                if len(n.args) > len(names):
                    err(n, "too many arguments")
                for p, a in zip(names, n.args):
                    bound[p] = ("ByPosition", a)
                for k in n.keywords:
                    if k.arg not in names or k.arg in bound:
                        err(n, "bad keyword %s" % k.arg)
                    bound[k.arg] = ("ByKeyword", k.value)
                for p in names:
                    if p not in bound:
                        if p not in defaults:
                            err(n, "missing argument %s" % p)
                        bound[p] = ("ByDefault", defaults[p])

                def enc(p):
                    how, e = bound[p]
                    return "(%s %s)" % (how, code.get(ast.unparse(e), "X_other"))
                calls.append((fname, n.lineno, "mk_tracecall %s %s %s %d" % (
                    enc("rTol"), enc("spinodal"), enc("paranoid"), len(n.args))))
    if not calls:
        raise TranslateError("no tracePhase call found")
    body = ";\n   ".join("(* %s:%d *) %s" % c for c in calls)
    idx = [k for k, c in enumerate(calls) if c[0] == "thermodynamics.py"]
    return ("Definition trace_param_order : list nat := (* position of rTol, spinodal, "
            "paranoid among the parameters *) [%d; %d; %d]%%nat.\n"
            "Definition trace_calls : list tracecall :=\n  [%s].\n"
            "Definition tc_trace_calls : list tracecall := (* those inside "
            "findCriticalTemperature *)\n  [%s]." % (
                names.index("rTol"), names.index("spinodal"), names.index("paranoid"), body,
                "; ".join(calls[k][2] for k in idx))), calls


HEADER = """(* GENERATED by tools/gen_trace.py from src/WallGo/freeEnergy.py and thermodynamics.py *)
From Coq Require Import Reals List Bool.
From WG Require Import Lib.PhaseTrace Model.TraceBook.
Import ListNotations.
Local Open Scope R_scope.
Local Open Scope bool_scope.

Section Gen.
Context {Fld Hess : Type}.
Variable X : ext Fld Hess.

"""


def generate(src_free, src_thermo, src_manager, others=None):
    """`others`: {file name: source} of every further module of the package (call sites)"""
    a, spans, params, fn = gen_tracephase(src_free)
    b, spans2 = gen_tc(src_thermo)
    srcs = {"thermodynamics.py": src_thermo, "manager.py": src_manager,
            "freeEnergy.py": src_free}
    for k in sorted(others or {}):
        srcs.setdefault(k, others[k])
    c, calls = call_facts(srcs, params, fn)
    text = HEADER + a + "\n\nEnd Gen.\n\n" + b + "\n\n" + c + "\n"
    spans.update(spans2)
    return text, spans, calls
