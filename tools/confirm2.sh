#!/bin/bash
# tools/confirm2.sh Cxx : confirm round-2 seeded changes (1..3) in /tmp/wt2/Cxx
pid=$1; wt=/tmp/wt2/$pid; inc=/verif/seeded/${INC:-_incoming2}/$pid
run() { (cd $wt && PYTHONPATH=$wt/src:$wt PYTHONHASHSEED=0 timeout 1800 /venv/bin/python -W ignore "$@"); }
cd $wt || exit 2; git checkout -q -- . ; git checkout -q --detach main
for k in 1 2 3; do
  [ -f $inc/patch$k.diff ] || continue
  run $inc/demo$k.py > $inc/demo${k}_clean.log 2>&1; d0=$?
  git apply $inc/patch$k.diff || { echo "{\"applies\": false}" > $inc/confirm$k.json; continue; }
  run $inc/demo$k.py > $inc/demo${k}_mut.log 2>&1; d1=$?
  run -m pytest -q -p no:cacheprovider --timeout=900 -x --deselect tests/Benchmarks/SingletSM_Z2/test_EOM.py --deselect tests/test_Boltzmann.py > $inc/tests$k.log 2>&1; t=$?
  summary=$(tail -1 $inc/tests$k.log)
  git checkout -q -- .
  echo "{\"applies\": true, \"demo_clean_exit\": $d0, \"demo_mutant_exit\": $d1, \"tests_exit\": $t, \"tests_summary\": \"$summary\", \"base\": \"$(git rev-parse --short HEAD)\"}" > $inc/confirm$k.json
  echo "$pid $k $(cat $inc/confirm$k.json)"
done
