"""adopt2.py [Cxx ...]: move confirmed round-2 seeded changes that the check catches into /verif/seeded/Cxx-(k+2)/"""
import glob, json, os, re, shutil, sys
INC = os.environ.get("INC", "_incoming2")
OFF = {"_incoming2": 2, "_incoming3": 5, "../audit": 7, "../audit2": 10}[INC]
RND = {"_incoming2": 2, "_incoming3": 3, "../audit": 4, "../audit2": 5}[INC]
pids = sys.argv[1:] or sorted(os.path.basename(p) for p in glob.glob("/verif/seeded/%s/C*" % INC) if os.path.isdir(p))
for pid in pids:
    inc = "/verif/seeded/%s/%s" % (INC, pid)
    for k in (1, 2, 3):
        tl, cf = os.path.join(inc, "try%d.log" % k), os.path.join(inc, "confirm%d.json" % k)
        if not (os.path.exists(tl) and os.path.exists(cf)):
            continue
        log = open(tl).read()
        conf = json.load(open(cf))
        if "rc=1" not in log:
            print(pid, k, "NOT caught (yet)"); continue
        if not (conf.get("applies") and conf.get("demo_clean_exit") == 0 and conf.get("demo_mutant_exit", 0) != 0 and conf.get("tests_exit") == 0):
            print(pid, k, "not confirmed:", conf); continue
        lines = [re.sub(r"^\[C\d+\s+[\d.]+s\]\s*", "", l).strip() for l in log.splitlines()
                 if re.search(r"failed at|translator failed|FAILING INPUT|correspondence", l)]
        thm = [l for l in lines if l.startswith("Props failed at") or l.startswith("translator failed")]
        fin = [l for l in lines if l.startswith("FAILING INPUT")]
        note = "caught by ./check %s (quick): " % pid
        note += (thm[0][:160] if thm else "proofs unaffected (change is outside the translated formulas)")
        note += " + failing inputs: " + (fin[0][len("FAILING INPUT: "):][:220] if fin else "none found (no-failing-input-found)")
        dst = "/verif/seeded/%s-%d" % (pid, k + OFF)
        os.makedirs(dst, exist_ok=True)
        shutil.copy(os.path.join(inc, "patch%d.diff" % k), os.path.join(dst, "patch.diff"))
        shutil.copy(os.path.join(inc, "demo%d.py" % k), os.path.join(dst, "demo.py"))
        meta = json.load(open(os.path.join(inc, "meta%d.json" % k)))
        meta["breaks_property"] = pid
        meta["round"] = RND
        meta["confirmed_by_me"] = dict(how="scratch worktree /tmp/wt2/%s at /repo HEAD: demo on clean tree, git apply patch, demo again, 152 baseline tests (the 5 baseline-failing tests deselected), revert" % pid, **conf)
        meta["check_result"] = note
        json.dump(meta, open(os.path.join(dst, "meta.json"), "w"), indent=1)
        print(pid, k, "adopted ->", dst)
