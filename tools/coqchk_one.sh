#!/bin/bash
# tools/coqchk_one.sh Cxx : independent re-check of build/Cxx/Props_Cxx.vo and everything it depends on; axioms to trusted_base/
pid=$1
cd /verif/build/$pid || exit 2
( time timeout 10000 coqchk -silent -o -Q /verif/coq WG -Q . Gen$pid Gen$pid.Props_$pid ) > /verif/trusted_base/coqchk_$pid.txt 2>&1
echo "$pid coqchk rc=$? $(grep -c 'Axiom\|axiom' /verif/trusted_base/coqchk_$pid.txt)"
