#!/bin/bash
pid=$1
for s in 4 5 6 7 8; do
  VERIF_SEED=$s /verif/check $pid > /tmp/seed_${pid}_$s.log 2>&1; rc=$?
  echo "$pid seed=$s rc=$rc $(grep -E 'obligations' /tmp/seed_${pid}_$s.log | sed 's/.*\] //') $(grep -c VIOLATION /tmp/seed_${pid}_$s.log) viol"
done
