"""Generated models for C03 (shock profile / detonation front / efficiency factor) and C05
(LTE matching: entropy relation; template alpha bounds and decision rule).

Everything is regenerated from the CURRENT sources
    src/WallGo/hydrodynamics.py, src/WallGo/hydrodynamicsTemplateModel.py, src/WallGo/helpers.py
with a variant of the pyrx translator (subclass below).  The variant adds, fail-closed:
  * module-level helper functions (gammaSq, boostVelocity) as plain Coq functions,
  * boolean parameters (shockWave, constraint) -> Coq `bool` parameters,
  * `if cond: raise ...` guards -> recorded preconditions (the theorems assume them),
  * specialisation on `x is None` for an optional parameter (vp=None / vp given),
  * closures whose free variables are assigned by solvers (opaque, possibly tuples),
  * `synthetic` definitions cut out of a method body (a statement range + a result
    expression), used where the body around the formulas is scipy plumbing: the *shape* of
    that plumbing is checked structurally (see `_expect`) and a change there is a broken tie.
"""
from __future__ import annotations

import ast

import pyrx
from pyrx import Pattern, TranslateError, Env


class HydroTranslator(pyrx.ClassTranslator):
    def __init__(self, src, cls, attrs, externals, methods, prefix="", modfuns=None,
                 booleans=(), none_spec=None):
        super().__init__(src, cls, attrs, externals, methods, state=False, prefix=prefix)
        self.modfuns = modfuns or {}
        self.booleans = set(booleans)
        self.none_spec = dict(none_spec or {})     # name -> True (is None) / False
        self.preconditions = []
        self.facts = []

    # -- expressions --------------------------------------------------------------------
    def expr(self, node, env):
        # result object of a scalar root finder is modelled by its root
        if isinstance(node, ast.Attribute) and node.attr == "root" and \
                self.ext(node) is None and isinstance(node.value, (ast.Name, ast.Call)):
            return self.expr(node.value, env)
        return super().expr(node, env)

    def call(self, node, env):
        f = node.func
        if isinstance(f, ast.Name) and f.id in self.modfuns and not node.keywords:
            fn = self.modfuns[f.id]
            if len(node.args) != len(fn.args.args):
                raise TranslateError("arity of %s (line %d)" % (f.id, node.lineno))
            return "(%s %s)" % (f.id, " ".join(self.expr(a, env) for a in node.args))
        if isinstance(f, ast.Name) and f.id in ("min", "max") and len(node.args) > 2 \
                and not node.keywords:
            parts = [self.expr(a, env) for a in node.args]
            acc = parts[0]
            for p in parts[1:]:
                acc = "(R%s %s %s)" % (f.id, acc, p)
            return acc
        if isinstance(f, ast.Attribute) and isinstance(f.value, ast.Name) and \
                f.value.id == "self" and f.attr in self.methods and not node.keywords:
            fn = self.fn.get(f.attr)
            if fn is not None:
                formal = [a.arg for a in fn.args.args if a.arg != "self"]
                given = list(node.args)
                if len(given) < len(formal):
                    nd = len(fn.args.defaults)
                    defaults = dict(zip(formal[len(formal) - nd:], fn.args.defaults))
                    for name in formal[len(given):]:
                        if name not in defaults:
                            raise TranslateError("missing argument %s in %s (line %d)" % (
                                name, f.attr, node.lineno))
                        given.append(defaults[name])
                    node = ast.Call(func=f, args=given, keywords=[], lineno=node.lineno)
        return super().call(node, env)

    # -- tests --------------------------------------------------------------------------
    def test(self, node, env):
        if isinstance(node, ast.Name) and node.id in self.booleans and node.id in env.v:
            return env.v[node.id]
        if isinstance(node, ast.Constant) and isinstance(node.value, bool):
            return "true" if node.value else "false"
        return super().test(node, env)

    def static_none(self, node):
        """value of `x is None` / `x is not None` when x is specialised, else None"""
        if isinstance(node, ast.Compare) and len(node.ops) == 1 and \
                isinstance(node.left, ast.Name) and node.left.id in self.none_spec and \
                isinstance(node.comparators[0], ast.Constant) and \
                node.comparators[0].value is None:
            if isinstance(node.ops[0], ast.Is):
                return self.none_spec[node.left.id]
            if isinstance(node.ops[0], ast.IsNot):
                return not self.none_spec[node.left.id]
        return None

    # -- statements ---------------------------------------------------------------------
    def block(self, stmts, env, k):
        if stmts:
            st, rest = stmts[0], stmts[1:]
            if isinstance(st, ast.If):
                sn = self.static_none(st.test)
                if sn is not None:
                    return self.block((st.body if sn else st.orelse) + rest, env, k)
                if len(st.body) == 1 and isinstance(st.body[0], ast.Raise) and \
                        not st.orelse:
                    self.preconditions.append("not (%s)" % ast.unparse(st.test))
                    return self.block(rest, env, k)
        return super().block(stmts, env, k)

    # -- definitions --------------------------------------------------------------------
    def define(self, coq_name, params, stmts, result=None, span=None, plain=False,
               closures=None):
        """Definition coq_name (e) params := <stmts>; falling off the end yields the
        translation of the expression node `result` (if given)."""
        env = Env()
        for p, ty in params:
            env.v[p] = p
            n = ty.count("*") + 1 if "*" in ty else 0
            if n:
                env.v[(p, "arity")] = n
        for cn, term in (closures or {}).items():
            env.v[(cn, "closure")] = term

        def end(env2):
            if result is None:
                raise TranslateError("%s can fall off its end" % coq_name)
            return self.expr(result, env2)
        body = self.block(list(stmts), env, end)
        if plain and pyrx._mentions_word(body, "e"):
            raise TranslateError("%s is not closed (uses the environment)" % coq_name)
        head = "" if plain else "(e : %senv) " % self.prefix
        args = " ".join("(%s : %s)" % p for p in params)
        if span is not None:
            self.spans[coq_name] = (span.lineno, span.end_lineno,
                                    pyrx._sha(ast.unparse(span)))
        return "Definition %s %s%s :=\n  %s." % (coq_name, head, args, body)

    def method_def(self, name, types=None, coq_name=None, closures=None):
        fn = self.fn.get(name)
        if fn is None:
            raise TranslateError("method %s not found" % name)
        types = types or {}
        params = [(a.arg, types.get(a.arg, "bool" if a.arg in self.booleans else "R"))
                  for a in fn.args.args if a.arg != "self"]
        return self.define(coq_name or self.an(name), params, fn.body, span=fn,
                           closures=closures)

    def closure_def(self, method, cname, coq_name, opaque=(), types=None):
        """closure `cname` of `method`; free variables listed in `opaque` (name -> Coq
        type) become parameters, statements assigning them are skipped."""
        fn = self.fn.get(method)
        if fn is None:
            raise TranslateError("method %s not found" % method)
        types = types or {}
        opaque = dict(opaque)
        mparams = [(a.arg, types.get(a.arg, "R")) for a in fn.args.args
                   if a.arg != "self" and a.arg not in self.none_spec]
        found = _path_to_def(fn.body, cname)
        if found is None:
            raise TranslateError("closure %s not found in %s" % (cname, method))
        before, target = found
        prefix = [st for st in before if not pyrx._assigns_any(st, opaque)]
        cparams = [(a.arg, types.get(a.arg, "R")) for a in target.args.args]
        given = set(p for p, _ in mparams) | set(opaque)
        needed = pyrx._needed(prefix, target, given)
        allp = mparams + [(o, t) for o, t in opaque.items()] + cparams
        text = self.define(coq_name, allp, needed + list(target.body), span=target)
        # drop parameters the body does not mention (keeps statements readable)
        head, body = text.split(":=\n", 1)
        used = [p for p in allp if pyrx._mentions_word(body, p[0])]
        args = " ".join("(%s : %s)" % p for p in used)
        return "Definition %s (e : %senv) %s :=\n%s" % (coq_name, self.prefix, args,
                                                         body), [p[0] for p in used]


def _path_to_def(body, cname):
    """(statements executed before the nested def `cname` on the path to it, the def);
    the def may sit inside if-blocks (their preceding siblings are included)"""
    before = []
    for st in body:
        if isinstance(st, ast.FunctionDef) and st.name == cname:
            return before, st
        if isinstance(st, ast.If):
            for blk in (st.body, st.orelse):
                r = _path_to_def(blk, cname)
                if r is not None:
                    return before + r[0], r[1]
        before.append(st)
    return None


def pyrx_closure_args(fn, cname):
    r = _path_to_def(fn.body, cname)
    if r is None:
        raise TranslateError("closure %s not found" % cname)
    return r[1].args.args


def _find(body, pred, what):
    hits = [n for st in body for n in ast.walk(st) if pred(n)]
    if len(hits) != 1:
        raise TranslateError("expected exactly one %s, found %d" % (what, len(hits)))
    return hits[0]


def _expect(cond, what):
    if not cond:
        raise TranslateError("source no longer has the expected shape: " + what)


def _norm(s):
    return s.replace("(", "").replace(")", "").replace(" ", "")


def _kw(call, name):
    for k in call.keywords:
        if k.arg == name:
            return k.value
    return None


def _is_attr(node, dotted):
    try:
        return ast.unparse(node) == dotted
    except Exception:
        return False


def helper_functions(src_helpers, names):
    tree = ast.parse(src_helpers)
    out = {}
    for n in tree.body:
        if isinstance(n, ast.FunctionDef) and n.name in names:
            out[n.name] = n
    for nm in names:
        if nm not in out:
            raise TranslateError("helper %s not found in helpers.py" % nm)
    return out


THERMO = [
    Pattern("self.thermodynamics.csqHighT(_0)", "csqHighT", "R -> R"),
    Pattern("self.thermodynamics.csqLowT(_0)", "csqLowT", "R -> R"),
    Pattern("self.thermodynamics.wHighT(_0)", "wHighT", "R -> R"),
    Pattern("self.thermodynamics.wLowT(_0)", "wLowT", "R -> R"),
    Pattern("self.thermodynamics.pHighT(_0)", "pHighT", "R -> R"),
    Pattern("self.thermodynamics.pLowT(_0)", "pLowT", "R -> R"),
    Pattern("self.thermodynamics.eHighT(_0)", "eHighT", "R -> R"),
    Pattern("self.thermodynamics.eLowT(_0)", "eLowT", "R -> R"),
    Pattern("self.template.alN", "alN", "R"),
    Pattern("self._inverseMappingT(_0)", "invMap", "R * R -> R * R"),
]
HYDRO_ATTRS = ["Tnucl", "TMinHydro", "TMaxHydro"]
TEMPLATE_ATTRS = ["cs2", "cb2", "cb", "cs", "alN", "psiN", "mu", "nu", "vJ", "Tnucl"]


def _helpers_text(tr, modfuns):
    out = []
    for nm, fn in modfuns.items():
        params = [(a.arg, "R") for a in fn.args.args]
        out.append(tr.define(nm, params, fn.body, span=fn, plain=True))
    return out


# ---------------------------------------------------------------------------------------
# C03

def _front_state(tr, fn, shock_extra=()):
    """(vmShock, xiShock, TmShock) chosen by the head of solveHydroShock: the three-way
    branch in front of TiiShock, with the outcome of solve_ivp as parameters."""
    body = fn.body
    idx = None
    for i, st in enumerate(body):
        if isinstance(st, ast.If) and pyrx._assigns_any(st, ["xiShock"]):
            idx = i
            break
    _expect(idx is not None, "solveHydroShock: branch assigning xiShock")
    br = body[idx]
    _expect(len(br.orelse) == 1 and isinstance(br.orelse[0], ast.If),
            "solveHydroShock: if / elif / else around solve_ivp")
    last = br.orelse[0].orelse
    call = _find(last, lambda n: isinstance(n, ast.Call) and
                 ast.unparse(n.func) == "solve_ivp", "solve_ivp call in solveHydroShock")
    _expect(len(call.args) == 3 and _is_attr(call.args[0], "self.shockDE"),
            "solve_ivp integrates self.shockDE")
    _expect(isinstance(call.args[1], (ast.List, ast.Tuple)) and
            ast.unparse(call.args[1].elts[0]) == "vpcent" and
            pyrx.const_value(call.args[1].elts[1]) is not None and
            0 < pyrx.const_value(call.args[1].elts[1]) <= pyrx.Fraction(1, 10 ** 6),
            "integration runs from vpcent down to a tiny positive velocity")
    _expect(ast.unparse(call.args[2]) == "xi0T0", "initial state xi0T0")
    _expect(_kw(call, "events") is not None and ast.unparse(_kw(call, "events")) == "shock",
            "events=shock")
    _expect(_kw(call, "rtol") is not None and _is_attr(_kw(call, "rtol"), "self.rtol"),
            "rtol=self.rtol")
    term = [st for st in body if isinstance(st, ast.Assign) and
            ast.unparse(st.targets[0]) == "shock.terminal"]
    _expect(len(term) == 1 and isinstance(term[0].value, ast.Constant) and
            term[0].value.value is True, "shock.terminal = True")
    res = [_norm(ast.unparse(st)) for st in last[1:]]
    _expect(res == ["vmShock=solshock.t[-1]", "xiShock,TmShock=solshock.y[:,-1]"],
            "shock-front state is the last point of the solve_ivp solution")
    tr.facts.append("solveHydroShock: solve_ivp(self.shockDE, [vpcent, %s], [vw, Tp], "
                    "events=shock (terminal), rtol=self.rtol, atol=0)" %
                    ast.unparse(call.args[1].elts[1]))
    # synthetic body: prefix up to the branch, with the solver branch replaced
    repl = ast.parse("vmShock = ivpV\nxiShock = ivpXi\nTmShock = ivpT").body
    inner = ast.If(test=br.orelse[0].test, body=br.orelse[0].body, orelse=repl)
    outer = ast.If(test=br.test, body=br.body, orelse=[inner])
    pre = []
    for st in body[:idx]:
        if isinstance(st, ast.Assign) and ast.unparse(st.targets[0]) == "shock.terminal":
            continue
        pre.append(st)
    for n in ast.walk(outer):
        if not hasattr(n, "lineno"):
            n.lineno = br.lineno
    result = ast.parse("(vmShock, xiShock, TmShock)", mode="eval").body
    params = [("vw", "R"), ("vp", "R"), ("Tp", "R"), ("ivpV", "R"), ("ivpXi", "R"),
              ("ivpT", "R")]
    # the nested `shock` closure is called in the test: make it callable
    shock_def = [st for st in pre if isinstance(st, ast.FunctionDef) and st.name == "shock"]
    _expect(len(shock_def) == 1, "closure shock defined before the branch")
    pre = [st for st in pre if not isinstance(st, ast.FunctionDef)]

    class _T(ast.NodeTransformer):
        def visit_Call(self, node):
            self.generic_visit(node)
            if isinstance(node.func, ast.Name) and node.func.id == "shock":
                return ast.Call(func=ast.Attribute(value=ast.Name(id="self", ctx=ast.Load()),
                                                   attr="shock__closure", ctx=ast.Load()),
                                args=node.args, keywords=[], lineno=br.lineno)
            return node
    outer = _T().visit(outer)
    ast.fix_missing_locations(outer)
    tr.methods.append("shock__closure")
    text = tr.define("frontState", params, pre + [outer], result=result, span=br)
    tr.methods.remove("shock__closure")
    # the closure may depend on locals of the method (they are its leading parameters)
    return text.replace("(shock__closure e ", "(shock e " + "".join(
        p + " " for p in shock_extra))


def _kappa(tr, fn, which):
    """integrand, enthalpy sample and prefactor of kappaSW / kappaRW in efficiencyFactor"""
    name = "kappa" + which
    asg = _find(fn.body, lambda n: isinstance(n, ast.Assign) and
                ast.unparse(n.targets[0]) == name and
                any(isinstance(c, ast.Call) and ast.unparse(c.func) == "simpson"
                    for c in ast.walk(n.value)), "assignment %s = ... simpson(...)" % name)
    simp = _find([asg], lambda n: isinstance(n, ast.Call) and
                 ast.unparse(n.func) == "simpson", "simpson call for " + name)
    y, x = _kw(simp, "y"), _kw(simp, "x")
    _expect(y is not None and x is not None and not simp.args, "simpson(y=..., x=...)")
    _only_keywords(simp, ("y", "x"), "simpson")
    stores = [n for n in ast.walk(fn) if isinstance(n, (ast.Assign, ast.AugAssign)) and any(
        isinstance(t, ast.Name) and t.id == name for t in (
            n.targets if isinstance(n, ast.Assign) else [n.target]))]
    _expect(len(stores) == 2 and all(isinstance(n, ast.Assign) for n in stores) and
            sorted(ast.unparse(n.value) == "0.0" for n in stores) == [False, True],
            "%s is initialised to 0.0 and assigned once more (the quadrature)" % name)
    _expect(ast.unparse(x) == "xi", "%s integrates over xi" % name)
    # the block that contains the assignment: check where xi, vPlasma, T, enthalpy come from
    parent = None
    for n in ast.walk(fn):
        if isinstance(n, ast.If) and asg in n.body:
            parent = n
    _expect(parent is not None, "%s assigned inside its if-block" % name)
    ivp = [st for st in parent.body if isinstance(st, ast.Assign) and
           isinstance(st.value, ast.Call) and ast.unparse(st.value.func) == "solve_ivp"]
    _expect(len(ivp) == 1, "one solve_ivp in the block of " + name)
    sol = ast.unparse(ivp[0].targets[0])
    _expect(_is_attr(ivp[0].value.args[0], "self.shockDE"),
            "%s integrates self.shockDE" % name)
    wave_args = _kw(ivp[0].value, "args")
    if which == "SW":
        _expect(wave_args is None and _kw(ivp[0].value, "events") is not None,
                "shock wave: default shockWave=True, terminal event")
    else:
        _expect(wave_args is not None and ast.unparse(wave_args) == "(False,)",
                "rarefaction wave: args=(False,)")
    want = {"vPlasma": "%s.t" % sol, "xi": "%s.y[0]" % sol, "T": "%s.y[1]" % sol}
    got = {ast.unparse(st.targets[0]): ast.unparse(st.value) for st in parent.body
           if isinstance(st, ast.Assign)}
    for kname, v in want.items():
        _expect(got.get(kname) == v, "%s = %s in the block of %s" % (kname, v, name))
    enth = [st for st in parent.body if isinstance(st, ast.Assign) and
            ast.unparse(st.targets[0]) == "enthalpy"]
    _expect(len(enth) == 1, "enthalpy assigned once")
    comp = _find(enth, lambda n: isinstance(n, ast.ListComp), "list comprehension for enthalpy")
    _expect(len(comp.generators) == 1 and ast.unparse(comp.generators[0].iter) == "T" and
            isinstance(comp.generators[0].target, ast.Name) and
            not comp.generators[0].ifs, "enthalpy = [w(t) for t in T]")
    tvar = comp.generators[0].target.id
    out = []
    out.append(tr.define("kappa%s_enthalpy" % which, [(tvar, "R")], [], result=comp.elt,
                         span=enth[0]))
    out.append(tr.define("kappa%s_integrand" % which,
                         [("xi", "R"), ("vPlasma", "R"), ("enthalpy", "R")], [], result=y,
                         span=asg))
    # the quadrature call is replaced by the name `integral`
    txt = ast.unparse(asg.value).replace(ast.unparse(simp), "integral")
    val = ast.parse(txt, mode="eval").body
    for n in ast.walk(val):
        n.lineno = asg.lineno
    out.append(tr.define("kappa%s_of" % which, [("vw", "R"), ("integral", "R")], [],
                         result=val, span=asg))
    return out


def _deton_front(tr, fn):
    """(v+, T+) returned by matchDeton: their (only) definitions at the head"""
    rets = [n for n in ast.walk(fn) if isinstance(n, ast.Return) and n.value is not None
            and isinstance(n.value, ast.Tuple) and len(n.value.elts) == 4]
    _expect(len(rets) == 1, "matchDeton has one `return (vp, vm, Tp, Tm)`")
    e0, e2 = rets[0].value.elts[0], rets[0].value.elts[2]
    _expect(isinstance(e0, ast.Name) and isinstance(e2, ast.Name), "returns names")
    nested = [n for n in fn.body if isinstance(n, ast.FunctionDef)]
    inner = set()
    for d in nested:
        for n in ast.walk(d):
            inner.add(id(n))
    stmts = []
    for nm in (e0.id, e2.id):
        stores = [n for n in ast.walk(fn) if isinstance(n, ast.Name) and n.id == nm and
                  isinstance(n.ctx, ast.Store) and id(n) not in inner]
        _expect(len(stores) == 1, "%s assigned exactly once in matchDeton" % nm)
        st = [s for s in fn.body if isinstance(s, ast.Assign) and s.targets[0] is stores[0]]
        _expect(len(st) == 1, "%s assigned at the top level of matchDeton" % nm)
        stmts.append(st[0])
    result = ast.Tuple(elts=[e0, e2], ctx=ast.Load(), lineno=rets[0].lineno)
    return tr.define("matchDeton_front", [("vw", "R")], stmts, result=result, span=fn)


def _find_matching_deton(tr, fn):
    """findMatching: the detonation branch is exactly matchDeton(vwTry) when vwTry > vJ"""
    first = [st for st in fn.body if isinstance(st, ast.If)]
    _expect(first and ast.unparse(first[0].test) == "vwTry > self.vJ",
            "findMatching branches on vwTry > self.vJ")
    b = first[0].body
    _expect(len(b) == 1 and _norm(ast.unparse(b[0])) ==
            "vp,vm,Tp,Tm=self.matchDetonvwTry", "detonation branch = matchDeton")
    top = [st for st in fn.body if not (isinstance(st, ast.Expr) and
                                        isinstance(st.value, ast.Constant))]
    _expect(len(top) == 2 and isinstance(top[0], ast.If) and isinstance(top[1], ast.Return),
            "findMatching is exactly `if vwTry > self.vJ: ... else: ...` followed by the return")
    ret = fn.body[-1]
    _expect(isinstance(ret, ast.Return) and _norm(ast.unparse(ret.value)) == "vp,vm,Tp,Tm",
            "findMatching returns (vp, vm, Tp, Tm)")
    tr.facts.append("findMatching: vwTry > vJ  =>  result = matchDeton(vwTry)")



def _only_keywords(call, allowed, what):
    extra = [k.arg for k in call.keywords if k.arg not in allowed]
    _expect(not extra, "%s: no other keywords (%r)" % (what, extra))


def _plain_statements(stmts, what):
    """no bare expression statements besides docstrings/comments-as-strings and logging"""
    for st in stmts:
        for n in ast.walk(st):
            if isinstance(n, ast.Expr):
                v = n.value
                ok = (isinstance(v, ast.Constant) and isinstance(v.value, str)) or (
                    isinstance(v, ast.Call) and isinstance(v.func, ast.Attribute) and
                    isinstance(v.func.value, ast.Name) and v.func.value.id == "logging")
                _expect(ok, "%s: unexpected expression statement %s" % (
                    what, ast.unparse(n)[:60]))


def _check_ivp(call, fun, start, y0, events, span_end_max, what):
    """structural facts of a solve_ivp call (fail closed)"""
    _expect(len(call.args) == 3 and _is_attr(call.args[0], fun), what + ": integrates " + fun)
    _expect(isinstance(call.args[1], (ast.List, ast.Tuple)) and len(call.args[1].elts) == 2
            and ast.unparse(call.args[1].elts[0]) == start, what + ": starts at " + start)
    end = pyrx.const_value(call.args[1].elts[1])
    _expect(end is not None and 0 < end <= span_end_max,
            what + ": runs down to a tiny positive velocity")
    _expect(ast.unparse(call.args[2]) == y0, what + ": initial state " + y0)
    ev = _kw(call, "events")
    if events is None:
        _expect(ev is None, what + ": no terminal event")
    else:
        _expect(ev is not None and ast.unparse(ev) == events, what + ": events=" + events)
    _expect(_kw(call, "rtol") is not None and _is_attr(_kw(call, "rtol"), "self.rtol"),
            what + ": rtol=self.rtol")
    at = _kw(call, "atol")
    _expect(at is not None and pyrx.const_value(at) == 0, what + ": atol=0")
    extra = [k.arg for k in call.keywords if k.arg not in ("events", "rtol", "atol", "args")]
    _expect(not extra, what + ": no other keywords (%r)" % extra)


def _kappa_plan(tr, fn):
    """Head of efficiencyFactor: which waves are integrated and from which state.  The
    solve_ivp/simpson blocks are replaced by assignments of (flag, start v, start xi, start T);
    the shape of the replaced calls is checked structurally."""
    body = fn.body
    first = [st for st in body if isinstance(st, ast.Assign) and isinstance(st.value, ast.Call)
             and _is_attr(st.value.func, "self.findMatching")]
    _expect(len(first) == 1 and _norm(ast.unparse(first[0])) == "vp,vm,Tp,Tm=self.findMatchingvw",
            "efficiencyFactor: vp, vm, Tp, Tm = self.findMatching(vw)")
    tr.facts.append("efficiencyFactor integrates from the state returned by self.findMatching(vw)")
    ifs = [st for st in body if isinstance(st, ast.If)]
    _expect(len(ifs) == 2, "efficiencyFactor: two top-level if-blocks (shock wave, rarefaction)")
    ret = body[-1]
    _expect(isinstance(ret, ast.Return) and _norm(ast.unparse(ret.value)) == "kappaSW+kappaRW",
            "efficiencyFactor returns kappaSW + kappaRW")
    sw, rw = ifs
    # --- shock wave block
    inner = [st for st in sw.body if isinstance(st, ast.If)]
    _expect(len(inner) == 1 and not inner[0].orelse and not sw.orelse,
            "shock-wave block: one inner guard, no else")
    term = [st for st in sw.body if isinstance(st, ast.Assign) and
            ast.unparse(st.targets[0]) == "shock.terminal"]
    _expect(len(term) == 1 and isinstance(term[0].value, ast.Constant) and
            term[0].value.value is True, "efficiencyFactor: shock.terminal = True")
    ivp = [st for st in inner[0].body if isinstance(st, ast.Assign) and
           isinstance(st.value, ast.Call) and ast.unparse(st.value.func) == "solve_ivp"]
    _expect(len(ivp) == 1, "one solve_ivp in the shock-wave block")
    _check_ivp(ivp[0].value, "self.shockDE", "vpcent", "xi0T0", "shock",
               pyrx.Fraction(1, 10 ** 6), "efficiencyFactor shock wave")
    _expect(_kw(ivp[0].value, "args") is None, "shock wave: default shockWave=True")
    # --- rarefaction block
    _expect(not rw.orelse, "rarefaction block has no else")
    ivr = [st for st in rw.body if isinstance(st, ast.Assign) and
           isinstance(st.value, ast.Call) and ast.unparse(st.value.func) == "solve_ivp"]
    _expect(len(ivr) == 1, "one solve_ivp in the rarefaction block")
    _check_ivp(ivr[0].value, "self.shockDE", "vmcent", "xi0T0", None,
               pyrx.Fraction(1, 10 ** 6), "efficiencyFactor rarefaction wave")
    _expect(ast.unparse(_kw(ivr[0].value, "args")) == "(False,)", "rarefaction: args=(False,)")

    def plan(prefix, stmts_before, startname):
        src = ("%sOn = 1\n%sV = %s\n%sXi = xi0T0[0]\n%sT = xi0T0[1]" % (
            prefix, prefix, startname, prefix, prefix))
        return stmts_before + ast.parse(src).body
    sw_pre = [st for st in inner[0].body[:inner[0].body.index(ivp[0])]]
    rw_pre = [st for st in rw.body[:rw.body.index(ivr[0])]]
    sw_keep = [st for st in sw.body if not isinstance(st, (ast.FunctionDef, ast.If)) and
               st is not term[0]]
    new_inner = ast.If(test=inner[0].test, body=plan("sw", sw_pre, "vpcent"), orelse=[])
    new_sw = ast.If(test=sw.test, body=sw_keep + [new_inner], orelse=[])
    new_rw = ast.If(test=rw.test, body=plan("rw", rw_pre, "vmcent"), orelse=[])
    init = ast.parse("swOn = 0\nswV = 0\nswXi = 0\nswT = 0\nrwOn = 0\nrwV = 0\nrwXi = 0\n"
                     "rwT = 0").body
    result = ast.parse("((swOn, swV, swXi, swT), (rwOn, rwV, rwXi, rwT))", mode="eval").body
    stmts = init + [new_sw, new_rw]
    for st in stmts:
        for n in ast.walk(st):
            if not hasattr(n, "lineno"):
                n.lineno = fn.lineno
        ast.fix_missing_locations(st)
    for n in ast.walk(result):
        n.lineno = fn.lineno
    params = [("vw", "R"), ("vp", "R"), ("vm", "R"), ("Tp", "R"), ("Tm", "R")]
    return tr.define("kappaPlan", params, stmts, result=result, span=fn,
                     closures={"shock": "shock_kappa e"})


def _shoot_residual(tr, fn):
    """deflagration/hybrid branch of findMatching: the closure handed to the root finder, and
    the control flow around it (structural, fail closed)"""
    first = [st for st in fn.body if isinstance(st, ast.If)][0]
    els = first.orelse
    nested = [n for st in els for n in ast.walk(st)
              if isinstance(n, (ast.FunctionDef, ast.Lambda))]
    inner = set()
    for d in nested:
        for n in ast.walk(d):
            if n is not d:
                inner.add(id(n))
    rets = sorted((n for st in els for n in ast.walk(st)
                   if isinstance(n, ast.Return) and id(n) not in inner), key=lambda n: n.lineno)
    _expect([_norm(ast.unparse(r.value)) for r in rets] ==
            ["self.template.findMatchingvwTemplate"],
            "findMatching (deflagration/hybrid): the only early return is the template fallback")
    fb = rets[0]
    # the fallback sits in the no-sign-change branch, guarded by `extremum.fun > 0`
    guards = sorted((n for st in els for n in ast.walk(st) if isinstance(n, ast.If) and
                     any(fb is m for m in ast.walk(n))), key=lambda n: n.lineno)
    _expect(len(guards) >= 2 and ast.unparse(guards[-1].test) == "extremum.fun > 0" and
            ast.unparse(guards[-2].test) == "shockTnuclDiffMin * shockTnuclDiffMax <= 0" and
            any(fb is m for st in guards[-2].orelse for m in ast.walk(st)),
            "template fallback only when no sign change and the extremum does not cross zero")
    last = els[-1]
    _expect(isinstance(last, ast.Assign) and _norm(ast.unparse(last)) ==
            "vp,vm,Tp,Tm=self.matchDeflagOrHybvwTry,sol.root",
            "findMatching returns matchDeflagOrHyb(vwTry, sol.root)")
    sols = [n for st in els for n in ast.walk(st) if isinstance(n, ast.Assign) and
            ast.unparse(n.targets[0]) == "sol"]
    _expect(len(sols) == 2, "two assignments to sol")
    for a in sols:
        c = a.value
        _expect(isinstance(c, ast.Call) and ast.unparse(c.func) == "root_scalar" and
                ast.unparse(c.args[0]) == "shockTnuclDiff" and
                _kw(c, "bracket") is not None and
                ast.unparse(_kw(c, "bracket").elts[0]) == "vpmin" and
                _is_attr(_kw(c, "xtol"), "self.atol") and _is_attr(_kw(c, "rtol"), "self.rtol"),
                "sol = root_scalar(shockTnuclDiff, bracket=[vpmin, .], xtol=self.atol, "
                "rtol=self.rtol)")
        _only_keywords(c, ("bracket", "xtol", "rtol"), "root_scalar(shockTnuclDiff)")
        _expect(len(c.args) == 1, "root_scalar(shockTnuclDiff): one positional argument")
    _plain_statements(els, "findMatching (deflagration/hybrid)")
    kinds = [type(st).__name__ for st in els if not (isinstance(st, ast.Expr))]
    _expect(kinds == ["Assign", "Assign", "FunctionDef", "Assign", "Assign", "If", "If",
                      "Assign"],
            "statement sequence of the deflagration/hybrid branch of findMatching: %r" % kinds)
    _expect(_norm(ast.unparse(els[0])) == "vpmin=self.vBracketLow", "vpmin = self.vBracketLow")
    tr.facts.append("findMatching (vw <= vJ): v+ = root of shockTnuclDiff on [vBracketLow, .] "
                    "unless no sign change and no crossing extremum (template fallback); no "
                    "other return")
    txt, used = tr.closure_def("findMatching", "shockTnuclDiff", "shootResidual")
    _expect(used == ["vwTry", "vpTry"], "shockTnuclDiff depends on (vwTry, vpTry): %r" % used)
    return txt


def _solve_shock_tail(tr, fn):
    """solveHydroShock after TiiShock: every root finder call works on TiiShock and the
    method returns the root (or raises when not converged)"""
    calls = [n for n in ast.walk(fn) if isinstance(n, ast.Call) and
             ast.unparse(n.func) == "root_scalar"]
    _expect(len(calls) == 2 and all(ast.unparse(c.args[0]) == "TiiShock" for c in calls),
            "solveHydroShock: both root_scalar calls find a zero of TiiShock")
    methods = sorted(ast.unparse(_kw(c, "method")) for c in calls)
    _expect(methods == ["'brentq'", "'secant'"], "brentq on a bracket, else secant")
    for c in calls:
        _expect(_is_attr(_kw(c, "xtol"), "self.atol") and _is_attr(_kw(c, "rtol"), "self.rtol"),
                "solveHydroShock root finders use xtol=self.atol, rtol=self.rtol")
        _only_keywords(c, ("bracket", "method", "x0", "x1", "xtol", "rtol"),
                       "root_scalar(TiiShock)")
        _expect(len(c.args) == 1, "root_scalar(TiiShock): one positional argument")
    # the closure reads vmShock, xiShock, TmShock late: they must not change after its def
    idx = [i for i, st in enumerate(fn.body) if isinstance(st, ast.FunctionDef) and
           st.name == "TiiShock"]
    _expect(len(idx) == 1, "one closure TiiShock in solveHydroShock")
    for st in fn.body[idx[0] + 1:]:
        for n in ast.walk(st):
            if isinstance(n, ast.Name) and isinstance(n.ctx, ast.Store):
                _expect(n.id not in ("vmShock", "xiShock", "TmShock", "vw", "vp", "Tp"),
                        "no store to %s after TiiShock is defined" % n.id)
    _plain_statements(fn.body, "solveHydroShock")
    targets = set()
    for n in ast.walk(fn):
        if isinstance(n, ast.Assign) and n.value in calls:
            targets.add(ast.unparse(n.targets[0]))
    _expect(targets == {"TnRootResult"}, "both results are stored in TnRootResult")
    rets = [n for n in ast.walk(fn) if isinstance(n, ast.Return) and not any(
        n in ast.walk(d) for d in fn.body if isinstance(d, ast.FunctionDef))]
    _expect(len(rets) == 1 and ast.unparse(rets[0].value) == "float(TnRootResult.root)",
            "solveHydroShock returns float(TnRootResult.root)")
    guard = fn.body[-2]
    _expect(isinstance(guard, ast.If) and ast.unparse(guard.test) ==
            "not TnRootResult.converged" and isinstance(guard.body[0], ast.Raise),
            "solveHydroShock raises when the root finder did not converge")
    tr.facts.append("solveHydroShock: returns the root of TiiShock (brentq on [Tmin, Tmax] if "
                    "bracketed, else secant from (Tnucl, TmShock)); raises if not converged")


HYDRO_ATTRS_C03 = HYDRO_ATTRS + ["vJ"]
THERMO_C03 = THERMO + [
    Pattern("self.matchDeflagOrHyb(_0, _1)", "matchAt", "R -> R -> R * R * R * R"),
    Pattern("self.solveHydroShock(_0, _1, _2)", "shockTn", "R -> R -> R -> R"),
]


def generate_c03(src_h, src_t, src_helpers):
    modfuns = helper_functions(src_helpers, ["gammaSq", "boostVelocity"])
    tr = HydroTranslator(src_h, "Hydrodynamics", HYDRO_ATTRS_C03, THERMO_C03, [],
                         modfuns=modfuns, booleans=["shockWave"])
    defs = _helpers_text(tr, modfuns)
    defs.append(tr.method_def("shockDE", types={"xiAndT": "R * R"}))
    txt, used = tr.closure_def("solveHydroShock", "shock", "shock",
                               types={"xiAndT": "R * R"})
    defs.append(txt)
    own = [a.arg for a in pyrx_closure_args(tr.fn["solveHydroShock"], "shock")]
    extra = [p for p in used if p not in own]
    _expect(all(p in ("vw", "vp", "Tp") for p in extra),
            "closure shock depends only on the arguments of solveHydroShock: %r" % extra)
    defs.append(_front_state(tr, tr.fn["solveHydroShock"], extra))
    txt, used = tr.closure_def("solveHydroShock", "TiiShock", "TiiShock",
                               opaque={"vmShock": "R", "xiShock": "R", "TmShock": "R"})
    defs.append(txt)
    tr.facts.append("TiiShock parameters: " + " ".join(used))
    # the same closure `shock` is re-declared in efficiencyFactor: it must be the same text
    eff = tr.fn.get("efficiencyFactor")
    _expect(eff is not None, "efficiencyFactor exists")
    txt2, _ = tr.closure_def("efficiencyFactor", "shock", "shock_kappa",
                             types={"xiAndT": "R * R"})
    defs.append(txt2)
    defs += _kappa(tr, eff, "SW")
    defs += _kappa(tr, eff, "RW")
    defs.append(_kappa_plan(tr, eff))
    defs.append(_deton_front(tr, tr.fn["matchDeton"]))
    _find_matching_deton(tr, tr.fn["findMatching"])
    defs.append(_shoot_residual(tr, tr.fn["findMatching"]))
    _solve_shock_tail(tr, tr.fn["solveHydroShock"])

    tt = HydroTranslator(src_t, "HydrodynamicsTemplateModel", TEMPLATE_ATTRS, [], [],
                         prefix="t_", modfuns=modfuns, booleans=["shockWave"])
    tdefs = [tt.method_def("_dxiAndWdv", types={"xiAndW": "R * R"}, coq_name="t_dxiAndWdv")]
    out = [pyrx.COQ_PRELUDE + "Local Open Scope bool_scope.\nLocal Open Scope R_scope.\n",
           "(* generated from src/WallGo/hydrodynamics.py, hydrodynamicsTemplateModel.py, "
           "helpers.py *)", tr.header(), tt.header()] + defs + tdefs
    spans = dict(tr.spans)
    spans.update(tt.spans)
    info = dict(spans=spans, preconditions=tr.preconditions + tt.preconditions,
                facts=tr.facts, asserts=tr.asserts)
    return "\n".join(out) + "\n", info


# ---------------------------------------------------------------------------------------
# C05

def _tail_of_match(tr, fn):
    """statements of matchDeflagOrHyb after `[Tp, Tm] = self._inverseMappingT(sol.x)`:
    what the method returns as a function of (vw, Tp, Tm), for vp=None"""
    idx = None
    for i, st in enumerate(fn.body):
        if isinstance(st, ast.Assign) and ast.unparse(st.value) == \
                "self._inverseMappingT(sol.x)":
            idx = i
    _expect(idx is not None, "matchDeflagOrHyb: [Tp, Tm] = self._inverseMappingT(sol.x)")
    _expect(ast.unparse(fn.body[idx].targets[0]) == "[Tp, Tm]", "solution unpacked as Tp, Tm")
    sol = [st for st in fn.body[:idx] if isinstance(st, ast.Assign) and
           ast.unparse(st.targets[0]) == "sol"]
    _expect(len(sol) == 1 and isinstance(sol[0].value, ast.Call) and
            ast.unparse(sol[0].value.func) == "root" and
            ast.unparse(sol[0].value.args[0]) == "matching",
            "sol = root(matching, ...)")
    tr.facts.append("matchDeflagOrHyb: (Tp, Tm) = inverse map of the root of `matching`")
    tail = fn.body[idx + 1:]
    _expect(isinstance(tail[-1], ast.Return), "matchDeflagOrHyb ends with return")
    return tr.define("matchTail", [("vw", "R"), ("Tp", "R"), ("Tm", "R")], tail, span=fn)


def _solve_alpha_head(tt, fn):
    """(vm, vpMax, alMin, alMax) computed by solveAlpha before the root finder is called"""
    idx = None
    for i, st in enumerate(fn.body):
        if isinstance(st, ast.Assign) and ast.unparse(st.targets[0]) == "branch":
            idx = i
            break
    _expect(idx is not None, "solveAlpha: `branch = -1` after the bounds")
    head = [st for st in fn.body[:idx]]
    rs = _find(fn.body, lambda n: isinstance(n, ast.Call) and
               ast.unparse(n.func) == "root_scalar", "root_scalar call in solveAlpha")
    br = _kw(rs, "bracket")
    _expect(br is not None and ast.unparse(br) == "(alMin, alMax)",
            "solveAlpha: bracket=(alMin, alMax)")
    _expect(_is_attr(rs.args[0], "self._eqWall") and ast.unparse(rs.args[1]) ==
            "(vm, branch)", "solveAlpha: root of self._eqWall(., vm, branch)")
    tt.facts.append("solveAlpha: root_scalar(self._eqWall, (vm, branch), bracket=(alMin, alMax))")
    result = ast.parse("(vm, vpMax, alMin, alMax)", mode="eval").body
    for n in ast.walk(result):
        n.lineno = fn.lineno
    return tt.define("t_solveAlpha_bounds", [("vw", "R"), ("constraint", "bool")], head,
                     result=result, span=fn)


def _alpha_plus_formulas(tt):
    """alpha_+ as a function of (v-, v+) where the template code writes it out"""
    out = []
    fn = tt.fn["_shooting"]
    st = [s for s in fn.body if isinstance(s, ast.Assign) and
          ast.unparse(s.targets[0]) == "al"]
    _expect(len(st) == 1, "_shooting: one assignment to al")
    out.append(tt.define("t_alpha_shooting", [("vm", "R"), ("vp", "R")], [],
                         result=st[0].value, span=st[0]))
    fn = tt.fn["matchDeflagOrHybInitial"]
    st = [n for n in ast.walk(fn) if isinstance(n, ast.Assign) and
          ast.unparse(n.targets[0]) == "al" and not isinstance(n.value, ast.Call)]
    _expect(len(st) == 1, "matchDeflagOrHybInitial: one closed-form assignment to al")
    out.append(tt.define("t_alpha_initial", [("vm", "R"), ("vp", "R")], [],
                         result=st[0].value, span=st[0]))
    return out


def generate_c05(src_h, src_t, src_helpers):
    modfuns = helper_functions(src_helpers, ["gammaSq", "boostVelocity"])
    tr = HydroTranslator(src_h, "Hydrodynamics", HYDRO_ATTRS, THERMO, ["vpvmAndvpovm"],
                         modfuns=modfuns, none_spec={"vp": True})
    tr.ret_arity = {"vpvmAndvpovm": 2}
    defs = _helpers_text(tr, modfuns)
    defs.append(tr.method_def("vpvmAndvpovm"))
    txt, used = tr.closure_def("matchDeflagOrHyb", "matching", "matchingLTE",
                               opaque={"Tpm0": "R * R"}, types={"mappedTpTm": "R * R"})
    defs.append(txt)
    tr.facts.append("matchingLTE parameters: " + " ".join(used))
    defs.append(_tail_of_match(tr, tr.fn["matchDeflagOrHyb"]))
    tt = HydroTranslator(src_t, "HydrodynamicsTemplateModel", TEMPLATE_ATTRS, [
        Pattern("self.maxAl(100)", "maxAl100", "R"),
        Pattern("self.solveAlpha(_0)", "solveAlphaRoot", "R -> R"),
        Pattern("self._shooting(_0, _1)", "shooting", "R -> R -> R"),
        Pattern("root_scalar(shootingInLTE, bracket=[_0, _1], rtol=self.rtol, xtol=self.atol)",
                "rootLTE", "R -> R -> R"),
    ], ["getVp"], prefix="t_", modfuns=modfuns, booleans=["constraint"])
    tdefs = []
    tdefs.append(tt.method_def("getVp"))
    tdefs += _alpha_plus_formulas(tt)
    tdefs.append(_solve_alpha_head(tt, tt.fn["solveAlpha"]))
    txt, used = tt.closure_def("findvwLTE", "shootingInLTE", "t_shootingInLTE")
    _expect(used == ["vw"], "shootingInLTE depends on vw only: %r" % used)
    tdefs.append(txt)
    tdefs.append(tt.method_def("findvwLTE", closures={"shootingInLTE": "t_shootingInLTE e"}))
    out = [pyrx.COQ_PRELUDE + "Local Open Scope bool_scope.\nLocal Open Scope R_scope.\n",
           "(* generated from src/WallGo/hydrodynamics.py, hydrodynamicsTemplateModel.py, "
           "helpers.py *)", tr.header(), tt.header()] + defs + tdefs
    spans = dict(tr.spans)
    spans.update(tt.spans)
    info = dict(spans=spans, preconditions=tr.preconditions + tt.preconditions,
                facts=tr.facts + tt.facts, asserts=tr.asserts)
    return "\n".join(out) + "\n", info


# ---------------------------------------------------------------------------------------
# decision structure of Hydrodynamics.findvwLTE (facts checked on the AST; the executable
# model is coq/Model/FindVwLTE.v and is compared with the running code by the harness)

def findvwlte_facts(src_h):
    tree = ast.parse(src_h)
    cls = [n for n in tree.body if isinstance(n, ast.ClassDef) and n.name == "Hydrodynamics"]
    _expect(cls, "class Hydrodynamics")
    fn = [f for f in cls[0].body if isinstance(f, ast.FunctionDef) and f.name == "findvwLTE"]
    _expect(fn, "Hydrodynamics.findvwLTE")
    fn = fn[0]
    facts = {}
    consts = {}
    for st in fn.body:
        if isinstance(st, ast.Assign) and ast.unparse(st.targets[0]) == "vmax":
            _expect(isinstance(st.value, ast.BinOp) and isinstance(st.value.op, ast.Sub) and
                    _is_attr(st.value.left, "self.vJ"), "vmax = self.vJ - eps")
            consts["epsJ"] = pyrx.const_value(st.value.right)
        if isinstance(st, ast.Assign) and ast.unparse(st.targets[0]) == "vmin":
            _expect(_is_attr(st.value, "self.vMin"), "vmin = self.vMin")
    _expect(consts.get("epsJ") is not None, "vmax = self.vJ - literal")
    hack = [n for n in ast.walk(fn) if isinstance(n, ast.Assign) and
            ast.unparse(n.targets[0]) == "vmax" and ast.unparse(n.value).startswith("vmax -")]
    _expect(len(hack) == 1, "vmax = vmax - literal after the shock root")
    consts["epsShock"] = pyrx.const_value(hack[0].value.right)
    _expect(consts["epsShock"] is not None, "literal offset after the shock root")
    tests = [ast.unparse(n.test) for n in sorted(
        (n for n in ast.walk(fn) if isinstance(n, ast.If)), key=lambda n: n.lineno)]
    _expect(tests == ["shock(vmax) > 0", "shockTnuclDiffMax > 0 or not self.success",
                      "shockTnuclDiffMin < 0"], "the three decisions of findvwLTE: %r" % tests)
    rets = [ast.unparse(n.value) for n in sorted(
        (n for n in ast.walk(fn) if isinstance(n, ast.Return) and not any(
            n in ast.walk(d) for d in fn.body if isinstance(d, ast.FunctionDef))),
        key=lambda n: n.lineno)]
    _expect(rets == ["1", "1", "0", "float(sol.root)"], "return values of findvwLTE: %r" % rets)
    facts["consts"] = {k: str(v) for k, v in consts.items()}
    facts["tests"] = tests
    facts["returns"] = rets
    return facts, consts


def nucleation_temperature_reads(src, cls_name):
    """Def-use fact: where the methods of `cls_name` read a nucleation temperature.
    Returns (own, foreign): own = [(method, number of reads of self.Tnucl)], foreign = every
    other read of an attribute called Tnucl outside __init__ (e.g. self.thermodynamics.Tnucl:
    a second source that can differ from the copy taken when the solver was built), plus any
    store to self.Tnucl outside __init__."""
    tree = ast.parse(src)
    cls = [n for n in tree.body if isinstance(n, ast.ClassDef) and n.name == cls_name]
    _expect(cls, "class " + cls_name)
    own, foreign = [], []
    init_ok = False
    for fn in cls[0].body:
        if not isinstance(fn, ast.FunctionDef):
            continue
        count = 0
        for n in ast.walk(fn):
            if not (isinstance(n, ast.Attribute) and n.attr == "Tnucl"):
                continue
            is_self = isinstance(n.value, ast.Name) and n.value.id == "self"
            if fn.name == "__init__":
                if is_self and isinstance(n.ctx, ast.Store):
                    init_ok = True
                continue
            if is_self and isinstance(n.ctx, ast.Load):
                count += 1
            else:
                foreign.append("%s.%s line %d: %s%s" % (
                    cls_name, fn.name, n.lineno, ast.unparse(n),
                    " (store)" if isinstance(n.ctx, ast.Store) else ""))
        if count:
            own.append(("%s.%s" % (cls_name, fn.name), count))
    _expect(init_ok, "%s.__init__ stores self.Tnucl" % cls_name)
    return own, foreign


def generate_lte_facts(src_h, src_t=None):
    """Coq constants extracted from Hydrodynamics.findvwLTE (offsets of the bracket ends) and
    the def-use fact about the nucleation temperature"""
    facts, consts = findvwlte_facts(src_h)
    own, foreign = nucleation_temperature_reads(src_h, "Hydrodynamics")
    if src_t is not None:
        o2, f2 = nucleation_temperature_reads(src_t, "HydrodynamicsTemplateModel")
        own, foreign = own + o2, foreign + f2
    def qlit(fr):
        return "(%d # %d)" % (fr.numerator, fr.denominator)

    def slit(x):
        return '"%s"%%string' % x.replace('"', "'")
    text = ("From Coq Require Import QArith String List.\nImport ListNotations.\n"
            "(* generated from Hydrodynamics.findvwLTE: vmax = vJ - lte_epsJ;  after the shock "
            "root: vmax = root - lte_epsShock *)\n"
            "Definition lte_epsJ : Q := %s.\nDefinition lte_epsShock : Q := %s.\n"
            "(* methods reading the nucleation temperature as self.Tnucl (number of reads) *)\n"
            "Definition tnucl_own_reads : list (string * nat) :=\n  [%s].\n"
            "(* every OTHER read of a nucleation temperature outside __init__ *)\n"
            "Definition tnucl_foreign_reads : list string :=\n  [%s].\n" % (
                qlit(consts["epsJ"]), qlit(consts["epsShock"]),
                ";\n   ".join("(%s, %d%%nat)" % (slit(m), c) for m, c in own),
                ";\n   ".join(slit(f) for f in foreign)))
    facts["tnucl_own_reads"] = own
    facts["tnucl_foreign_reads"] = foreign
    return text, facts


def manager_lte_fact(src_manager):
    """WallGoManager.wallSpeedLTE is a plain delegation to Hydrodynamics.findvwLTE"""
    tree = ast.parse(src_manager)
    cls = [n for n in tree.body if isinstance(n, ast.ClassDef) and n.name == "WallGoManager"]
    _expect(cls, "class WallGoManager")
    fn = [f for f in cls[0].body if isinstance(f, ast.FunctionDef) and f.name == "wallSpeedLTE"]
    _expect(fn, "WallGoManager.wallSpeedLTE")
    body = [st for st in fn[0].body if not (isinstance(st, ast.Expr) and
                                            isinstance(st.value, ast.Constant))]
    _expect(len(body) == 1 and isinstance(body[0], ast.Return) and
            ast.unparse(body[0].value) == "self.hydrodynamics.findvwLTE()",
            "wallSpeedLTE returns self.hydrodynamics.findvwLTE()")
    return "WallGoManager.wallSpeedLTE() = self.hydrodynamics.findvwLTE()"


def manager_hydro_facts(src_manager, src_config):
    """WallGoManager._initHydrodynamics builds Hydrodynamics(thermodynamics, tmax, tmin, rtol,
    atol) from config.configHydrodynamics.{tmax, tmin, relativeTol, absoluteTol}, in this
    positional order; the defaults of ConfigHydrodynamics are returned (the harness builds its
    solvers from them)."""
    tree = ast.parse(src_manager)
    cls = [n for n in tree.body if isinstance(n, ast.ClassDef) and n.name == "WallGoManager"]
    _expect(cls, "class WallGoManager")
    fn = [f for f in cls[0].body if isinstance(f, ast.FunctionDef) and
          f.name == "_initHydrodynamics"]
    _expect(fn, "WallGoManager._initHydrodynamics")
    fn = fn[0]
    params = [a.arg for a in fn.args.args]
    _expect(params == ["self", "thermodynamics"], "_initHydrodynamics(self, thermodynamics)")
    body = [st for st in fn.body if not (isinstance(st, ast.Expr) and
                                         isinstance(st.value, ast.Constant))]
    env = {}
    for st in body[:-1]:
        _expect(isinstance(st, ast.Assign) and isinstance(st.targets[0], ast.Name),
                "_initHydrodynamics: plain assignments before the constructor call")
        env[st.targets[0].id] = ast.unparse(st.value)
    last = body[-1]
    _expect(isinstance(last, ast.Assign) and ast.unparse(last.targets[0]) ==
            "self.hydrodynamics" and isinstance(last.value, ast.Call) and
            ast.unparse(last.value.func) == "Hydrodynamics" and not last.value.keywords,
            "self.hydrodynamics = Hydrodynamics(...) with positional arguments")
    args = [env.get(ast.unparse(a), ast.unparse(a)) for a in last.value.args]
    want = ["thermodynamics"] + ["self.config.configHydrodynamics." + x for x in (
        "tmax", "tmin", "relativeTol", "absoluteTol")]
    _expect(args == want, "Hydrodynamics(thermodynamics, configHydrodynamics.tmax, .tmin, "
            ".relativeTol, .absoluteTol): %r" % (args,))
    # every call site of _initHydrodynamics / constructor of Hydrodynamics in the manager
    ctor = [n for n in ast.walk(cls[0]) if isinstance(n, ast.Call) and
            ast.unparse(n.func) == "Hydrodynamics"]
    _expect(len(ctor) == 1, "WallGoManager constructs Hydrodynamics in one place")
    ctree = ast.parse(src_config)
    cfg = [n for n in ctree.body if isinstance(n, ast.ClassDef) and
           n.name == "ConfigHydrodynamics"]
    _expect(cfg, "class ConfigHydrodynamics")
    defaults = {}
    for st in cfg[0].body:
        if isinstance(st, ast.AnnAssign) and isinstance(st.target, ast.Name) and \
                st.value is not None:
            v = pyrx.const_value(st.value)
            _expect(v is not None, "literal default for ConfigHydrodynamics." + st.target.id)
            defaults[st.target.id] = v
    _expect(set(defaults) == {"tmin", "tmax", "relativeTol", "absoluteTol"},
            "ConfigHydrodynamics fields: %r" % sorted(defaults))
    return dict(call="Hydrodynamics(thermodynamics, cfg.tmax, cfg.tmin, cfg.relativeTol, "
                "cfg.absoluteTol) with cfg = self.config.configHydrodynamics",
                defaults={k: str(v) for k, v in defaults.items()}), defaults


def success_definition(src_h):
    """The statement of matchDeflagOrHyb that defines Hydrodynamics.success, as a Coq
    definition over (hybr reports success : bool, sum of squared residuals : R)."""
    tree = ast.parse(src_h)
    cls = [n for n in tree.body if isinstance(n, ast.ClassDef) and n.name == "Hydrodynamics"]
    _expect(cls, "class Hydrodynamics")
    stores = [(fn.name, n) for fn in cls[0].body if isinstance(fn, ast.FunctionDef)
              for n in ast.walk(fn) if isinstance(n, ast.Assign) and
              ast.unparse(n.targets[0]) == "self.success"]
    by = {}
    for name, n in stores:
        by.setdefault(name, []).append(ast.unparse(n.value))
    _expect(sorted(by) == ["__init__", "findvwLTE", "matchDeflagOrHyb"],
            "self.success is stored in __init__, findvwLTE, matchDeflagOrHyb only: %r" %
            sorted(by))
    _expect(by["__init__"] == ["False"] and by["findvwLTE"] == ["True"],
            "__init__: success = False; findvwLTE: success = True at its start")
    _expect(len(by["matchDeflagOrHyb"]) == 1, "one definition of success in matchDeflagOrHyb")
    node = [n for name, n in stores if name == "matchDeflagOrHyb"][0].value
    _expect(isinstance(node, ast.BoolOp) and isinstance(node.op, ast.Or) and
            len(node.values) == 2 and ast.unparse(node.values[0]) == "sol.success",
            "success = sol.success or <residual test>: %s" % ast.unparse(node))
    t = node.values[1]
    _expect(isinstance(t, ast.Compare) and len(t.ops) == 1 and isinstance(t.ops[0], ast.Lt) and
            ast.unparse(t.left) == "np.sum(sol.fun ** 2)" and
            pyrx.const_value(t.comparators[0]) is not None,
            "residual test np.sum(sol.fun**2) < literal: %s" % ast.unparse(t))
    thr = pyrx.const_value(t.comparators[0])
    text = ("(* Hydrodynamics.success as defined in matchDeflagOrHyb *)\n"
            "Definition success_of (hybr_ok : bool) (sumsq : R) : bool :=\n"
            "  hybr_ok || (if Rlt_dec sumsq %s then true else false).\n" % pyrx.rlit(thr))
    return text, dict(success="sol.success or np.sum(sol.fun**2) < %s" % thr,
                      threshold=str(thr))


def eom_lte_fact(src_eom):
    """EOM.solveWall takes the LTE velocity from self.hydrodynamics.findvwLTE() (third consumer
    besides WallGoManager.wallSpeedLTE)"""
    tree = ast.parse(src_eom)
    calls = [n for n in ast.walk(tree) if isinstance(n, ast.Call) and
             isinstance(n.func, ast.Attribute) and n.func.attr == "findvwLTE"]
    _expect(len(calls) == 1 and ast.unparse(calls[0]) == "self.hydrodynamics.findvwLTE()",
            "equationOfMotion.py calls self.hydrodynamics.findvwLTE() exactly once")
    asg = [n for n in ast.walk(tree) if isinstance(n, ast.Assign) and n.value is calls[0]]
    _expect(len(asg) == 1 and ast.unparse(asg[0].targets[0]) == "wallVelocityLTE",
            "wallVelocityLTE = self.hydrodynamics.findvwLTE()")
    return "EOM.solveWall: wallVelocityLTE = self.hydrodynamics.findvwLTE()"
