"""Fail-closed translator for the finite-difference part of WallGo/helpers.py.

Emits (Coq text):
  * the six stencil tables as `list (list Q)` / `list Q`  (exact decimal values of the
    literals, divisor applied exactly);
  * `offset`, the row-selection rule of `derivative`, translated statement by statement
    from the AugAssign/If block that follows `offset = np.zeros_like(...)`;
  * `gradient_row`, `hessian_rows`: which table row `gradient` / `hessian` index.
Anything outside the recognised shapes raises TranslateError (the tie is then broken).
"""
import ast
from fractions import Fraction


class TranslateError(Exception):
    pass


def _num(node):
    """Exact value of a numeric literal expression."""
    if isinstance(node, ast.Constant) and isinstance(node.value, (int, float)) \
            and not isinstance(node.value, bool):
        if isinstance(node.value, int):
            return Fraction(node.value)
        return Fraction(repr(node.value))
    if isinstance(node, ast.UnaryOp) and isinstance(node.op, ast.USub):
        return -_num(node.operand)
    if isinstance(node, ast.UnaryOp) and isinstance(node.op, ast.UAdd):
        return _num(node.operand)
    if isinstance(node, ast.BinOp) and isinstance(node.op, ast.Div):
        return _num(node.left) / _num(node.right)
    if isinstance(node, ast.BinOp) and isinstance(node.op, ast.Mult):
        return _num(node.left) * _num(node.right)
    raise TranslateError("not a numeric literal: " + ast.dump(node)[:80])


def _nested(node):
    if isinstance(node, (ast.List, ast.Tuple)):
        return [_nested(e) for e in node.elts]
    return _num(node)


def _scale(v, k):
    if isinstance(v, list):
        return [_scale(e, k) for e in v]
    return v * k


def _array(node):
    """np.array(LIST, dtype=float) [/ k | * k]"""
    if isinstance(node, ast.BinOp) and isinstance(node.op, ast.Div):
        return _scale(_array(node.left), 1 / _num(node.right))
    if isinstance(node, ast.BinOp) and isinstance(node.op, ast.Mult):
        return _scale(_array(node.left), _num(node.right))
    if isinstance(node, ast.Call) and isinstance(node.func, ast.Attribute) and \
            node.func.attr in ("array", "asarray") and len(node.args) == 1:
        for kw in node.keywords:
            if kw.arg != "dtype":
                raise TranslateError("unexpected keyword " + str(kw.arg))
        return _nested(node.args[0])
    raise TranslateError("not an np.array literal: " + ast.dump(node)[:80])


def qlit(q):
    return "(%d # %d)" % (q.numerator, q.denominator)


def coq_list(v):
    if isinstance(v, list):
        return "[" + "; ".join(coq_list(e) for e in v) + "]"
    return qlit(v)


TABLES = ["FIRST_DERIV_COEFF", "SECOND_DERIV_COEFF", "FIRST_DERIV_POS",
          "SECOND_DERIV_POS", "HESSIAN_POS", "HESSIAN_COEFF"]


def tables(tree):
    out = {}
    for st in tree.body:
        if isinstance(st, ast.Assign) and len(st.targets) == 1 and \
                isinstance(st.targets[0], ast.Name) and st.targets[0].id in TABLES:
            name = st.targets[0].id
            if not isinstance(st.value, ast.Dict):
                raise TranslateError(name + " is not a dict literal")
            for k, v in zip(st.value.keys, st.value.values):
                if not (isinstance(k, ast.Constant) and k.value in ("2", "4")):
                    raise TranslateError("unexpected key in " + name)
                out[(name, k.value)] = _array(v)
    for t in TABLES:
        for o in ("2", "4"):
            if (t, o) not in out:
                raise TranslateError("table %s[%s] not found" % (t, o))
    return out


# -- row selection ----------------------------------------------------------------

def _qexpr(node, names):
    """arithmetic over Q with the given name map"""
    if isinstance(node, ast.Name):
        if node.id in names:
            return names[node.id]
        raise TranslateError("unknown name " + node.id)
    if isinstance(node, ast.Constant):
        return qlit(_num(node))
    if isinstance(node, ast.BinOp):
        a, b = _qexpr(node.left, names), _qexpr(node.right, names)
        op = {ast.Add: "+", ast.Sub: "-", ast.Mult: "*"}.get(type(node.op))
        if op is None:
            raise TranslateError("operator " + type(node.op).__name__)
        return "(%s %s %s)" % (a, op, b)
    if isinstance(node, ast.UnaryOp) and isinstance(node.op, ast.USub):
        return "(- %s)" % _qexpr(node.operand, names)
    raise TranslateError("expression " + ast.dump(node)[:80])


def _bound(node, tuple_name):
    """boundsTuple[i] or float(boundsTuple[i]) -> 'lb' / 'ub'"""
    if isinstance(node, ast.Call) and isinstance(node.func, ast.Name) and \
            node.func.id == "float" and len(node.args) == 1:
        return _bound(node.args[0], tuple_name)
    if isinstance(node, ast.Subscript) and isinstance(node.value, ast.Name) and \
            node.value.id == tuple_name and isinstance(node.slice, ast.Constant) and \
            node.slice.value in (0, 1):
        return "lb" if node.slice.value == 0 else "ub"
    return None


def _cmp(node, names):
    if not (isinstance(node, ast.Compare) and len(node.ops) == 1):
        raise TranslateError("not a simple comparison: " + ast.dump(node)[:80])
    op = type(node.ops[0])
    lhs, rhs = node.left, node.comparators[0]
    b = _bound(rhs, "boundsTuple")
    if b is not None:
        f = {ast.Gt: "gt_b", ast.Lt: "lt_b", ast.GtE: "ge_b", ast.LtE: "le_b"}.get(op)
        if f is None:
            raise TranslateError("comparison operator")
        return "%s %s %s" % (f, _qexpr(lhs, names), b)
    b = _bound(lhs, "boundsTuple")
    if b is not None:  # bound OP value  ==  value OP' bound
        f = {ast.Gt: "lt_b", ast.Lt: "gt_b", ast.GtE: "le_b", ast.LtE: "ge_b"}.get(op)
        if f is None:
            raise TranslateError("comparison operator")
        return "%s %s %s" % (f, _qexpr(rhs, names), b)
    raise TranslateError("comparison without a bound: " + ast.dump(node)[:80])


def _aug(st, names):
    if isinstance(st, ast.AugAssign) and isinstance(st.target, ast.Name) and \
            st.target.id == "offset" and isinstance(st.op, (ast.Add, ast.Sub)):
        sign = "+" if isinstance(st.op, ast.Add) else "-"
        return "let o := (o %s b2z (%s))%%Z in" % (sign, _cmp(st.value, names))
    raise TranslateError("statement in offset block: " + ast.dump(st)[:80])


def bounds_norm(fn):
    """`boundsTuple` is (-inf, inf) for None and tuple(bounds) otherwise -- nothing else
    (the model receives lb/ub exactly as the caller gave them)."""
    found = False
    for st in fn.body:
        if isinstance(st, ast.If) and ast.unparse(st.test) == "bounds is None":
            b = [ast.unparse(x) for x in st.body]
            o = [ast.unparse(x) for x in st.orelse]
            if b != ["boundsTuple = (-np.inf, np.inf)"] or o != ["boundsTuple = tuple(bounds)"]:
                raise TranslateError("bounds normalisation is %r / %r, model expects "
                                     "(-np.inf, np.inf) / tuple(bounds)" % (b, o))
            found = True
    stores = [ast.unparse(n) for n in ast.walk(fn) if isinstance(n, ast.Assign)
              and any(isinstance(t, ast.Name) and t.id == "boundsTuple"
                      for t in n.targets)]
    if not found or len(stores) != 2:
        raise TranslateError("boundsTuple is not assigned exactly by the `bounds is None` "
                             "test: %r" % stores)


def offset_rule(fn):
    names = {"x": "x", "dxFloat": "dx"}
    body = fn.body
    start = None
    for i, st in enumerate(body):
        if isinstance(st, ast.Assign) and len(st.targets) == 1 and \
                isinstance(st.targets[0], ast.Name) and st.targets[0].id == "offset":
            v = st.value
            if not (isinstance(v, ast.Call) and isinstance(v.func, ast.Attribute)
                    and v.func.attr == "zeros_like"):
                raise TranslateError("offset is not initialised by zeros_like")
            if start is not None:
                raise TranslateError("offset assigned twice")
            start = i
    if start is None:
        raise TranslateError("no `offset = np.zeros_like` in derivative")
    # dxFloat must have been made exact (temp = x + dxFloat; dxFloat = temp - x) BEFORE
    # the offsets are computed: the model uses the same dx for selection and positions.
    pre = [ast.unparse(s) for s in body[:start]]
    if "temp = x + dxFloat" not in pre or "dxFloat = temp - x" not in pre or \
            pre.index("dxFloat = temp - x") < pre.index("temp = x + dxFloat"):
        raise TranslateError("exact-step update (temp = x + dx; dx = temp - x) does not "
                             "precede the row selection")
    lines = ["let o := 0%Z in"]
    i = start + 1
    seen_if = False
    while i < len(body):
        st = body[i]
        if isinstance(st, ast.AugAssign):
            lines.append(_aug(st, names))
        elif isinstance(st, ast.If) and any(
                isinstance(s, ast.AugAssign) and isinstance(s.target, ast.Name)
                and s.target.id == "offset" for s in ast.walk(st)):
            t = st.test
            if not (isinstance(t, ast.Compare) and isinstance(t.left, ast.Name) and
                    t.left.id == "order" and isinstance(t.ops[0], ast.Eq) and
                    isinstance(t.comparators[0], ast.Constant)):
                raise TranslateError("unexpected if-test in offset block")
            inner = [_aug(s, names) for s in st.body]
            if st.orelse:
                raise TranslateError("else in offset block")
            lines.append("if (order =? %d)%%Z then %s o else" %
                         (t.comparators[0].value, " ".join(inner)))
            seen_if = True
        else:
            break
        i += 1
    for st in body[i:]:
        for sub in ast.walk(st):
            if isinstance(sub, (ast.AugAssign, ast.Assign)):
                tg = sub.target if isinstance(sub, ast.AugAssign) else sub.targets[0]
                if isinstance(tg, ast.Name) and tg.id in ("offset", "dxFloat"):
                    raise TranslateError("offset/dxFloat modified after the row "
                                         "selection block")
    lines.append("o")
    used = _uses(fn)
    return "\n    ".join(lines), used


def _mentions(node, name):
    return any(isinstance(n, ast.Name) and n.id == name for n in ast.walk(node))


def _uses(fn):
    """Which tables are indexed by offset for n == 1 / n == 2 (fail closed)."""
    res = {}
    for st in fn.body:
        if isinstance(st, ast.If):
            chain = []
            cur = st
            while True:
                chain.append(cur)
                if len(cur.orelse) == 1 and isinstance(cur.orelse[0], ast.If):
                    cur = cur.orelse[0]
                else:
                    break
            for c in chain:
                t = c.test
                if isinstance(t, ast.Compare) and isinstance(t.left, ast.Name) and \
                        t.left.id == "n" and isinstance(t.ops[0], ast.Eq):
                    nval = t.comparators[0].value
                    for s in c.body:
                        if isinstance(s, ast.Assign) and isinstance(s.targets[0],
                                                                    ast.Name):
                            res[(nval, s.targets[0].id)] = ast.unparse(s.value)
    want = {
        (1, "pos"): "x[None, ...] + FIRST_DERIV_POS[str(order)].T[:, offset.tolist()] "
                    "* dxFloat",
        (1, "coeff"): "FIRST_DERIV_COEFF[str(order)].T[:, offset.tolist()] / dxFloat",
        (2, "pos"): "x[None, ...] + SECOND_DERIV_POS[str(order)].T[:, offset.tolist()] "
                    "* dxFloat",
        (2, "coeff"): "FIRST_DERIV_COEFF".replace("FIRST", "SECOND") +
                      "[str(order)].T[:, offset.tolist()] / dxFloat ** 2",
    }
    for k, v in want.items():
        if res.get(k) != v:
            raise TranslateError("table use for n=%d %s is %r, model expects %r" %
                                 (k[0], k[1], res.get(k), v))
    return res


def grad_hess_rows(tree):
    """row indices used by gradient / hessian (from the subscript expressions)"""
    fns = {f.name: f for f in tree.body if isinstance(f, ast.FunctionDef)}
    g = ast.unparse(fns["gradient"])
    h = ast.unparse(fns["hessian"])
    if "FIRST_DERIV_POS[str(order)][0, :, None, None]" not in g or \
            "FIRST_DERIV_COEFF[str(order)][0, :, None]" not in g:
        raise TranslateError("gradient does not use row 0 of the first-derivative tables")
    if "HESSIAN_POS[str(order)][0, :, None, None, None] * np.identity(nbrVariables)" \
       "[xAxisList, None, :]" not in h or \
       "HESSIAN_POS[str(order)][1, :, None, None, None] * np.identity(nbrVariables)" \
       "[None, yAxisList, :]" not in h or "HESSIAN_COEFF[str(order)][:, None, None]" \
            not in h:
        raise TranslateError("hessian does not use HESSIAN_POS rows 0/1 for x/y axes")
    return 0, (0, 1)


def generate(src_text):
    tree = ast.parse(src_text)
    tb = tables(tree)
    fns = {f.name: f for f in tree.body if isinstance(f, ast.FunctionDef)}
    if "derivative" not in fns:
        raise TranslateError("no function derivative")
    bounds_norm(fns["derivative"])
    rule, _ = offset_rule(fns["derivative"])
    grow, hrows = grad_hess_rows(tree)
    out = ["(* generated from src/WallGo/helpers.py -- do not edit *)",
           "From Coq Require Import List ZArith QArith.",
           "From WG Require Import Lib.Stencil.",
           "Import ListNotations.", "Local Open Scope Q_scope.", ""]
    for (name, o), v in sorted(tb.items()):
        ty = "list (list Q)" if isinstance(v[0], list) else "list Q"
        out.append("Definition %s_%s : %s :=\n  %s." % (name, o, ty, coq_list(v)))
    out.append("")
    out.append("Definition offset (order : Z) (x dx : Q) (lb ub : bound) : Z :=\n    "
               + rule + ".")
    out.append("Definition gradient_row : nat := %d." % grow)
    out.append("Definition hessian_xrow : nat := %d." % hrows[0])
    out.append("Definition hessian_yrow : nat := %d." % hrows[1])
    return "\n".join(out) + "\n", tb
