"""Fail-closed translator for the finite-difference part of WallGo/helpers.py.

Emits (Coq text):
  * the six stencil tables as `list (list Q)` / `list Q`  (exact decimal values of the
    literals, divisor applied exactly);
  * `offset`, the row-selection rule of `derivative`, translated statement by statement
    from the AugAssign/If block that follows `offset = np.zeros_like(...)`;
  * `gradient_row`, `hessian_rows`: which table row `gradient` / `hessian` index
    (read from the subscripts);
  * a structural pin of `derivative`, `gradient`, `hessian`: each function, with
    docstrings, annotations and (call-free) asserts removed, the offset block replaced
    by a placeholder and every statement that mentions none of the function's own
    names pruned, must be the reference text REFERENCE below.  So any other store to /
    use of pos, coeff, x, dxFloat, offset, boundsTuple, axisList, dxArray ..., any
    statement between the exact-step trick and the row selection, a moved or removed
    exact-step trick in gradient/hessian, or a second evaluation of f fails closed;
  * (from effectivePotential.py) the call-site facts of derivT / derivField /
    deriv2FieldT / deriv2Field2 / allSecondDerivatives: n, order, bounds, which scale,
    axis selections, result slices, layout of the combined (fields, T) array and of
    the combined scales (`potential_facts`).
Anything outside the recognised shapes raises TranslateError (the tie is then broken).
"""
import ast
from fractions import Fraction


class TranslateError(Exception):
    pass


def _num(node):
    """Exact value of a numeric literal expression."""
    if isinstance(node, ast.Constant) and isinstance(node.value, (int, float)) \
            and not isinstance(node.value, bool):
        if isinstance(node.value, int):
            return Fraction(node.value)
        return Fraction(repr(node.value))
    if isinstance(node, ast.UnaryOp) and isinstance(node.op, ast.USub):
        return -_num(node.operand)
    if isinstance(node, ast.UnaryOp) and isinstance(node.op, ast.UAdd):
        return _num(node.operand)
    if isinstance(node, ast.BinOp) and isinstance(node.op, ast.Div):
        return _num(node.left) / _num(node.right)
    if isinstance(node, ast.BinOp) and isinstance(node.op, ast.Mult):
        return _num(node.left) * _num(node.right)
    raise TranslateError("not a numeric literal: " + ast.dump(node)[:80])


def _nested(node):
    if isinstance(node, (ast.List, ast.Tuple)):
        return [_nested(e) for e in node.elts]
    return _num(node)


def _scale(v, k):
    if isinstance(v, list):
        return [_scale(e, k) for e in v]
    return v * k


def _array(node):
    """np.array(LIST, dtype=float) [/ k | * k]"""
    if isinstance(node, ast.BinOp) and isinstance(node.op, ast.Div):
        return _scale(_array(node.left), 1 / _num(node.right))
    if isinstance(node, ast.BinOp) and isinstance(node.op, ast.Mult):
        return _scale(_array(node.left), _num(node.right))
    if isinstance(node, ast.Call) and isinstance(node.func, ast.Attribute) and \
            node.func.attr in ("array", "asarray") and len(node.args) == 1:
        if ast.unparse(node.func) not in ("np.array", "np.asarray"):
            raise TranslateError("table built by " + ast.unparse(node.func))
        dt = None
        for kw in node.keywords:
            if kw.arg != "dtype":
                raise TranslateError("unexpected keyword " + str(kw.arg))
            dt = ast.unparse(kw.value)
        # the model holds the exact rationals: only binary64 storage is within "up to
        # rounding" of them (float32/float16 tables are 1e-8 / 1e-4 off)
        if dt not in ("float", "np.float64", "np.double", "'float64'"):
            raise TranslateError("table dtype is %s, model expects float (binary64)" % dt)
        return _nested(node.args[0])
    raise TranslateError("not an np.array literal: " + ast.dump(node)[:80])


def qlit(q):
    return "(%d # %d)" % (q.numerator, q.denominator)


def coq_list(v):
    if isinstance(v, list):
        return "[" + "; ".join(coq_list(e) for e in v) + "]"
    return qlit(v)


TABLES = ["FIRST_DERIV_COEFF", "SECOND_DERIV_COEFF", "FIRST_DERIV_POS",
          "SECOND_DERIV_POS", "HESSIAN_POS", "HESSIAN_COEFF"]


def tables(tree):
    out = {}
    for st in tree.body:
        if isinstance(st, ast.Assign) and len(st.targets) == 1 and \
                isinstance(st.targets[0], ast.Name) and st.targets[0].id in TABLES:
            name = st.targets[0].id
            if not isinstance(st.value, ast.Dict):
                raise TranslateError(name + " is not a dict literal")
            for k, v in zip(st.value.keys, st.value.values):
                if not (isinstance(k, ast.Constant) and k.value in ("2", "4")):
                    raise TranslateError("unexpected key in " + name)
                out[(name, k.value)] = _array(v)
    for t in TABLES:
        for o in ("2", "4"):
            if (t, o) not in out:
                raise TranslateError("table %s[%s] not found" % (t, o))
    return out


# -- row selection ----------------------------------------------------------------

def _qexpr(node, names):
    """arithmetic over Q with the given name map"""
    if isinstance(node, ast.Name):
        if node.id in names:
            return names[node.id]
        raise TranslateError("unknown name " + node.id)
    if isinstance(node, ast.Constant):
        return qlit(_num(node))
    if isinstance(node, ast.BinOp):
        a, b = _qexpr(node.left, names), _qexpr(node.right, names)
        op = {ast.Add: "+", ast.Sub: "-", ast.Mult: "*"}.get(type(node.op))
        if op is None:
            raise TranslateError("operator " + type(node.op).__name__)
        return "(%s %s %s)" % (a, op, b)
    if isinstance(node, ast.UnaryOp) and isinstance(node.op, ast.USub):
        return "(- %s)" % _qexpr(node.operand, names)
    raise TranslateError("expression " + ast.dump(node)[:80])


def _bound(node, tuple_name):
    """boundsTuple[i] or float(boundsTuple[i]) -> 'lb' / 'ub'"""
    if isinstance(node, ast.Call) and isinstance(node.func, ast.Name) and \
            node.func.id == "float" and len(node.args) == 1:
        return _bound(node.args[0], tuple_name)
    if isinstance(node, ast.Subscript) and isinstance(node.value, ast.Name) and \
            node.value.id == tuple_name and isinstance(node.slice, ast.Constant) and \
            node.slice.value in (0, 1):
        return "lb" if node.slice.value == 0 else "ub"
    return None


def _cmp(node, names):
    if not (isinstance(node, ast.Compare) and len(node.ops) == 1):
        raise TranslateError("not a simple comparison: " + ast.dump(node)[:80])
    op = type(node.ops[0])
    lhs, rhs = node.left, node.comparators[0]
    b = _bound(rhs, "boundsTuple")
    if b is not None:
        f = {ast.Gt: "gt_b", ast.Lt: "lt_b", ast.GtE: "ge_b", ast.LtE: "le_b"}.get(op)
        if f is None:
            raise TranslateError("comparison operator")
        return "%s %s %s" % (f, _qexpr(lhs, names), b)
    b = _bound(lhs, "boundsTuple")
    if b is not None:  # bound OP value  ==  value OP' bound
        f = {ast.Gt: "lt_b", ast.Lt: "gt_b", ast.GtE: "le_b", ast.LtE: "ge_b"}.get(op)
        if f is None:
            raise TranslateError("comparison operator")
        return "%s %s %s" % (f, _qexpr(rhs, names), b)
    raise TranslateError("comparison without a bound: " + ast.dump(node)[:80])


def _aug(st, names):
    if isinstance(st, ast.AugAssign) and isinstance(st.target, ast.Name) and \
            st.target.id == "offset" and isinstance(st.op, (ast.Add, ast.Sub)):
        sign = "+" if isinstance(st.op, ast.Add) else "-"
        return "let o := (o %s b2z (%s))%%Z in" % (sign, _cmp(st.value, names))
    raise TranslateError("statement in offset block: " + ast.dump(st)[:80])


def bounds_norm(fn):
    """`boundsTuple` is (-inf, inf) for None and tuple(bounds) otherwise -- nothing else
    (the model receives lb/ub exactly as the caller gave them)."""
    found = False
    for st in fn.body:
        if isinstance(st, ast.If) and ast.unparse(st.test) == "bounds is None":
            b = [ast.unparse(x) for x in st.body]
            o = [ast.unparse(x) for x in st.orelse]
            if b != ["boundsTuple = (-np.inf, np.inf)"] or o != ["boundsTuple = tuple(bounds)"]:
                raise TranslateError("bounds normalisation is %r / %r, model expects "
                                     "(-np.inf, np.inf) / tuple(bounds)" % (b, o))
            found = True
    stores = [ast.unparse(n) for n in ast.walk(fn) if isinstance(n, ast.Assign)
              and any(isinstance(t, ast.Name) and t.id == "boundsTuple"
                      for t in n.targets)]
    if not found or len(stores) != 2:
        raise TranslateError("boundsTuple is not assigned exactly by the `bounds is None` "
                             "test: %r" % stores)


def guard_rule(fn):
    """the `x inside bounds` assertion of derivative, translated: the model refuses exactly
    the x the code refuses.  Recognised: assert np.all(C1) and np.all(C2) [and ...] where each
    Ci compares x with boundsTuple[k]; it must precede the first evaluation of f."""
    found = None
    for i, st in enumerate(fn.body):
        if isinstance(st, ast.Assert) and _mentions(st.test, "x") and \
                _mentions(st.test, "boundsTuple"):
            if found is not None:
                raise TranslateError("two assertions relate x and the bounds")
            found = i
    if found is None:
        raise TranslateError("derivative does not assert that x is inside the bounds")
    for st in fn.body[:found]:
        for n in ast.walk(st):
            if isinstance(n, ast.Call) and isinstance(n.func, ast.Name) and n.func.id == "f":
                raise TranslateError("f is evaluated before x is checked against the bounds")
            if isinstance(n, ast.Return):
                raise TranslateError("derivative can return before x is checked against "
                                     "the bounds")
    t = fn.body[found].test
    parts = t.values if isinstance(t, ast.BoolOp) and isinstance(t.op, ast.And) else [t]
    out = []
    for c in parts:
        if not (isinstance(c, ast.Call) and ast.unparse(c.func) == "np.all" and
                len(c.args) == 1 and not c.keywords):
            raise TranslateError("bounds assertion: expected np.all(comparison), found "
                                 + ast.unparse(c)[:80])
        out.append("(%s)" % _cmp(c.args[0], {"x": "x"}))
    return " && ".join(out)


def offset_rule(fn):
    names = {"x": "x", "dxFloat": "dx"}
    body = fn.body
    start = None
    for i, st in enumerate(body):
        if isinstance(st, ast.Assign) and len(st.targets) == 1 and \
                isinstance(st.targets[0], ast.Name) and st.targets[0].id == "offset":
            v = st.value
            if not (isinstance(v, ast.Call) and isinstance(v.func, ast.Attribute)
                    and v.func.attr == "zeros_like"):
                raise TranslateError("offset is not initialised by zeros_like")
            if start is not None:
                raise TranslateError("offset assigned twice")
            start = i
    if start is None:
        raise TranslateError("no `offset = np.zeros_like` in derivative")
    # dxFloat must have been made exact (temp = x + dxFloat; dxFloat = temp - x) BEFORE
    # the offsets are computed: the model uses the same dx for selection and positions.
    pre = [ast.unparse(s) for s in body[:start]]
    if "temp = x + dxFloat" not in pre or "dxFloat = temp - x" not in pre or \
            pre.index("dxFloat = temp - x") < pre.index("temp = x + dxFloat"):
        raise TranslateError("exact-step update (temp = x + dx; dx = temp - x) does not "
                             "precede the row selection")
    lines = ["let o := 0%Z in"]
    i = start + 1
    seen_if = False
    while i < len(body):
        st = body[i]
        if isinstance(st, ast.AugAssign):
            lines.append(_aug(st, names))
        elif isinstance(st, ast.If) and any(
                isinstance(s, ast.AugAssign) and isinstance(s.target, ast.Name)
                and s.target.id == "offset" for s in ast.walk(st)):
            t = st.test
            if not (isinstance(t, ast.Compare) and isinstance(t.left, ast.Name) and
                    t.left.id == "order" and isinstance(t.ops[0], ast.Eq) and
                    isinstance(t.comparators[0], ast.Constant)):
                raise TranslateError("unexpected if-test in offset block")
            inner = [_aug(s, names) for s in st.body]
            if st.orelse:
                raise TranslateError("else in offset block")
            lines.append("if (order =? %d)%%Z then %s o else" %
                         (t.comparators[0].value, " ".join(inner)))
            seen_if = True
        else:
            break
        i += 1
    for st in body[i:]:
        for sub in ast.walk(st):
            if isinstance(sub, (ast.AugAssign, ast.Assign)):
                tg = sub.target if isinstance(sub, ast.AugAssign) else sub.targets[0]
                if isinstance(tg, ast.Name) and tg.id in ("offset", "dxFloat"):
                    raise TranslateError("offset/dxFloat modified after the row "
                                         "selection block")
    lines.append("o")
    used = _uses(fn)
    return "\n    ".join(lines), used


def _mentions(node, name):
    return any(isinstance(n, ast.Name) and n.id == name for n in ast.walk(node))


def _uses(fn):
    """Which tables are indexed by offset for n == 1 / n == 2 (fail closed)."""
    res = {}
    for st in fn.body:
        if isinstance(st, ast.If):
            chain = []
            cur = st
            while True:
                chain.append(cur)
                if len(cur.orelse) == 1 and isinstance(cur.orelse[0], ast.If):
                    cur = cur.orelse[0]
                else:
                    break
            for c in chain:
                t = c.test
                if isinstance(t, ast.Compare) and isinstance(t.left, ast.Name) and \
                        t.left.id == "n" and isinstance(t.ops[0], ast.Eq):
                    nval = t.comparators[0].value
                    for s in c.body:
                        if isinstance(s, ast.Assign) and isinstance(s.targets[0],
                                                                    ast.Name):
                            res[(nval, s.targets[0].id)] = ast.unparse(s.value)
    want = {
        (1, "pos"): "x[None, ...] + FIRST_DERIV_POS[str(order)].T[:, offset.tolist()] "
                    "* dxFloat",
        (1, "coeff"): "FIRST_DERIV_COEFF[str(order)].T[:, offset.tolist()] / dxFloat",
        (2, "pos"): "x[None, ...] + SECOND_DERIV_POS[str(order)].T[:, offset.tolist()] "
                    "* dxFloat",
        (2, "coeff"): "FIRST_DERIV_COEFF".replace("FIRST", "SECOND") +
                      "[str(order)].T[:, offset.tolist()] / dxFloat ** 2",
    }
    for k, v in want.items():
        if res.get(k) != v:
            raise TranslateError("table use for n=%d %s is %r, model expects %r" %
                                 (k[0], k[1], res.get(k), v))
    return res


# -- structural pin of derivative / gradient / hessian ------------------------------

REFERENCE = r"""
def derivative(f, x, n=1, order=4, bounds=None, epsilon=1e-16, scale=1.0, dx=None,
               args=None):
    x = np.asarray(x)
    if bounds is None:
        boundsTuple = (-np.inf, np.inf)
    else:
        boundsTuple = tuple(bounds)
    if args is None:
        args = []
    assert (
        isinstance(boundsTuple, tuple) and
        len(boundsTuple) == 2 and
        boundsTuple[1] > boundsTuple[0]
    )
    assert n in (0, 1, 2)
    assert order in (2, 4)
    assert np.all(x <= boundsTuple[1]) and np.all(
        x >= boundsTuple[0]
    )
    if n == 0:
        return f(x, *args)
    if dx is None:
        assert isinstance(epsilon, float)
        assert isinstance(scale, float)
        dxFloat = scale * epsilon ** (1 / (n + order))
    else:
        dxFloat = float(dx)
    temp = x + dxFloat
    dxFloat = temp - x
    offset = np.zeros_like(x, dtype=int)
    OFFSET_BLOCK
    if n == 1:
        pos = x[None, ...] + FIRST_DERIV_POS[str(order)].T[:, offset.tolist()]*dxFloat
        coeff = FIRST_DERIV_COEFF[str(order)].T[:, offset.tolist()] / dxFloat
    elif n == 2:
        pos = x[None, ...] + SECOND_DERIV_POS[str(order)].T[:, offset.tolist()]*dxFloat
        coeff = SECOND_DERIV_COEFF[str(order)].T[:, offset.tolist()] / dxFloat**2
    fx = f(pos, *args)
    fxShapeLength = len(fx.shape)
    coeffShapeLength = len(coeff.shape)
    return np.asarray(np.sum(
        coeff.reshape(coeff.shape + (fxShapeLength - coeffShapeLength) * (1,))
        * f(pos, *args),
        axis=0,
    ))


def gradient(f, x, order=4, epsilon=1e-16, scale=1.0, dx=None, axis=None, args=None):
    x = np.asarray(x)
    nbrVariables = x.shape[-1]
    if args is None:
        args = []
    if isinstance(axis, int):
        axisList = [axis]
    elif axis is None:
        axisList = np.arange(nbrVariables).tolist()
    else:
        axisList = list(axis)
    for i in axisList:
        assert (
            -nbrVariables <= i < nbrVariables
        )
    assert order in (2,4)
    if dx is None:
        assert isinstance(epsilon, float)
        if isinstance(scale, float):
            scale = scale * np.ones(nbrVariables)
        else:
            scale = np.asanyarray(scale)
            assert (
                scale.size == nbrVariables
            )
        dxArray = scale * epsilon ** (1 / (1 + order))
    elif isinstance(dx, float):
        dxArray = dx * np.ones(nbrVariables)
    else:
        dxArray = np.asarray(dx)
        assert (
            dxArray.size == nbrVariables
        )
    temp = x + dxArray
    dxArray = temp - x
    pos = np.expand_dims(x, (-3, -2)) + FIRST_DERIV_POS[str(order)][
        0, :, None, None
    ] * np.identity(nbrVariables)[axisList, :] * np.expand_dims(dxArray, (-3, -2))
    shape = pos.shape[:-1]
    pos = pos.reshape((int(pos.size / nbrVariables), nbrVariables))
    coeff = FIRST_DERIV_COEFF[str(order)][0, :, None] / np.expand_dims(
        dxArray[..., axisList], -2
    )
    fEvaluation = f(pos, *args).reshape(shape)
    return np.asarray(np.sum(coeff * fEvaluation, axis=-2))


def hessian(f, x, order=4, epsilon=1e-16, scale=1.0, dx=None, xAxis=None, yAxis=None,
            args=None):
    x = np.asarray(x)
    nbrVariables = x.shape[-1]
    if args is None:
        args = []
    if isinstance(xAxis, int):
        xAxisList = [xAxis]
    elif xAxis is None:
        xAxisList = np.arange(nbrVariables).tolist()
    else:
        xAxisList = list(xAxis)
    for i in xAxisList:
        assert (
            -nbrVariables <= i < nbrVariables
        )
    if isinstance(yAxis, int):
        yAxisList = [yAxis]
    elif yAxis is None:
        yAxisList = np.arange(nbrVariables).tolist()
    else:
        yAxisList = list(yAxis)
    for i in yAxisList:
        assert (
            -nbrVariables <= i < nbrVariables
        )
    assert order in (2, 4)
    if dx is None:
        assert isinstance(epsilon, float)
        if isinstance(scale, float):
            scale = scale * np.ones(nbrVariables)
        else:
            scale = np.asanyarray(scale)
            assert (
                scale.size == nbrVariables
            )
        dxArray = scale * epsilon ** (1 / (2 + order))
    elif isinstance(dx, float):
        dxArray = dx * np.ones(nbrVariables)
    else:
        dxArray = np.asarray(dx)
        assert (
            dxArray.size == nbrVariables
        )
    temp = x + dxArray
    dxArray = temp - x
    pos = (
        np.expand_dims(x, (-4, -3, -2))
        + HESSIAN_POS[str(order)][0, :, None, None, None]
        * np.identity(nbrVariables)[xAxisList, None, :]
        * np.expand_dims(dxArray, (-4, -3, -2))
        + HESSIAN_POS[str(order)][1, :, None, None, None]
        * np.identity(nbrVariables)[None, yAxisList, :]
        * np.expand_dims(dxArray, (-4, -3, -2))
    )
    shape = pos.shape[:-1]
    pos = pos.reshape((int(pos.size / nbrVariables), nbrVariables))
    coeff = HESSIAN_COEFF[str(order)][:, None, None] / (
        np.expand_dims(dxArray[..., yAxisList], (-3, -2))
        * np.expand_dims(dxArray[..., xAxisList], (-3, -1))
    )
    fEvaluation = f(pos, *args).reshape(shape)
    return np.asarray(np.sum(coeff * fEvaluation, axis=-3))
"""

# functions an assert may call (asserts are dropped from the pin, so they must be pure)
_PURE = {"isinstance", "len", "np.all", "np.any", "float", "int", "hasattr", "np.isfinite",
         "np.shape", "np.ndim", "tuple", "list", "type", "self.areDerivativesConfigured"}
import builtins as _b
_BUILTINS = set(dir(_b))
_UNTRACKED = {"np", "float", "int", "len", "str", "tuple", "list", "isinstance", "OFFSET_BLOCK"}


def _check_assert(st):
    for n in ast.walk(st):
        if isinstance(n, ast.NamedExpr):
            raise TranslateError("assert binds a name: " + ast.unparse(st)[:80])
        if isinstance(n, ast.Call) and ast.unparse(n.func) not in _PURE:
            raise TranslateError("assert calls %s (asserts are dropped from the pin, so "
                                 "they may only call pure functions)" % ast.unparse(n.func))


def _is_offset_stmt(st):
    if isinstance(st, ast.AugAssign):
        return isinstance(st.target, ast.Name) and st.target.id == "offset"
    if isinstance(st, ast.If):
        return any(isinstance(s, ast.AugAssign) and isinstance(s.target, ast.Name)
                   and s.target.id == "offset" for s in ast.walk(st))
    return False


def _canon_body(body, tracked, top=False):
    """docstrings, asserts, bare annotations and statements that mention no tracked name
    (and contain no control transfer) removed; the offset block replaced by a placeholder"""
    out = []
    i = 0
    while i < len(body):
        st = body[i]
        i += 1
        if isinstance(st, ast.Expr) and isinstance(st.value, ast.Constant) and \
                isinstance(st.value.value, str):
            continue
        if isinstance(st, ast.Assert):
            # the asserts are part of the contract (x outside the bounds must be refused):
            # kept in the canonical text, message dropped
            _check_assert(st)
            out.append(ast.Assert(test=st.test, msg=None))
            continue
        if isinstance(st, ast.AnnAssign) and st.value is None:
            continue
        if isinstance(st, ast.Expr) and not (isinstance(st.value, ast.Name)
                                             and st.value.id == "OFFSET_BLOCK"):
            # an expression statement can only matter through a side effect
            # (np.seterr, a method call that mutates, ...)
            raise TranslateError("expression statement %s inside a pinned function" %
                                 ast.unparse(st)[:80])
        if isinstance(st, (ast.FunctionDef, ast.AsyncFunctionDef, ast.ClassDef, ast.Lambda,
                           ast.Global, ast.Nonlocal, ast.Import, ast.ImportFrom, ast.Delete,
                           ast.With, ast.Try, ast.While)):
            raise TranslateError("statement kind %s inside a pinned function" %
                                 type(st).__name__)
        if isinstance(st, ast.AnnAssign):
            st = ast.Assign(targets=[st.target], value=st.value, lineno=0)
        if top and isinstance(st, ast.Assign) and len(st.targets) == 1 and \
                isinstance(st.targets[0], ast.Name) and st.targets[0].id == "offset":
            out.append(st)
            while i < len(body) and (_is_offset_stmt(body[i]) or (
                    isinstance(body[i], ast.Expr) and isinstance(body[i].value, ast.Name)
                    and body[i].value.id == "OFFSET_BLOCK")):
                i += 1
            out.append(ast.Expr(value=ast.Name(id="OFFSET_BLOCK", ctx=ast.Load())))
            continue
        if isinstance(st, ast.Expr) and isinstance(st.value, ast.Name) and \
                st.value.id == "OFFSET_BLOCK":
            out.append(st)
            continue
        if isinstance(st, ast.If):
            st = ast.If(test=st.test, body=_canon_body(st.body, tracked) or [ast.Pass()],
                        orelse=_canon_body(st.orelse, tracked))
        elif isinstance(st, ast.For):
            if st.orelse:
                raise TranslateError("for-else inside a pinned function")
            st = ast.For(target=st.target, iter=st.iter,
                         body=_canon_body(st.body, tracked) or [ast.Pass()], orelse=[],
                         lineno=0)
        if isinstance(st, ast.Pass):
            continue
        transfers = any(isinstance(n, (ast.Return, ast.Raise, ast.Break, ast.Continue,
                                       ast.Yield, ast.YieldFrom, ast.Await))
                        for n in ast.walk(st))
        mentions = any(isinstance(n, ast.Name) and n.id in tracked for n in ast.walk(st))
        if not (transfers or mentions):
            continue
        out.append(st)
    return out


def _canon_fn(fn, tracked=None):
    """canonical text of a function for the structural pin"""
    for n in ast.walk(fn):
        if isinstance(n, ast.Name) and isinstance(n.ctx, (ast.Store, ast.Del)) and (
                n.id in _BUILTINS or n.id in ("np", "numpy")):
            raise TranslateError("%s rebinds %s" % (fn.name, n.id))
        if isinstance(n, ast.NamedExpr):
            raise TranslateError("walrus in " + fn.name)
        if isinstance(n, ast.keyword) and n.arg == "out":
            raise TranslateError("out= keyword in " + fn.name)
    if fn.decorator_list:
        raise TranslateError("decorator on " + fn.name)
    a = fn.args
    if a.vararg or a.kwarg or a.kwonlyargs or a.posonlyargs:
        raise TranslateError("signature of " + fn.name)
    sig = [(x.arg, ast.unparse(d) if d is not None else None) for x, d in
           zip(a.args, [None] * (len(a.args) - len(a.defaults)) + list(a.defaults))]
    if tracked is None:
        tracked = {n.id for n in ast.walk(fn) if isinstance(n, ast.Name)} | \
            {x.arg for x in a.args}
        tracked -= _UNTRACKED
    body = _canon_body(fn.body, tracked, top=True)
    text = "\n".join(ast.unparse(ast.fix_missing_locations(st)) for st in body)
    return sig, text, tracked


def pin_functions(tree):
    """derivative/gradient/hessian must be the reference modulo docstrings, annotations,
    pure asserts, the (translated) offset block and statements touching none of the
    reference's names"""
    ref = {f.name: f for f in ast.parse(REFERENCE).body if isinstance(f, ast.FunctionDef)}
    fns = {}
    for f in tree.body:
        if isinstance(f, ast.FunctionDef):
            if f.name in fns:
                raise TranslateError("function %s defined twice" % f.name)
            fns[f.name] = f
    for name, rf in ref.items():
        if name not in fns:
            raise TranslateError("no function " + name)
        rsig, rtext, tracked = _canon_fn(rf)
        sig, text, _ = _canon_fn(fns[name], tracked)
        # accepted variant: numpy integers count as an int axis (same model: one axis)
        for nm in ("axis", "xAxis", "yAxis"):
            text = text.replace("isinstance(%s, (int, np.integer))" % nm,
                                "isinstance(%s, int)" % nm)
        if sig != rsig:
            raise TranslateError("signature/defaults of %s are %r, reference %r" %
                                 (name, sig, rsig))
        if text != rtext:
            a, b = text.splitlines(), rtext.splitlines()
            k = next((j for j in range(min(len(a), len(b))) if a[j] != b[j]),
                     min(len(a), len(b)))
            raise TranslateError(
                "%s differs from the modelled reference at canonical line %d: source has "
                "%r, model expects %r" % (name, k + 1, a[k][:150] if k < len(a) else "<end>",
                                          b[k][:150] if k < len(b) else "<end>"))
    # the tables and the three functions are not rebound or mutated elsewhere in the module
    watch = set(TABLES) | set(ref)
    for st in tree.body:
        if isinstance(st, ast.FunctionDef) and st.name in ref:
            continue
        if isinstance(st, ast.Assign) and len(st.targets) == 1 and \
                isinstance(st.targets[0], ast.Name) and st.targets[0].id in TABLES:
            names = {n.id for n in ast.walk(st.value) if isinstance(n, ast.Name)}
            if names & watch:
                raise TranslateError("table defined from another table")
            continue
        for n in ast.walk(st):
            if isinstance(n, ast.Name) and n.id in watch:
                raise TranslateError("%s is used or modified outside its definition "
                                     "(line %d)" % (n.id, getattr(n, "lineno", 0)))
            if isinstance(n, (ast.FunctionDef, ast.ClassDef)) and n.name in watch:
                raise TranslateError("%s redefined" % n.name)
    seen = [st.targets[0].id for st in tree.body if isinstance(st, ast.Assign)
            and len(st.targets) == 1 and isinstance(st.targets[0], ast.Name)
            and st.targets[0].id in TABLES]
    if sorted(seen) != sorted(TABLES):
        raise TranslateError("tables assigned %r" % seen)
    return {name: dict(_canon_fn(fns[name])[0]) for name in ref}


def _module_names(tree):
    """helpers.py does not rebind a builtin or `np` at module level (float = np.float32 ...)
    and binds np by `import numpy as np` only"""
    nps = 0
    for st in tree.body:
        if isinstance(st, (ast.FunctionDef, ast.ClassDef)):
            names = [st.name]
        elif isinstance(st, (ast.Import, ast.ImportFrom)):
            names = [(a.asname or a.name).split(".")[0] for a in st.names]
            if any(a.name == "*" for a in st.names):
                raise TranslateError("star import in helpers.py")
            if isinstance(st, ast.Import) and any(a.name == "numpy" and a.asname == "np"
                                                  for a in st.names):
                nps += 1
                names = [n for n in names if n != "np"]
        else:
            names = [n.id for n in ast.walk(st) if isinstance(n, ast.Name)
                     and isinstance(n.ctx, (ast.Store, ast.Del))]
            for n in ast.walk(st):
                if isinstance(n, ast.Call) and ast.unparse(n.func) in (
                        "setattr", "globals", "exec", "eval", "np.seterr", "vars", "locals"):
                    raise TranslateError("module-level call of %s in helpers.py" %
                                         ast.unparse(n.func))
        for nm in names:
            if nm in _BUILTINS or nm in ("np", "numpy"):
                raise TranslateError("helpers.py rebinds %s at module level" % nm)
    if nps != 1:
        raise TranslateError("helpers.py does not bind np by exactly one `import numpy as np`")


def _table_row(node, table):
    """TABLE[str(order)][k, ...] -> k"""
    if isinstance(node, ast.Subscript) and isinstance(node.value, ast.Subscript) and \
            isinstance(node.value.value, ast.Name) and node.value.value.id == table and \
            ast.unparse(node.value.slice) == "str(order)":
        sl = node.slice
        first = sl.elts[0] if isinstance(sl, ast.Tuple) else sl
        if isinstance(first, ast.Constant) and isinstance(first.value, int) and \
                not isinstance(first.value, bool) and first.value >= 0:
            return first.value
        raise TranslateError("row index of %s is not a literal" % table)
    return None


def grad_hess_rows(tree):
    """row indices used by gradient / hessian (read from the subscript expressions)"""
    fns = {f.name: f for f in tree.body if isinstance(f, ast.FunctionDef)}
    rows = {}
    for n in ast.walk(fns["gradient"]):
        for t in ("FIRST_DERIV_POS", "FIRST_DERIV_COEFF"):
            k = _table_row(n, t)
            if k is not None:
                rows.setdefault(t, set()).add(k)
    if any(len(rows.get(t, ())) != 1 for t in ("FIRST_DERIV_POS", "FIRST_DERIV_COEFF")) or \
            rows["FIRST_DERIV_POS"] != rows["FIRST_DERIV_COEFF"]:
        raise TranslateError("gradient indexes rows %r of the first-derivative tables" % rows)
    hx = hy = None
    for n in ast.walk(fns["hessian"]):
        if isinstance(n, ast.BinOp) and isinstance(n.op, ast.Mult):
            k = _table_row(n.left, "HESSIAN_POS")
            if k is None:
                continue
            r = ast.unparse(n.right)
            if r == "np.identity(nbrVariables)[xAxisList, None, :]" and hx is None:
                hx = k
            elif r == "np.identity(nbrVariables)[None, yAxisList, :]" and hy is None:
                hy = k
            else:
                raise TranslateError("HESSIAN_POS row %d multiplies %s" % (k, r))
    if hx is None or hy is None:
        raise TranslateError("hessian does not use one HESSIAN_POS row per axis list")
    return rows["FIRST_DERIV_POS"].pop(), (hx, hy)


def generate(src_text):
    tree = ast.parse(src_text)
    tb = tables(tree)
    fns = {f.name: f for f in tree.body if isinstance(f, ast.FunctionDef)}
    if "derivative" not in fns:
        raise TranslateError("no function derivative")
    bounds_norm(fns["derivative"])
    rule, _ = offset_rule(fns["derivative"])
    guard = guard_rule(fns["derivative"])
    defaults = pin_functions(tree)
    _module_names(tree)
    grow, hrows = grad_hess_rows(tree)
    out = ["(* generated from src/WallGo/helpers.py -- do not edit *)",
           "From Coq Require Import List ZArith QArith Bool.",
           "From WG Require Import Lib.Stencil.",
           "Import ListNotations.", "Local Open Scope Q_scope.", ""]
    for (name, o), v in sorted(tb.items()):
        ty = "list (list Q)" if isinstance(v[0], list) else "list Q"
        out.append("Definition %s_%s : %s :=\n  %s." % (name, o, ty, coq_list(v)))
    out.append("")
    out.append("Definition offset (order : Z) (x dx : Q) (lb ub : bound) : Z :=\n    "
               + rule + ".")
    out.append("(* the assertion `x inside bounds` of derivative: true = accepted *)")
    out.append("Definition guard (x : Q) (lb ub : bound) : bool :=\n    (%s)%%bool." % guard)
    out.append("Definition gradient_row : nat := %d." % grow)
    out.append("Definition hessian_xrow : nat := %d." % hrows[0])
    out.append("Definition hessian_yrow : nat := %d." % hrows[1])
    for fn in ("derivative", "gradient", "hessian"):
        d = defaults[fn]
        out.append("Definition %s_default_order : Z := %d%%Z." % (fn, _int_default(d, "order", fn)))
    out.append("Definition derivative_default_n : nat := %d." %
               _int_default(defaults["derivative"], "n", "derivative"))
    return "\n".join(out) + "\n", tb


def _int_default(d, arg, fn):
    v = d.get(arg)
    try:
        return int(v)
    except (TypeError, ValueError):
        raise TranslateError("default of %s in %s is %r" % (arg, fn, v))


# -- call sites in effectivePotential.py ------------------------------------------------

def _sel(node):
    """last-axis selection  z | :z | :  -> Coq pysel"""
    if isinstance(node, ast.Slice):
        if node.lower is not None or node.step is not None:
            raise TranslateError("slice " + ast.unparse(node))
        if node.upper is None:
            return "AllSel"
        return "(UpTo (%d))" % _intlit(node.upper)
    return "(Idx (%d))" % _intlit(node)


def _intlit(node):
    try:
        v = _num(node)
    except TranslateError:
        raise TranslateError("index is not an integer literal: " + ast.unparse(node))
    if v.denominator != 1:
        raise TranslateError("index is not an integer: " + ast.unparse(node))
    return int(v)


def _ellipsis_sub(node, base, nsel):
    """base[..., s1, .., s_nsel] -> [sel]"""
    if not (isinstance(node, ast.Subscript) and ast.unparse(node.value) == base and
            isinstance(node.slice, ast.Tuple) and len(node.slice.elts) == nsel + 1 and
            isinstance(node.slice.elts[0], ast.Constant) and node.slice.elts[0].value is Ellipsis):
        raise TranslateError("expected %s[..., %s], found %s" % (
            base, ", ".join("s" * 1 for _ in range(nsel)), ast.unparse(node)))
    return [_sel(e) for e in node.slice.elts[1:]]


def _axes(node, env):
    if node is None or (isinstance(node, ast.Constant) and node.value is None):
        return "AxNone"
    if isinstance(node, ast.Name) and node.id in env:
        return _axes(env[node.id], {})
    if ast.unparse(node) == "np.arange(self.fieldCount).tolist()":
        return "AxFieldRange"
    try:
        return "(AxInt (%d))" % _intlit(node)
    except TranslateError:
        raise TranslateError("axis selection " + ast.unparse(node))


def _bound_lit(node, upper):
    u = ast.unparse(node)
    if u in ("np.inf", "+np.inf", "inf", "math.inf", "float('inf')"):
        return "PosInf"
    if u in ("-np.inf", "-inf", "-math.inf", "float('-inf')"):
        return "NegInf"
    return "(Fin %s)" % qlit(_num(node))


_SCALES = {"self.derivativeSettings.temperatureVariationScale": "TempScale",
           "self.derivativeSettings.fieldValueVariationScale": "FieldScale"}
_WRAP = "self.__wrapperPotential"
_COMB = "self.__combineInputs(fields, temperature)"
_EPS = "self.effectivePotentialError"


def _method_body(m, configured_guard=False):
    if m.decorator_list:
        raise TranslateError("decorator on EffectivePotential." + m.name)
    tracked = {n.id for n in ast.walk(m) if isinstance(n, ast.Name)} | \
        {x.arg for x in m.args.args}
    for n in ast.walk(m):
        if isinstance(n, (ast.NamedExpr, ast.Global, ast.Nonlocal)):
            raise TranslateError("unsupported construct in " + m.name)
    a = m.args
    if a.vararg or a.kwarg or a.kwonlyargs or a.posonlyargs or a.defaults:
        raise TranslateError("signature of EffectivePotential." + m.name)
    body = _canon_body(m.body, tracked - {"np"} | {"self"})
    if configured_guard:
        # the entry points refuse to run before configureDerivatives (first statement)
        if [x.arg for x in a.args] != ["self", "fields", "temperature"]:
            raise TranslateError("signature of EffectivePotential." + m.name)
        if not body or ast.unparse(body[0]) != "assert self.areDerivativesConfigured()":
            raise TranslateError("%s does not start with `assert "
                                 "self.areDerivativesConfigured()`" % m.name)
        body = body[1:]
    if any(isinstance(n, ast.Assert) for st in body for n in ast.walk(st)) and \
            m.name != "configureDerivatives":
        raise TranslateError("unexpected assert in " + m.name)
    return body


def _helper_call(node, fname, allowed, what):
    if not (isinstance(node, ast.Call) and isinstance(node.func, ast.Name)
            and node.func.id == fname):
        raise TranslateError("%s: expected a call of helpers.%s, found %s" % (
            what, fname, ast.unparse(node)[:80]))
    kws = {}
    for kw in node.keywords:
        if kw.arg is None or kw.arg not in allowed:
            raise TranslateError("%s passes %s= to %s (the model assumes the step is "
                                 "scale*epsilon**(1/(n+order)) and default args)" %
                                 (what, kw.arg, fname))
        if kw.arg in kws:
            raise TranslateError("keyword repeated")
        kws[kw.arg] = kw.value
    return node.args, kws


def _std_call(node, fname, what, axis_keys):
    """fname(self.__wrapperPotential, self.__combineInputs(fields, temperature),
    epsilon=self.effectivePotentialError, scale=self.__combinedScales[, order=k][, axes])"""
    args, kws = _helper_call(node, fname, {"epsilon", "scale", "order"} | set(axis_keys), what)
    if [ast.unparse(a) for a in args] != [_WRAP, _COMB]:
        raise TranslateError("%s calls %s on %r" % (what, fname,
                                                    [ast.unparse(a) for a in args]))
    if "epsilon" not in kws or ast.unparse(kws["epsilon"]) != _EPS:
        raise TranslateError("%s: epsilon is not %s" % (what, _EPS))
    if "scale" not in kws or ast.unparse(kws["scale"]) != "self.__combinedScales":
        raise TranslateError("%s: scale is not self.__combinedScales" % what)
    return kws


def potential_facts(pot_src, helpers_src):
    """Coq text with the call-site facts of EffectivePotential's derivative methods."""
    htree = ast.parse(helpers_src)
    hdef = {}
    for f in htree.body:
        if isinstance(f, ast.FunctionDef) and f.name in ("derivative", "gradient", "hessian"):
            hdef[f.name] = dict(_canon_fn(f)[0])
    tree = ast.parse(pot_src)
    imp = [st for st in tree.body if isinstance(st, ast.ImportFrom)
           and st.module == "helpers" and st.level == 1]
    if len(imp) != 1 or sorted((a.name, a.asname) for a in imp[0].names) != \
            [("derivative", None), ("gradient", None), ("hessian", None)]:
        raise TranslateError("effectivePotential.py does not import derivative, gradient, "
                             "hessian from .helpers")
    for st in tree.body:
        if st is imp[0]:
            continue
        for n in ast.walk(st):
            if isinstance(n, ast.Name) and n.id in hdef and isinstance(n.ctx, (ast.Store,
                                                                                ast.Del)):
                raise TranslateError("%s rebound in effectivePotential.py" % n.id)
            if isinstance(n, (ast.FunctionDef, ast.ClassDef)) and n.name in hdef:
                raise TranslateError("%s redefined in effectivePotential.py" % n.name)
            if isinstance(n, (ast.Import, ast.ImportFrom)) and n is not st:
                raise TranslateError("nested import in effectivePotential.py")
            if isinstance(n, (ast.Import, ast.ImportFrom)) and any(
                    (a.asname or a.name) in hdef for a in n.names):
                raise TranslateError("helper name imported twice")
    cls = [c for c in tree.body if isinstance(c, ast.ClassDef)
           and c.name == "EffectivePotential"]
    if len(cls) != 1:
        raise TranslateError("class EffectivePotential not found")
    cls = cls[0]
    # --- nothing in the module can replace a method after (or while) the class is built:
    # module level = docstring, imports, the settings dataclass and the class, nothing else
    for st in tree.body:
        if isinstance(st, (ast.Import, ast.ImportFrom)):
            if any(a.name == "*" for a in st.names):
                raise TranslateError("star import in effectivePotential.py")
            continue
        if isinstance(st, ast.Expr) and isinstance(st.value, ast.Constant) and \
                isinstance(st.value.value, str):
            continue
        if st is cls:
            continue
        if isinstance(st, ast.ClassDef) and st.name == "VeffDerivativeSettings" and \
                not st.bases and not st.keywords and \
                [ast.unparse(d) for d in st.decorator_list] == ["dataclass"] and all(
                    (isinstance(b, ast.AnnAssign) and b.value is None) or
                    (isinstance(b, ast.Expr) and isinstance(b.value, ast.Constant))
                    for b in st.body):
            continue
        raise TranslateError(
            "module-level statement in effectivePotential.py besides imports, "
            "VeffDerivativeSettings and EffectivePotential (it could rebind a method): %s"
            % ast.unparse(st)[:100])
    if [ast.unparse(b) for b in cls.bases] != ["ABC"] or cls.keywords or cls.decorator_list:
        raise TranslateError("EffectivePotential is not a plain `class ...(ABC)`")
    allowed = {"evaluate", "__init_subclass__", "configureDerivatives",
               "areDerivativesConfigured", "getInherentRelativeError", "findLocalMinimum",
               "__wrapperPotential", "__combineInputs", "derivT", "derivField",
               "deriv2FieldT", "deriv2Field2", "allSecondDerivatives"}
    meth = {}
    for m in cls.body:
        if isinstance(m, ast.FunctionDef):
            if m.name in meth:
                raise TranslateError("method %s defined twice" % m.name)
            if m.name not in allowed:
                raise TranslateError("EffectivePotential defines %s (a hook such as "
                                     "__getattribute__ could intercept the pinned methods)"
                                     % m.name)
            meth[m.name] = m
        elif isinstance(m, ast.AnnAssign) and m.value is None:
            continue
        elif isinstance(m, ast.Expr) and isinstance(m.value, ast.Constant) and \
                isinstance(m.value.value, str):
            continue
        else:
            raise TranslateError("class-body statement in EffectivePotential that is not a "
                                 "def or a bare annotation (it could rebind a method): %s"
                                 % ast.unparse(m)[:100])
    for k, want in (("areDerivativesConfigured",
                     ["return hasattr(self, 'derivativeSettings')"]),
                    ("getInherentRelativeError", ["return self.effectivePotentialError"])):
        if k not in meth or [ast.unparse(x) for x in _method_body(meth[k])] != want:
            raise TranslateError("EffectivePotential.%s is not %r" % (k, want))
    if "__init_subclass__" in meth:
        for n in ast.walk(meth["__init_subclass__"]):
            if isinstance(n, ast.Call) and ast.unparse(n.func) in ("setattr", "type.__setattr__") \
                    or isinstance(n, (ast.Attribute, ast.Subscript)) and \
                    isinstance(n.ctx, (ast.Store, ast.Del)):
                raise TranslateError("__init_subclass__ modifies the class")
    # --- object state: only configureDerivatives writes attributes of self ------------
    for m in meth.values():
        for n in ast.walk(m):
            if isinstance(n, ast.Call) and ast.unparse(n.func) in (
                    "setattr", "delattr", "getattr", "vars", "object.__setattr__"):
                raise TranslateError("%s uses %s(...)" % (m.name, ast.unparse(n.func)))
            if isinstance(n, ast.Attribute) and n.attr in ("__dict__", "__class__"):
                raise TranslateError("%s touches %s" % (m.name, n.attr))
            if isinstance(n, (ast.Attribute, ast.Subscript)) and \
                    isinstance(n.ctx, (ast.Store, ast.Del)):
                root = n
                while isinstance(root, (ast.Attribute, ast.Subscript)):
                    root = root.value
                if isinstance(root, ast.Name) and root.id in ("self", "cls") and \
                        m.name != "configureDerivatives":
                    raise TranslateError(
                        "EffectivePotential.%s stores %s: the model has no state besides "
                        "the derivative settings written by configureDerivatives" %
                        (m.name, ast.unparse(n)))
    pinned = {"derivT", "derivField", "deriv2FieldT", "deriv2Field2", "allSecondDerivatives",
              "__wrapperPotential", "__combineInputs", "configureDerivatives",
              "_EffectivePotential__wrapperPotential", "_EffectivePotential__combineInputs"}
    for n in ast.walk(tree):
        if isinstance(n, ast.Constant) and isinstance(n.value, str) and n.value in pinned:
            raise TranslateError("the name of a pinned method appears as a string (%r): "
                                 "possible indirect rebinding" % n.value)
        if isinstance(n, ast.Call) and ast.unparse(n.func) in (
                "setattr", "delattr", "type.__setattr__", "object.__setattr__", "globals",
                "exec", "eval"):
            raise TranslateError("effectivePotential.py calls %s" % ast.unparse(n.func))
    need = ["configureDerivatives", "__wrapperPotential", "__combineInputs", "derivT",
            "derivField", "deriv2FieldT", "deriv2Field2", "allSecondDerivatives"]
    for k in need:
        if k not in meth:
            raise TranslateError("no method EffectivePotential." + k)
    facts = {}
    # --- configureDerivatives: layout of the combined scales -----------------------------
    stores = [n for n in ast.walk(cls) if isinstance(n, (ast.Assign, ast.AugAssign,
                                                         ast.AnnAssign))
              and any(ast.unparse(t) == "self.__combinedScales" for t in
                      (n.targets if isinstance(n, ast.Assign) else [n.target]))
              and not (isinstance(n, ast.AnnAssign) and n.value is None)]
    cd = _method_body(meth["configureDerivatives"])
    if len(stores) != 1 or not isinstance(stores[0], ast.Assign) or \
            ast.unparse(cd[-1]) != ast.unparse(stores[0]):
        raise TranslateError("self.__combinedScales is not assigned exactly once, as the last "
                             "statement of configureDerivatives")
    v = stores[0].value
    if not (isinstance(v, ast.Call) and ast.unparse(v.func) == "np.append"
            and len(v.args) == 2 and not v.keywords
            and all(ast.unparse(a) in _SCALES for a in v.args)):
        raise TranslateError("combined scales are " + ast.unparse(v))
    facts["scales_layout"] = "[%s]" % "; ".join(_SCALES[ast.unparse(a)] for a in v.args)
    want_cd = [
        "self.derivativeSettings = copy.copy(settings)",
        "if isinstance(settings.fieldValueVariationScale, float):\n"
        "    self.derivativeSettings.fieldValueVariationScale = "
        "settings.fieldValueVariationScale * np.ones(self.fieldCount)\n"
        "else:\n"
        "    self.derivativeSettings.fieldValueVariationScale = "
        "np.asanyarray(settings.fieldValueVariationScale)\n"
        "    assert self.derivativeSettings.fieldValueVariationScale.size == self.fieldCount"]
    got_cd = [ast.unparse(ast.fix_missing_locations(s)) for s in cd[:-1]]
    # optional, value-preserving: the temperature scale is coerced to a python float
    # (helpers.derivative asserts isinstance(scale, float)); it stays the T scale
    tfloat = ("self.derivativeSettings.temperatureVariationScale = "
              "float(settings.temperatureVariationScale)")
    facts["derivT_scale_coerced_to_float"] = "true" if tfloat in got_cd[1:2] else "false"
    if got_cd[1:2] == [tfloat]:
        got_cd = got_cd[:1] + got_cd[2:]
    if got_cd != want_cd:
        raise TranslateError("configureDerivatives normalises the scales by %r, model "
                             "expects %r" % (got_cd, want_cd))
    # --- __combineInputs / __wrapperPotential: layout of the combined array -----------
    ci = _method_body(meth["__combineInputs"])
    txt = [ast.unparse(ast.fix_missing_locations(s)) for s in ci]
    if len(ci) != 6 or txt[0] != "shape = list(fields.shape)" or txt[1] != "shape[-1] += 1" \
            or txt[2] != "combinedInput = np.empty(shape)" or txt[5] != "return combinedInput":
        raise TranslateError("__combineInputs is %r" % txt)
    lay = {}
    for st in ci[3:5]:
        if not (isinstance(st, ast.Assign) and len(st.targets) == 1 and
                isinstance(st.value, ast.Name) and st.value.id in ("fields", "temperature")):
            raise TranslateError("__combineInputs: " + ast.unparse(st))
        lay[st.value.id] = _ellipsis_sub(st.targets[0], "combinedInput", 1)[0]
    if sorted(lay) != ["fields", "temperature"]:
        raise TranslateError("__combineInputs does not store fields and temperature")
    facts["combine_fields"], facts["combine_T"] = lay["fields"], lay["temperature"]
    wp = _method_body(meth["__wrapperPotential"])
    if [a.arg for a in meth["__wrapperPotential"].args.args] != ["self", "X"] or len(wp) != 3 \
            or ast.unparse(wp[2]) != "return self.evaluate(fields, temperature)":
        raise TranslateError("__wrapperPotential is not (fields, temperature) -> evaluate")
    a0, a1 = wp[0], wp[1]
    if not (isinstance(a0, ast.Assign) and ast.unparse(a0.targets[0]) == "fields" and
            isinstance(a0.value, ast.Call) and ast.unparse(a0.value.func) == "Fields" and
            len(a0.value.args) == 1 and not a0.value.keywords and
            isinstance(a1, ast.Assign) and ast.unparse(a1.targets[0]) == "temperature"):
        raise TranslateError("__wrapperPotential: %s / %s" % (ast.unparse(a0),
                                                              ast.unparse(a1)))
    facts["wrapper_fields"] = _ellipsis_sub(a0.value.args[0], "X", 1)[0]
    facts["wrapper_T"] = _ellipsis_sub(a1.value, "X", 1)[0]
    # --- derivT ------------------------------------------------------------------------
    b = _method_body(meth["derivT"], configured_guard=True)
    if len(b) == 2 and isinstance(b[0], ast.Assign) and len(b[0].targets) == 1 and \
            isinstance(b[0].targets[0], ast.Name) and isinstance(b[1], ast.Return) and \
            ast.unparse(b[1].value) == b[0].targets[0].id:
        call = b[0].value
    elif len(b) == 1 and isinstance(b[0], ast.Return):
        call = b[0].value
    else:
        raise TranslateError("derivT is not `return derivative(...)`")
    args, kws = _helper_call(call, "derivative", {"n", "order", "epsilon", "scale", "bounds"},
                             "derivT")
    if len(args) != 2 or ast.unparse(args[0]) != "lambda T: self.evaluate(fields, T)" or \
            ast.unparse(args[1]) != "temperature":
        raise TranslateError("derivT differentiates %r" % [ast.unparse(a) for a in args])
    if "epsilon" not in kws or ast.unparse(kws["epsilon"]) != _EPS:
        raise TranslateError("derivT: epsilon is not " + _EPS)
    if "scale" not in kws or ast.unparse(kws["scale"]) not in _SCALES:
        raise TranslateError("derivT: scale is %s" % (ast.unparse(kws["scale"])
                                                      if "scale" in kws else None))
    facts["derivT_scale"] = _SCALES[ast.unparse(kws["scale"])]
    facts["derivT_n"] = "%d" % (_intlit(kws["n"]) if "n" in kws else
                                 _int_default(hdef["derivative"], "n", "derivative"))
    facts["derivT_order"] = "(%d)%%Z" % (_intlit(kws["order"]) if "order" in kws else
                                         _int_default(hdef["derivative"], "order",
                                                      "derivative"))
    bn = kws.get("bounds")
    if bn is None or (isinstance(bn, ast.Constant) and bn.value is None):
        facts["derivT_lb"], facts["derivT_ub"] = "NegInf", "PosInf"
    elif isinstance(bn, (ast.Tuple, ast.List)) and len(bn.elts) == 2:
        facts["derivT_lb"] = _bound_lit(bn.elts[0], False)
        facts["derivT_ub"] = _bound_lit(bn.elts[1], True)
    else:
        raise TranslateError("derivT bounds " + ast.unparse(bn))

    def order_of(kws, fname):
        return "(%d)%%Z" % (_intlit(kws["order"]) if "order" in kws else
                            _int_default(hdef[fname], "order", fname))
    # --- derivField ----------------------------------------------------------------------
    b = _method_body(meth["derivField"], configured_guard=True)
    if len(b) != 1 or not isinstance(b[0], ast.Return):
        raise TranslateError("derivField is not `return gradient(...)`")
    kws = _std_call(b[0].value, "gradient", "derivField", ["axis"])
    facts["derivField_axis"] = _axes(kws.get("axis"), {})
    facts["derivField_order"] = order_of(kws, "gradient")
    # --- deriv2FieldT ----------------------------------------------------------------------
    b = _method_body(meth["deriv2FieldT"], configured_guard=True)
    if not (len(b) == 2 and isinstance(b[0], ast.Assign) and
            ast.unparse(b[0].targets[0]) == "res" and ast.unparse(b[1]) == "return res" and
            isinstance(b[0].value, ast.Subscript)):
        raise TranslateError("deriv2FieldT is not res = hessian(...)[..., k]; return res")
    kws = _std_call(b[0].value.value, "hessian", "deriv2FieldT", ["xAxis", "yAxis"])
    sl = b[0].value.slice
    if not (isinstance(sl, ast.Tuple) and len(sl.elts) == 2 and
            isinstance(sl.elts[0], ast.Constant) and sl.elts[0].value is Ellipsis):
        raise TranslateError("deriv2FieldT result index " + ast.unparse(sl))
    facts["deriv2FieldT_post"] = _sel(sl.elts[1])
    facts["deriv2FieldT_x"] = _axes(kws.get("xAxis"), {})
    facts["deriv2FieldT_y"] = _axes(kws.get("yAxis"), {})
    facts["deriv2FieldT_order"] = order_of(kws, "hessian")
    # --- deriv2Field2 ----------------------------------------------------------------------
    b = _method_body(meth["deriv2Field2"], configured_guard=True)
    env = {}
    for st in b[:-1]:
        if not (isinstance(st, ast.Assign) and len(st.targets) == 1 and
                isinstance(st.targets[0], ast.Name) and st.targets[0].id not in env):
            raise TranslateError("deriv2Field2: " + ast.unparse(st))
        env[st.targets[0].id] = st.value
    if not b or not isinstance(b[-1], ast.Return):
        raise TranslateError("deriv2Field2 is not `return hessian(...)`")
    kws = _std_call(b[-1].value, "hessian", "deriv2Field2", ["xAxis", "yAxis"])
    facts["deriv2Field2_x"] = _axes(kws.get("xAxis"), env)
    facts["deriv2Field2_y"] = _axes(kws.get("yAxis"), env)
    facts["deriv2Field2_order"] = order_of(kws, "hessian")
    # --- allSecondDerivatives ------------------------------------------------------------------
    b = _method_body(meth["allSecondDerivatives"], configured_guard=True)
    if not (len(b) == 5 and isinstance(b[0], ast.Assign) and
            ast.unparse(b[0].targets[0]) == "res" and
            ast.unparse(b[4]) == "return (hess, dgraddT, d2VdT2)"):
        raise TranslateError("allSecondDerivatives is not res = hessian(...); three slices; "
                             "return (hess, dgraddT, d2VdT2)")
    kws = _std_call(b[0].value, "hessian", "allSecondDerivatives", ["xAxis", "yAxis"])
    facts["allSecond_x"] = _axes(kws.get("xAxis"), {})
    facts["allSecond_y"] = _axes(kws.get("yAxis"), {})
    facts["allSecond_order"] = order_of(kws, "hessian")
    got = {}
    for st in b[1:4]:
        if not (isinstance(st, ast.Assign) and len(st.targets) == 1 and
                isinstance(st.targets[0], ast.Name)):
            raise TranslateError("allSecondDerivatives: " + ast.unparse(st))
        r, c = _ellipsis_sub(st.value, "res", 2)
        got[st.targets[0].id] = "(%s, %s)" % (r, c)
    if sorted(got) != ["d2VdT2", "dgraddT", "hess"]:
        raise TranslateError("allSecondDerivatives slices %r" % sorted(got))
    facts["allSecond_hess"], facts["allSecond_dgraddT"], facts["allSecond_d2VdT2"] = \
        got["hess"], got["dgraddT"], got["d2VdT2"]
    types = dict(derivT_scale_coerced_to_float="bool", scales_layout="list scale_kind", derivT_scale="scale_kind", derivT_n="nat",
                 derivT_lb="bound", derivT_ub="bound")
    out = ["(* generated from src/WallGo/effectivePotential.py -- do not edit *)",
           "From Coq Require Import List ZArith QArith.",
           "From WG Require Import Lib.Stencil.",
           "Import ListNotations.", ""]
    for k in sorted(facts):
        if k in types:
            ty = types[k]
        elif k.endswith("_order"):
            ty = "Z"
        elif k.startswith("allSecond_") and k[10:] in ("hess", "dgraddT", "d2VdT2"):
            ty = "pysel * pysel"
        elif k.startswith(("combine_", "wrapper_")) or k.endswith("_post"):
            ty = "pysel"
        else:
            ty = "axes"
        out.append("Definition %s : %s := %s." % (k, ty, facts[k]))
    return "\n".join(out) + "\n", facts
