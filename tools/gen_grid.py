"""Generated model of WallGo.Grid and WallGo.Grid3Scales (coordinate maps + rescaling ops).

Two layers, both fail-closed (anything outside the subset raises pyrx.TranslateError):

 * the numeric methods (compactify / decompactify / compactificationDerivatives, the nested
   closures term1..term5 / totalMapping, _updateParameters as a state transformer) go through
   pyrx in state mode; this module only adds the numpy idioms of these two files
   (`np.arctanh(u + 0j).real` -> atanh_R u, calls between nested closures);
 * the methods that manage the cached arrays (__init__, _cacheCoordinates,
   changePositionFalloffScale, changeMomentumFalloffScale) are translated statement by
   statement into transformers of `cache P` (Lib/GridMapsCache.v): parameters P (the pyrx state
   record) + the three compact arrays + the six cached arrays.  Arrays are lists; calling a
   translated point function on the three arrays is the component-wise map (justified by the
   separability lemmas proved in Props/C17.v about the generated functions).

Grid3Scales is translated with Python's method resolution: methods it does not define are
taken from Grid (so the inherited compactify / changeMomentumFalloffScale / _cacheCoordinates
are part of the three-scale model, dispatching to the overriding decompactify).
"""
from __future__ import annotations

import ast

import pyrx
from pyrx import TranslateError

G_ATTRS = ["positionFalloff", "momentumFalloffT"]
G3_ATTRS = ["tailLengthInside", "tailLengthOutside", "wallThickness", "ratioPointsWall",
            "smoothing", "wallCenter", "aIn", "aOut", "positionFalloff", "momentumFalloffT"]
POINT_METHODS = ["compactify", "decompactify", "compactificationDerivatives"]
COMPACT = ("chiValues", "rzValues", "rpValues")
PHYS = ("xiValues", "pzValues", "ppValues")
JAC = ("dxidchi", "dpzdrz", "dppdrp")
# attributes that are not real numbers and not modelled (sizes / spacing keyword)
NONREAL = ("M", "N", "spacing")


def is_guard(st):
    """`if cond: raise ...` with nothing else in the body and no else branch"""
    return (isinstance(st, ast.If) and not st.orelse and len(st.body) == 1
            and isinstance(st.body[0], ast.Raise))


def negate(test):
    """python test equivalent to `not test`, pushed down to the comparisons"""
    if isinstance(test, ast.UnaryOp) and isinstance(test.op, ast.Not):
        return test.operand
    if isinstance(test, ast.BoolOp):
        op = ast.And() if isinstance(test.op, ast.Or) else ast.Or()
        return ast.BoolOp(op=op, values=[negate(v) for v in test.values],
                          lineno=getattr(test, "lineno", 0))
    if isinstance(test, ast.Compare) and len(test.ops) == 1:
        inv = {ast.Lt: ast.GtE, ast.LtE: ast.Gt, ast.Gt: ast.LtE, ast.GtE: ast.Lt}.get(
            type(test.ops[0]))
        if inv is not None:
            return ast.Compare(left=test.left, ops=[inv()], comparators=test.comparators,
                               lineno=getattr(test, "lineno", 0))
    if isinstance(test, ast.Compare) and len(test.ops) == 2:
        a = ast.Compare(left=test.left, ops=[test.ops[0]], comparators=[test.comparators[0]])
        b = ast.Compare(left=test.comparators[0], ops=[test.ops[1]],
                        comparators=[test.comparators[1]])
        return ast.BoolOp(op=ast.Or(), values=[negate(a), negate(b)],
                          lineno=getattr(test, "lineno", 0))
    raise TranslateError("cannot negate the guard %s" % ast.unparse(test)[:60])


def transparent_with(st):
    """`with np.errstate(...):` / `with warnings.catch_warnings():` change no value"""
    if not isinstance(st, ast.With):
        return False
    for it in st.items:
        c = it.context_expr
        if it.optional_vars is not None or not isinstance(c, ast.Call) or \
                not isinstance(c.func, ast.Attribute) or \
                not isinstance(c.func.value, ast.Name) or \
                (c.func.value.id, c.func.attr) not in (("np", "errstate"), ("numpy", "errstate"),
                                                       ("warnings", "catch_warnings")):
            return False
    return True


def flatten_with(stmts):
    out = []
    for st in stmts:
        if transparent_with(st):
            out += flatten_with(st.body)
        elif isinstance(st, ast.Expr) and isinstance(st.value, ast.Call) and \
                isinstance(st.value.func, ast.Attribute) and \
                isinstance(st.value.func.value, ast.Name) and \
                st.value.func.value.id == "warnings" and \
                st.value.func.attr in ("simplefilter", "filterwarnings"):
            continue
        else:
            out.append(st)
    return out


def is_log_call(v):
    """logging.* / logger.* / warnings.* / print call: no effect on the model"""
    if not isinstance(v, ast.Call):
        return False
    f = v.func
    if isinstance(f, ast.Name) and f.id == "print":
        return True
    while isinstance(f, ast.Attribute):
        f = f.value
    return isinstance(f, ast.Name) and f.id in ("logging", "logger", "warnings", "log")


def nonreal_name(test):
    """one opaque truth value stands for ALL checks on sizes / the spacing keyword (either they
    all pass or the first one met fails): adding such a check does not change a signature"""
    return "nonreal_ok"


def only_nonreal(test):
    """the test mentions only sizes / the spacing keyword (not modelled)"""
    names = set()
    for n in ast.walk(test):
        if isinstance(n, ast.Name):
            names.add(n.id)
        elif isinstance(n, ast.Attribute) and isinstance(n.value, ast.Name) and \
                n.value.id == "self":
            names.add(n.attr)
    names -= {"self", "int", "isinstance", "len", "str", "type"}
    return bool(names) and names <= set(NONREAL)



class GridTranslator(pyrx.ClassTranslator):
    """pyrx + the idioms of grid.py / grid3Scales.py."""

    def __init__(self, fns, attrs, prefix):
        # build the translator on a dummy class and install the resolved method table
        super().__init__("class K:\n    pass\n", "K", attrs, [], [], state=True,
                         prefix=prefix)
        self.fn = fns
        self.known_closures = {}
        self.ops = {}            # op-method name -> list of its R parameters (Coq order)
        self.xops = {}           # op-method name -> (coq name, params) of its version with exits
        self.xmode = False

    # np.arctanh(u + 0j).real  ->  atanh_R u
    def expr(self, node, env):
        if isinstance(node, ast.Attribute) and node.attr == "real":
            v = node.value
            if (isinstance(v, ast.Call) and isinstance(v.func, ast.Attribute)
                    and isinstance(v.func.value, ast.Name) and v.func.value.id == "np"
                    and v.func.attr == "arctanh" and len(v.args) == 1 and not v.keywords
                    and isinstance(v.args[0], ast.BinOp)
                    and isinstance(v.args[0].op, ast.Add)
                    and isinstance(v.args[0].right, ast.Constant)
                    and v.args[0].right.value == 0j
                    and isinstance(v.args[0].right.value, complex)):
                return "(atanh_R %s)" % self.expr(v.args[0].left, env)
            raise TranslateError(".real of %s (line %d)" % (ast.unparse(v)[:50],
                                                            node.lineno))
        if isinstance(node, ast.Constant) and isinstance(node.value, complex):
            raise TranslateError("complex literal (line %d)" % node.lineno)
        return super().expr(node, env)

    # nested closures calling earlier nested closures
    def block(self, stmts, env, k):
        stmts = flatten_with(stmts)
        if stmts and is_guard(stmts[0]):
            # `if cond: raise ...` == `assert not cond` (recorded, no-op on the normal path)
            self.asserts.append("not (%s)" % ast.unparse(stmts[0].test))
            return self.block(stmts[1:], env, k)
        if stmts and isinstance(stmts[0], ast.FunctionDef) and \
                stmts[0].name in self.known_closures:
            env2 = env.copy()
            env2.v[(stmts[0].name, "closure")] = self.known_closures[stmts[0].name]
            return self.block(stmts[1:], env2, k)
        return super().block(stmts, env, k)

    def closures_of(self, method, names):
        """Definitions for the nested closures `names` of `method`, in order; each may
        call the previous ones."""
        out = []
        for nm in names:
            coq = self.an(nm)
            text, used = self.closure(method, nm, coq)
            fn = self.fn[method]
            mparams = [a.arg for a in fn.args.args if a.arg != "self"]
            if any(u in mparams for u in used):
                raise TranslateError("closure %s captures a parameter of %s" % (nm, method))
            self.known_closures[nm] = "%s e s" % coq
            out.append(text)
        return out

    # ---- asserted preconditions as a Prop -------------------------------------------
    def prop(self, node, env):
        if isinstance(node, ast.Compare):
            parts = []
            left = node.left
            for op, right in zip(node.ops, node.comparators):
                sym = {ast.Lt: "<", ast.Gt: ">", ast.LtE: "<=", ast.GtE: ">="}.get(type(op))
                if sym is None:
                    raise TranslateError("assert comparison %s" % ast.unparse(node))
                parts.append("%s %s %s" % (self.expr(left, env), sym, self.expr(right, env)))
                left = right
            return " /\\ ".join(parts)
        if isinstance(node, ast.BoolOp):
            j = " /\\ " if isinstance(node.op, ast.And) else " \\/ "
            return j.join("(%s)" % self.prop(v, env) for v in node.values)
        raise TranslateError("assert test %s" % ast.unparse(node)[:60])

    def precondition(self, name):
        """Prop: conjunction of the top-level assert statements of method `name`, as a
        predicate of its parameters (asserts reading self.* are rejected)."""
        fn = self.fn[name]
        params = [a.arg for a in fn.args.args if a.arg != "self"]
        env = pyrx.Env()
        for p in params:
            env.v[p] = p
        props = []
        for st in fn.body:
            if isinstance(st, ast.Assert) or is_guard(st):
                for n in ast.walk(st.test):
                    if isinstance(n, ast.Attribute):
                        raise TranslateError("assert reads %s" % ast.unparse(n))
                props.append(self.prop(st.test, env) if isinstance(st, ast.Assert)
                             else self.prop(negate(st.test), env))
        if not props:
            raise TranslateError("%s has no assertions" % name)
        return "Definition %s_pre %s: Prop :=\n  %s." % (
            self.an(name), "".join("(%s : R) " % p for p in params),
            " /\\\n  ".join("(%s)" % p for p in props))

    # ---- methods with their error exits ------------------------------------------------
    def raising_method(self, name, coq_name=None):
        """State-mode method translated WITH its assertions / guards, in program order:
        result (state at the moment of return or raise, completed?).  A store that precedes
        a failing assertion therefore shows in the returned state."""
        fn = self.fn.get(name)
        if fn is None:
            raise TranslateError("method %s not found" % name)
        env = pyrx.Env()
        ps = self.params(fn)
        for p_, _ in ps:
            env.v[p_] = p_

        def walk(stmts, env):
            stmts = flatten_with(stmts)
            if not stmts:
                return "(s, true)"
            st, rest = stmts[0], stmts[1:]
            if isinstance(st, ast.Expr) and isinstance(st.value, ast.Constant):
                return walk(rest, env)
            if isinstance(st, ast.Expr) and is_log_call(st.value):
                return walk(rest, env)
            if isinstance(st, ast.Pass):
                return walk(rest, env)
            if isinstance(st, ast.Assert):
                return "if %s\n  then (%s)\n  else (s, false)" % (
                    self._bool(st.test, env), walk(rest, env))
            if is_guard(st):
                return "if %s\n  then (s, false)\n  else (%s)" % (
                    self._bool(st.test, env), walk(rest, env))
            if isinstance(st, ast.Return) and st.value is None:
                return "(s, true)"
            if isinstance(st, ast.Assign) and len(st.targets) == 1:
                tg = st.targets[0]
                a = self._self_attr(tg)
                if a is not None and a in self.attrs:
                    return "let s := set_%s %s s in\n  %s" % (
                        self.an(a), self.expr(st.value, env), walk(rest, env))
                if isinstance(tg, ast.Name):
                    nm = self.newname(tg.id)
                    env2 = env.copy()
                    env2.v[tg.id] = nm
                    return "let %s := %s in\n  %s" % (nm, self.expr(st.value, env),
                                                      walk(rest, env2))
            raise TranslateError("%s: statement outside the subset: %s (line %d)" % (
                name, ast.unparse(st).splitlines()[0][:60], st.lineno))
        body = walk(list(fn.body), env)
        cn = coq_name or self.an(name) + "_x"
        self.spans[cn] = (fn.lineno, fn.end_lineno, pyrx._sha(ast.unparse(fn)))
        return "Definition %s (e : %senv) (s : %sst) %s: %sst * bool :=\n  %s." % (
            cn, self.prefix, self.prefix, "".join("(%s : R) " % p_ for p_, _ in ps),
            self.prefix, body)

    def may_raise(self, name, seen=()):
        """does the method (transitively, through self.<m>() and super().__init__) contain an
        assertion / raise on modelled quantities?"""
        fn = self.fn.get(name)
        if fn is None or name in seen:
            return False
        for n in ast.walk(fn):
            if isinstance(n, ast.Assert):
                return True
            if isinstance(n, ast.If) and any(isinstance(b, ast.Raise) for b in n.body):
                return True
            if isinstance(n, ast.Call):
                m = self._self_attr(n.func)
                if m is not None and m in self.fn and self.may_raise(m, seen + (name,)):
                    return True
        return False

    # ---- getters ------------------------------------------------------------------------
    def getter_method(self, name, coq_name=None, direction="<none>"):
        """A getter: returns (tuples of) arrays built from the stored arrays, python lists of
        them and the constants +-1 / +-inf, depending on the bool parameter `endpoints` (and,
        specialised at translation time, on the string parameter `direction`).  Arrays are
        `list ext` (Lib/GridMapsCache.v)."""
        fn = self.fn.get(name)
        if fn is None:
            raise TranslateError("method %s not found" % name)
        ps = [a.arg for a in fn.args.args if a.arg != "self"]
        if fn.args.vararg or fn.args.kwarg or fn.args.kwonlyargs or \
                not set(ps) <= {"endpoints", "direction"}:
            raise TranslateError("%s: unexpected signature %s" % (name, ps))
        if direction != "<none>" and "direction" not in ps:
            raise TranslateError("%s has no direction parameter" % name)
        env = {}

        def scalar(n):
            c = pyrx.const_value(n)
            if c is not None:
                return "(Fin %s)" % pyrx.rlit(c)
            neg = isinstance(n, ast.UnaryOp) and isinstance(n.op, ast.USub)
            m = n.operand if neg else n
            if isinstance(m, ast.Attribute) and isinstance(m.value, ast.Name) and \
                    m.value.id in ("np", "numpy", "math") and m.attr == "inf":
                return "NegInf" if neg else "PosInf"
            raise TranslateError("%s: list element %s (line %d)" % (name, ast.unparse(n)[:40],
                                                                    n.lineno))

        def pylist(n):
            if isinstance(n, ast.List):
                return "[" + "; ".join(scalar(x) for x in n.elts) + "]"
            if isinstance(n, ast.Call) and isinstance(n.func, ast.Name) and \
                    n.func.id == "list" and len(n.args) == 1 and not n.keywords:
                a = self._self_attr(n.args[0])
                if a in COMPACT + PHYS + JAC:
                    return "(map Fin (%s c))" % a
            if isinstance(n, ast.BinOp) and isinstance(n.op, ast.Add):
                return "(%s ++ %s)" % (pylist(n.left), pylist(n.right))
            a = self._self_attr(n)
            if a in COMPACT + PHYS + JAC:
                return "(map Fin (%s c))" % a
            raise TranslateError("%s: list expression %s (line %d)" % (
                name, ast.unparse(n)[:50], n.lineno))

        def arr(n, env):
            if isinstance(n, ast.Name) and n.id in env:
                return env[n.id]
            a = self._self_attr(n)
            if a in COMPACT + PHYS + JAC:
                return "(map Fin (%s c))" % a
            if isinstance(n, ast.Call) and isinstance(n.func, ast.Attribute) and \
                    isinstance(n.func.value, ast.Name) and n.func.value.id in ("np", "numpy") \
                    and n.func.attr in ("array", "asarray") and len(n.args) == 1 \
                    and not n.keywords and isinstance(n.args[0], (ast.List, ast.BinOp)):
                return pylist(n.args[0])
            if isinstance(n, ast.Tuple):
                return "(" + ", ".join(arr(x, env) for x in n.elts) + ")"
            # copies: x.copy(), np.copy(x), np.array(x) of an array expression
            if isinstance(n, ast.Call) and isinstance(n.func, ast.Attribute) and \
                    n.func.attr == "copy" and not n.args and not n.keywords and \
                    not (isinstance(n.func.value, ast.Name) and n.func.value.id in ("np", "numpy")):
                return arr(n.func.value, env)
            if isinstance(n, ast.Call) and isinstance(n.func, ast.Attribute) and \
                    isinstance(n.func.value, ast.Name) and n.func.value.id in ("np", "numpy") \
                    and n.func.attr in ("copy", "array", "asarray") and len(n.args) == 1 and \
                    not n.keywords:
                return arr(n.args[0], env)
            if isinstance(n, ast.Call) and isinstance(n.func, ast.Attribute) and \
                    isinstance(n.func.value, ast.Name) and n.func.value.id in ("np", "numpy") \
                    and n.func.attr == "concatenate" and len(n.args) == 1 and not n.keywords \
                    and isinstance(n.args[0], (ast.Tuple, ast.List)) and n.args[0].elts:
                parts = []
                for x in n.args[0].elts:
                    try:
                        parts.append(pylist(x))
                    except TranslateError:
                        parts.append(arr(x, env))
                t = parts[0]
                for q in parts[1:]:
                    t = "(%s ++ %s)" % (t, q)
                return t
            raise TranslateError("%s: array expression %s (line %d)" % (
                name, ast.unparse(n)[:50], getattr(n, "lineno", 0)))

        def static(test):
            """value of a test on `direction`, decided at translation time"""
            if isinstance(test, ast.Compare) and len(test.ops) == 1 and \
                    isinstance(test.left, ast.Name) and test.left.id == "direction" and \
                    isinstance(test.comparators[0], ast.Constant):
                v = test.comparators[0].value
                d = None if direction == "<none>" else direction
                if isinstance(test.ops[0], ast.Eq):
                    return d == v
                if isinstance(test.ops[0], ast.NotEq):
                    return d != v
                if isinstance(test.ops[0], ast.Is):
                    return d is v
                if isinstance(test.ops[0], ast.IsNot):
                    return d is not v
            return None

        def walk(stmts, env):
            stmts = flatten_with(stmts)
            if not stmts:
                raise TranslateError("%s can fall off its end" % name)
            st, rest = stmts[0], stmts[1:]
            if isinstance(st, ast.Expr) and (isinstance(st.value, ast.Constant)
                                             or is_log_call(st.value)):
                return walk(rest, env)
            if isinstance(st, ast.Return) and st.value is not None:
                return arr(st.value, env)
            if isinstance(st, ast.Assign) and len(st.targets) == 1:
                tg = st.targets[0]
                env2 = dict(env)
                if isinstance(tg, ast.Name):
                    nm = self.newname(tg.id)
                    env2[tg.id] = nm
                    return "let %s := %s in\n  %s" % (nm, arr(st.value, env), walk(rest, env2))
                if isinstance(tg, ast.Tuple) and all(isinstance(x, ast.Name) for x in tg.elts) \
                        and isinstance(st.value, ast.Tuple) and \
                        len(st.value.elts) == len(tg.elts):
                    out = []
                    for x, v in zip(tg.elts, st.value.elts):
                        nm = self.newname(x.id)
                        out.append("let %s := %s in" % (nm, arr(v, env)))
                        env2[x.id] = nm
                    return "\n  ".join(out) + "\n  " + walk(rest, env2)
            if isinstance(st, ast.If):
                sv = static(st.test)
                if sv is not None:
                    return walk((list(st.body) if sv else list(st.orelse)) + rest, env)
                if isinstance(st.test, ast.Name) and st.test.id == "endpoints":
                    return "if endpoints\n  then (%s)\n  else (%s)" % (
                        walk(list(st.body) + rest, dict(env)),
                        walk(list(st.orelse) + rest, dict(env)))
            raise TranslateError("%s: statement outside the getter subset: %s (line %d)" % (
                name, ast.unparse(st).splitlines()[0][:60], st.lineno))
        body = walk(list(fn.body), env)
        cn = coq_name or self.an(name)
        self.spans[cn] = (fn.lineno, fn.end_lineno, pyrx._sha(ast.unparse(fn)))
        defaults = {a.arg: d for a, d in zip(fn.args.args[::-1], fn.args.defaults[::-1])}
        for q in ps:
            want = {"endpoints": False, "direction": None}[q]
            d = defaults.get(q)
            if not (isinstance(d, ast.Constant) and d.value is want):
                raise TranslateError("%s: default of %s is not %r" % (name, q, want))
        return "Definition %s (e : %senv) (c : cache %sst) (endpoints : bool) :=\n  %s." % (
            cn, self.prefix, self.prefix, body)

    # ---- cache-managing methods ---------------------------------------------------
    def _self_attr(self, node):
        if isinstance(node, ast.Attribute) and isinstance(node.value, ast.Name) and \
                node.value.id == "self":
            return node.attr
        return None

    def _is_self_call(self, node, name):
        return (isinstance(node, ast.Call) and self._self_attr(node.func) == name
                and not node.keywords)

    def op_method(self, name, coq_name=None, super_init=None, xmode=False):
        """Translate a cache-managing method into a transformer of `cache <st>`.
        xmode: with the error exits (assertions, guards, raising callees) in program order;
        the result is (object state at return or at the raise, completed?)."""
        self.xmode = xmode
        self.cur_bools = []
        fn = self.fn.get(name)
        if fn is None:
            raise TranslateError("method %s not found" % name)
        if fn.args.vararg or fn.args.kwarg or fn.args.kwonlyargs:
            raise TranslateError("%s: unsupported signature" % name)
        params = [a.arg for a in fn.args.args if a.arg != "self"]
        env = pyrx.Env()
        for p in params:
            env.v[p] = p
        notes = []
        self.svar = "(params c)"
        try:
            body = self._op_block(list(fn.body), env, name, notes, super_init)
        finally:
            self.svar = "s"
        used = [p for p in params if pyrx._mentions_word(body, p)]
        cn = coq_name or (self.an(name) + ("_x" if xmode else ""))
        bools = list(self.cur_bools)
        if xmode:
            self.xops[name] = (cn, used, bools)
        else:
            self.ops[name] = used
        self.xmode = False
        self.spans[cn] = (fn.lineno, fn.end_lineno, pyrx._sha(ast.unparse(fn)))
        self.op_notes = getattr(self, "op_notes", {})
        self.op_notes[name] = notes
        return "Definition %s (e : %senv) (c : cache %sst) %s%s: cache %sst%s :=\n  %s." % (
            cn, self.prefix, self.prefix,
            "".join("(%s : R) " % p for p in used),
            "".join("(%s : bool) " % b for b in bools) if xmode else "", self.prefix,
            " * bool" if xmode else "", body)

    def _upd(self, fun):
        return "let c := upd_params (fun s => %s) c in" % fun

    def _bool(self, node, env):
        """Coq bool for a python condition (comparisons of reals, and/or/not, bool locals)"""
        if isinstance(node, ast.Name) and (node.id, "bool") in env.v:
            return env.v[(node.id, "bool")]
        if isinstance(node, ast.BoolOp):
            parts = [self._bool(v, env) for v in node.values]
            f = "andb" if isinstance(node.op, ast.And) else "orb"
            t = parts[0]
            for q in parts[1:]:
                t = "(%s %s %s)" % (f, t, q)
            return t
        if isinstance(node, ast.UnaryOp) and isinstance(node.op, ast.Not):
            return "(negb %s)" % self._bool(node.operand, env)
        if isinstance(node, ast.Compare):
            if len(node.ops) == 1:
                return "(if %s then true else false)" % self.test(node, env)
            return self.test(node, env)
        raise TranslateError("condition %s (line %d)" % (ast.unparse(node)[:60], node.lineno))

    def _array(self, node, env):
        """list R for an expression over the cached arrays: self.<array>, array +-*/ scalar,
        scalar +* array (numpy broadcasting of a scalar)"""
        a = self._self_attr(node)
        if a is not None and a in PHYS + JAC + COMPACT:
            return "(%s c)" % a
        if isinstance(node, ast.BinOp):
            op = {ast.Add: "+", ast.Sub: "-", ast.Mult: "*", ast.Div: "/"}.get(type(node.op))
            if op is None:
                raise TranslateError("array operator (line %d)" % node.lineno)
            for arr, sc, left in ((node.left, node.right, True), (node.right, node.left, False)):
                try:
                    la = self._array(arr, env)
                except TranslateError:
                    continue
                k = self.expr(sc, env)
                if left:
                    return "(map (fun v : R => v %s %s) %s)" % (op, k, la)
                if op in "+*":
                    return "(map (fun v : R => %s %s v) %s)" % (k, op, la)
                if op == "-":
                    return "(map (fun v : R => %s - v) %s)" % (k, la)
        raise TranslateError("array expression %s (line %d)" % (ast.unparse(node)[:60],
                                                                getattr(node, "lineno", 0)))

    def _op_block(self, stmts, env, mname, notes, super_init):
        """Coq term of type cache for a statement list (falling off the end returns c)"""
        done = "(c, true)" if self.xmode else "c"
        stmts = flatten_with(stmts)
        if not stmts:
            return done
        st, rest = stmts[0], stmts[1:]
        if isinstance(st, ast.Return):
            if st.value is not None and not (isinstance(st.value, ast.Constant)
                                             and st.value.value is None):
                raise TranslateError("%s returns a value (line %d)" % (mname, st.lineno))
            return done
        if (isinstance(st, ast.Assert) or is_guard(st)) and only_nonreal(st.test):
            notes.append("%s (sizes / spacing keyword: an opaque bool in the versions with "
                         "error exits)" % ast.unparse(st.test))
            tail = self._op_block(rest, env, mname, notes, super_init)
            if not self.xmode:
                return tail
            # the VALUE of the test is not modelled, its POSITION is: what was stored before a
            # failing check stays stored
            bn = nonreal_name(st.test)
            if bn not in self.cur_bools:
                self.cur_bools.append(bn)
            return "if %s\n  then (%s)\n  else (c, false)" % (bn, tail)
        if isinstance(st, ast.Assert) or is_guard(st):
            self.asserts.append(ast.unparse(st.test))
            tail = self._op_block(rest, env, mname, notes, super_init)
            if not self.xmode:
                return tail
            cond = self._bool(st.test, env)
            if isinstance(st, ast.Assert):
                return "if %s\n  then (%s)\n  else (c, false)" % (cond, tail)
            return "if %s\n  then (c, false)\n  else (%s)" % (cond, tail)
        if self.xmode and isinstance(st, ast.Expr) and isinstance(st.value, ast.Call):
            v = st.value
            r = self.newname("r")
            if self._is_self_call(v, "_updateParameters"):
                args = " ".join(self.expr(x, env) for x in v.args)
                if len(v.args) != len(self.fn["_updateParameters"].args.args) - 1:
                    raise TranslateError("_updateParameters arity (line %d)" % st.lineno)
                return ("let %s := %s_x e (params c) %s in\n  "
                        "let c := upd_params (fun _ => fst %s) c in\n  "
                        "if snd %s\n  then (%s)\n  else (c, false)" % (
                            r, self.an("_updateParameters"), args, r, r,
                            self._op_block(rest, env, mname, notes, super_init)))
            f = v.func
            if (super_init is not None and len(super_init) > 3 and super_init[3]
                    and isinstance(f, ast.Attribute) and f.attr == "__init__"
                    and isinstance(f.value, ast.Call) and isinstance(f.value.func, ast.Name)
                    and f.value.func.id == "super" and not f.value.args and not v.keywords):
                base_fn, _, base_used, xname = super_init[:4]
                bparams = [a.arg for a in base_fn.args.args if a.arg != "self"]
                if len(v.args) != len(bparams):
                    raise TranslateError("super().__init__ arity (line %d)" % st.lineno)
                actual = dict(zip(bparams, v.args))
                args = " ".join([self.expr(actual[q], env) for q in base_used] + super_init[4])
                for b in super_init[4]:
                    if b not in self.cur_bools:
                        self.cur_bools.append(b)
                return ("let %s := %s e c %s in\n  let c := fst %s in\n  "
                        "if snd %s\n  then (%s)\n  else (c, false)" % (
                            r, xname, args, r, r,
                            self._op_block(rest, env, mname, notes, super_init)))
            m = self._self_attr(v.func)
            if m in self.xops and not v.keywords:
                cn, used, cb = self.xops[m]
                ps = [a.arg for a in self.fn[m].args.args if a.arg != "self"]
                if len(v.args) != len(ps):
                    raise TranslateError("%s arity (line %d)" % (m, st.lineno))
                actual = dict(zip(ps, v.args))
                args = " ".join([self.expr(actual[q], env) for q in used] + cb)
                for b in cb:
                    if b not in self.cur_bools:
                        self.cur_bools.append(b)
                return ("let %s := %s e c %s in\n  let c := fst %s in\n  "
                        "if snd %s\n  then (%s)\n  else (c, false)" % (
                            r, cn, args, r, r,
                            self._op_block(rest, env, mname, notes, super_init)))
            if m is not None and m in self.fn and self.may_raise(m):
                raise TranslateError("%s calls %s, which can raise, before its translation"
                                     % (mname, m))
        if isinstance(st, ast.If) and not (mname == "__init__" and any(
                self._self_attr(n) == "spacing" for n in ast.walk(st.test))):
            cond = self._bool(st.test, env)
            a = self._op_block(list(st.body) + rest, env.copy(), mname, notes, super_init)
            b = self._op_block(list(st.orelse) + rest, env.copy(), mname, notes, super_init)
            return "if %s\n  then (%s)\n  else (%s)" % (cond, a, b)
        if isinstance(st, ast.Assign) and len(st.targets) == 1 and \
                isinstance(st.targets[0], ast.Name):
            nm = self.newname(st.targets[0].id)
            env2 = env.copy()
            if isinstance(st.value, (ast.Compare, ast.BoolOp)) or (
                    isinstance(st.value, ast.UnaryOp) and isinstance(st.value.op, ast.Not)):
                val = self._bool(st.value, env)
                env2.v[(st.targets[0].id, "bool")] = nm
                env2.v.pop(st.targets[0].id, None)
            else:
                val = self.expr(st.value, env)
                env2.v[st.targets[0].id] = nm
                env2.v.pop((st.targets[0].id, "bool"), None)
            return "let %s := %s in\n  %s" % (nm, val, self._op_block(
                rest, env2, mname, notes, super_init))
        if isinstance(st, ast.Assign) and len(st.targets) == 1 and \
                self._self_attr(st.targets[0]) in PHYS + JAC:
            a = self._self_attr(st.targets[0])
            return "let c := set_%s %s c in\n  %s" % (a, self._array(st.value, env),
                                                     self._op_block(rest, env, mname, notes,
                                                                    super_init))
        lines = self._op_stmt(st, env, mname, notes, super_init)
        return "\n  ".join(lines + [self._op_block(rest, env, mname, notes, super_init)])

    def _op_stmt(self, st, env, mname, notes, super_init):
        px = self.prefix
        if isinstance(st, ast.Expr) and isinstance(st.value, ast.Constant) and \
                isinstance(st.value.value, str):
            return []
        if isinstance(st, ast.Expr) and is_log_call(st.value):
            return []
        if isinstance(st, ast.Pass):
            return []
        if isinstance(st, ast.Assign) and len(st.targets) == 1:
            tg = st.targets[0]
            a = self._self_attr(tg)
            if a is not None and a in self.attrs:
                return [self._upd("set_%s %s s" % (self.an(a), self.expr(st.value, env)))]
            if a is not None and a in NONREAL and isinstance(st.value, ast.Name) and \
                    st.value.id == a:
                notes.append("self.%s = %s (not a real number; not modelled)" % (a, a))
                return []
            # (self.xiValues, self.pzValues, self.ppValues) = self.<pointfn>(compact arrays)
            if isinstance(tg, ast.Tuple) and len(tg.elts) == 3:
                tgt = tuple(self._self_attr(x) for x in tg.elts)
                v = st.value
                if tgt in (PHYS, JAC) and isinstance(v, ast.Call) and not v.keywords and \
                        self._self_attr(v.func) in POINT_METHODS and \
                        tuple(self._self_attr(x) for x in v.args) == COMPACT:
                    f = self._self_attr(v.func)
                    setter = "set_phys" if tgt == PHYS else "set_jac"
                    return ["let c := %s (%s e (params c)) c in" % (setter, self.an(f))]
        if isinstance(st, ast.Expr) and isinstance(st.value, ast.Call):
            v = st.value
            for callee in ("_cacheCoordinates",):
                if self._is_self_call(v, callee) and not v.args:
                    if callee not in self.ops:
                        raise TranslateError("%s used before its translation" % callee)
                    return ["let c := %s e c in" % self.an(callee)]
            if self._is_self_call(v, "_updateParameters"):
                args = " ".join(self.expr(x, env) for x in v.args)
                fnu = self.fn["_updateParameters"]
                if len(v.args) != len(fnu.args.args) - 1:
                    raise TranslateError("_updateParameters arity (line %d)" % st.lineno)
                return [self._upd("%s e s %s" % (self.an("_updateParameters"), args))]
            # super().__init__(M, N, positionFalloff, momentumFalloffT, spacing)
            f = v.func
            if (super_init is not None and isinstance(f, ast.Attribute)
                    and f.attr == "__init__" and isinstance(f.value, ast.Call)
                    and isinstance(f.value.func, ast.Name)
                    and f.value.func.id == "super" and not f.value.args
                    and not v.keywords):
                base_fn, base_coq, base_used = super_init[:3]
                bparams = [a.arg for a in base_fn.args.args if a.arg != "self"]
                if len(v.args) != len(bparams):
                    raise TranslateError("super().__init__ arity (line %d)" % st.lineno)
                actual = dict(zip(bparams, v.args))
                args = " ".join(self.expr(actual[p], env) for p in base_used)
                return ["let c := %s e c %s in" % (base_coq, args)]
        if isinstance(st, ast.If) and mname == "__init__":
            # construction of the compact grids: may only store chiValues/rzValues/rpValues
            # (they are an input of the model: arbitrary lists)
            for n in ast.walk(st):
                if isinstance(n, ast.Attribute) and isinstance(n.ctx, ast.Store):
                    if self._self_attr(n) not in COMPACT:
                        raise TranslateError("__init__: the spacing block stores %s "
                                             "(line %d)" % (ast.unparse(n), n.lineno))
                if isinstance(n, ast.Call) and self._self_attr(n.func) is not None:
                    raise TranslateError("__init__: the spacing block calls %s (line %d)"
                                         % (ast.unparse(n.func), n.lineno))
                # the nodes may depend on the sizes only: a rescale never recomputes them, and
                # the theorems compare with a new grid over the SAME nodes
                if isinstance(n, ast.Attribute) and isinstance(n.ctx, ast.Load) and \
                        self._self_attr(n) is not None and \
                        self._self_attr(n) not in NONREAL:
                    raise TranslateError("__init__: the spacing block reads self.%s (line %d)"
                                         % (n.attr, n.lineno))
                if isinstance(n, ast.Name) and isinstance(n.ctx, ast.Load) and \
                        n.id in env.v and n.id not in NONREAL:
                    raise TranslateError("__init__: the spacing block reads %s (line %d)"
                                         % (n.id, n.lineno))
            notes.append("compact grids chiValues/rzValues/rpValues: given lists")
            return []
        raise TranslateError("%s: statement outside the cache-method subset: %s (line %d)"
                             % (mname, ast.unparse(st).splitlines()[0][:70], st.lineno))


KNOWN_METHODS = {
    "Grid": ["__init__", "_cacheCoordinates", "changeMomentumFalloffScale",
             "changePositionFalloffScale", "getCompactCoordinates", "getCoordinates",
             "getCompactificationDerivatives", "compactify", "decompactify",
             "compactificationDerivatives"],
    "Grid3Scales": ["__init__", "changePositionFalloffScale", "_updateParameters",
                    "decompactify", "compactificationDerivatives",
                    # may be overridden (translated through the method resolution):
                    "_cacheCoordinates", "changeMomentumFalloffScale", "getCompactCoordinates",
                    "getCoordinates", "getCompactificationDerivatives", "compactify"],
}
GETTERS = ["getCompactCoordinates", "getCoordinates", "getCompactificationDerivatives"]


def check_module(src, fname, classes):
    """Only imports, a docstring, the expected class(es) and plain-name constants may stand at
    module level (a rebinding such as `Grid3Scales.f = ...` after the class, or a second
    definition of a class, would make the class body differ from the running class)."""
    tree = ast.parse(src)
    seen = []
    for n in tree.body:
        if isinstance(n, (ast.Import, ast.ImportFrom)):
            continue
        if isinstance(n, ast.Expr) and isinstance(n.value, ast.Constant) and \
                isinstance(n.value.value, str):
            continue
        if isinstance(n, ast.ClassDef):
            if n.decorator_list or n.keywords:
                raise TranslateError("%s: class %s has decorators / keywords" % (fname, n.name))
            seen.append(n.name)
            continue
        if isinstance(n, ast.Assign) and all(isinstance(t, ast.Name) for t in n.targets) and \
                not any(isinstance(m, ast.Name) and m.id in classes for m in ast.walk(n.value)) \
                and not any(t.id in classes for t in n.targets):
            continue
        if isinstance(n, ast.FunctionDef) and not n.decorator_list and n.name not in classes \
                and not any(isinstance(m, ast.Name) and m.id in set(classes) | {"Grid"}
                            for m in ast.walk(n)):
            continue        # a helper that cannot touch the classes (calls to it are translated
            #                 or rejected where they occur)
        raise TranslateError("%s: module-level statement `%s` (line %d)" % (
            fname, ast.unparse(n).splitlines()[0][:60], n.lineno))
    for c in classes:
        if seen.count(c) != 1:
            raise TranslateError("%s: class %s defined %d times" % (fname, c, seen.count(c)))
    for c in seen:
        if c not in classes:
            raise TranslateError("%s: additional class %s" % (fname, c))


def class_fns(src, cls):
    tree = ast.parse(src)
    for n in tree.body:
        if isinstance(n, ast.ClassDef) and n.name == cls:
            fns = {}
            for f in n.body:
                if isinstance(f, ast.FunctionDef):
                    if f.name in fns:
                        raise TranslateError("%s.%s defined twice" % (cls, f.name))
                    fns[f.name] = f
            return n, fns
    raise TranslateError("class %s not found" % cls)


def check_methods(cls, fns, notes, clsnode=None):
    """Methods outside the allow-list: rejected when they can change the object (store to an
    attribute of self, setattr/delattr, __dict__, dunder methods, a call of a mutator also
    unbound or through super(), any write INTO one of the object's arrays through self, a
    getter result or a local alias), noted otherwise."""
    alias_writes = []
    if clsnode is not None:
        t = Taint(clsnode, lambda n: (isinstance(n, ast.Name) and n.id == "self")
                  or is_grid_expr(n))
        t.solve()
        alias_writes = t.writes()
    mutators = [m for m in KNOWN_METHODS[cls]
                if not m.startswith("get") and m not in POINT_METHODS]
    for nm, f in fns.items():
        if nm in KNOWN_METHODS[cls]:
            continue
        if nm.startswith("__") and nm.endswith("__"):
            raise TranslateError("%s defines the special method %s" % (cls, nm))
        for n in ast.walk(f):
            bad = None
            if isinstance(n, (ast.Attribute, ast.Subscript)) and \
                    isinstance(n.ctx, (ast.Store, ast.Del)):
                root = n
                while isinstance(root, (ast.Attribute, ast.Subscript)):
                    root = root.value
                if isinstance(root, ast.Name) and root.id == "self":
                    bad = ast.unparse(n)
            if isinstance(n, ast.Call) and isinstance(n.func, ast.Name) and \
                    n.func.id in ("setattr", "delattr", "vars"):
                bad = ast.unparse(n)[:40]
            if isinstance(n, ast.Attribute) and n.attr == "__dict__":
                bad = "__dict__"
            if isinstance(n, ast.Call) and self_attr_call(n) in mutators:
                bad = "call of self.%s" % self_attr_call(n)
            if isinstance(n, ast.Call) and isinstance(n.func, ast.Attribute) and \
                    n.func.attr in mutators and (
                        (isinstance(n.func.value, ast.Name) and
                         n.func.value.id in ("Grid", "Grid3Scales")) or
                        (isinstance(n.func.value, ast.Call) and
                         isinstance(n.func.value.func, ast.Name) and
                         n.func.value.func.id == "super")):
                bad = "call of %s" % ast.unparse(n.func)
            if bad:
                raise TranslateError("%s.%s is not a modelled method and changes the object "
                                     "(%s, line %d)" % (cls, nm, bad, n.lineno))
        for ln, txt in alias_writes:
            if f.lineno <= ln <= f.end_lineno:
                raise TranslateError("%s.%s is not a modelled method and writes into the "
                                     "object (%s, line %d)" % (cls, nm, txt, ln))
        notes.append("%s.%s: not modelled (no store to self)" % (cls, nm))


def self_attr_call(n):
    f = n.func
    if isinstance(f, ast.Attribute) and isinstance(f.value, ast.Name) and f.value.id == "self":
        return f.attr
    return ""


def generate(src_grid, src_g3):
    """Returns (coq text, info dict)."""
    check_module(src_grid, "grid.py", ["Grid"])
    check_module(src_g3, "grid3Scales.py", ["Grid3Scales"])
    gcls, gf = class_fns(src_grid, "Grid")
    g3cls, g3f = class_fns(src_g3, "Grid3Scales")
    bases = [ast.unparse(b) for b in g3cls.bases]
    if bases != ["Grid"]:
        raise TranslateError("Grid3Scales bases are %s" % bases)
    if gcls.bases:
        raise TranslateError("Grid has base classes")
    for cls in (gcls, g3cls):
        for n in cls.body:
            if not isinstance(n, ast.FunctionDef) and not (
                    isinstance(n, ast.Expr) and isinstance(n.value, ast.Constant)):
                raise TranslateError("class-level statement %s" % ast.unparse(n)[:40])
        for f in cls.body:
            if isinstance(f, ast.FunctionDef) and f.decorator_list:
                raise TranslateError("decorated method %s" % f.name)
    mnotes = []
    check_methods("Grid", gf, mnotes, gcls)
    check_methods("Grid3Scales", g3f, mnotes, g3cls)
    out = [pyrx.COQ_PRELUDE,
           "From Coq Require Import List.\nImport ListNotations.\n"
           "From WG Require Import Lib.GridMapsCache.",
           "(* generated from src/WallGo/grid.py and src/WallGo/grid3Scales.py *)"]
    info = dict(method_notes=mnotes)

    def translate_class(t, base_init=None):
        """common part: point functions are emitted by the caller; here the cache-managing
        methods (total versions and, for those that can raise, versions with error exits)
        and the getters"""
        res = []
        order = ["_cacheCoordinates", "changeMomentumFalloffScale",
                 "changePositionFalloffScale"]
        for m in order:
            res.append(t.op_method(m))
        return res

    # ---------------- Grid ----------------
    g = GridTranslator(dict(gf), G_ATTRS, "g_")
    g.ret_arity = {m: 3 for m in POINT_METHODS}
    out.append(g.header(extra_vars=[("g_unit", "unit")]))
    for m in POINT_METHODS:
        out.append(g.method(m))
    out += translate_class(g)
    out.append(g.op_method("__init__", coq_name="g_init"))
    for m in ["_cacheCoordinates", "changeMomentumFalloffScale", "changePositionFalloffScale",
              "__init__"]:
        if g.may_raise(m):
            out.append(g.op_method(m, coq_name="g_init_x" if m == "__init__" else None,
                                   xmode=True))
    for m in GETTERS:
        out.append(g.getter_method(m))
    for d in ("z", "pz", "pp"):
        out.append(g.getter_method("getCompactCoordinates",
                                   coq_name="g_getCompactCoordinates_" + d, direction=d))
    info["Grid"] = dict(spans=g.spans, asserts=list(g.asserts), ops=dict(g.ops),
                        xops={k: [v[0], v[2]] for k, v in g.xops.items()}, notes=g.op_notes)

    # ---------------- Grid3Scales (method resolution: own methods, then Grid's) ----
    fns = dict(gf)
    fns.update(g3f)
    t = GridTranslator(fns, G3_ATTRS, "g3_")
    t.ret_arity = {m: 3 for m in POINT_METHODS}
    out.append(t.header(extra_vars=[("g3_unit", "unit")]))
    out.append(t.method("_updateParameters"))
    out.append(t.precondition("_updateParameters"))
    out.append(t.raising_method("_updateParameters"))
    info["g3_update_asserts"] = list(t.asserts)
    out += t.closures_of("decompactify", ["term1", "term2", "term3", "term4", "term5",
                                          "totalMapping"])
    for m in POINT_METHODS:
        out.append(t.method(m))
    out += translate_class(t)
    for m in ["_cacheCoordinates", "changeMomentumFalloffScale", "changePositionFalloffScale"]:
        if t.may_raise(m):
            out.append(t.op_method(m, xmode=True))
    if "changePositionFalloffScale" not in t.xops:
        raise TranslateError("changePositionFalloffScale cannot raise: the assertions of "
                             "_updateParameters are not reached from it")
    # the base-class constructor, executed on a Grid3Scales object
    saved = t.fn["__init__"]
    t.fn["__init__"] = gf["__init__"]
    out.append(t.op_method("__init__", coq_name="g3_base_init"))
    base_used = t.ops["__init__"]
    base_x, base_bools = None, []
    if t.may_raise("__init__"):
        out.append(t.op_method("__init__", coq_name="g3_base_init_x", xmode=True))
        base_x = "g3_base_init_x"
        base_bools = t.xops.pop("__init__")[2]
    t.fn["__init__"] = saved
    sup = (gf["__init__"], "g3_base_init", base_used, base_x, base_bools)
    out.append(t.op_method("__init__", coq_name="g3_init", super_init=sup))
    out.append(t.op_method("__init__", coq_name="g3_init_x", xmode=True, super_init=sup))
    for m in GETTERS:
        out.append(t.getter_method(m))
    for d in ("z", "pz", "pp"):
        out.append(t.getter_method("getCompactCoordinates",
                                   coq_name="g3_getCompactCoordinates_" + d, direction=d))
    info["Grid3Scales"] = dict(spans=t.spans, asserts=list(t.asserts), ops=dict(t.ops),
                               xops={k: [v[0], v[2]] for k, v in t.xops.items()}, notes=t.op_notes,
                               inherited=sorted(set(gf) - set(g3f)))
    return "\n".join(out) + "\n", info


# ---------------------------------------------------------------------------------------
# facts about the rest of the package (tie F): who writes to a grid object, and with which
# arguments the two callers of the three-scale grid call it

PUBLIC_GRID_API = set(GETTERS + POINT_METHODS + ["changePositionFalloffScale",
                                                 "changeMomentumFalloffScale"])
INPLACE = {"sort", "fill", "resize", "put", "itemset", "setfield", "partition", "byteswap",
           "setflags", "clip"}
GRID_FILES = ("grid.py", "grid3Scales.py")


# ---------------------------------------------------------------------------------------
# alias-aware detection of in-place writes into a grid's arrays

GRID_ARRAYS = COMPACT + PHYS + JAC
VIEW_METHODS = {"view", "reshape", "ravel", "squeeze", "transpose", "swapaxes", "astype_view"}
VIEW_FUNCS = {"asarray", "asanyarray", "atleast_1d", "atleast_2d", "squeeze", "reshape", "ravel",
              "transpose", "swapaxes", "broadcast_to", "expand_dims", "moveaxis"}
UFUNC1 = {"negative", "abs", "absolute", "fabs", "sqrt", "exp", "log", "sin", "cos", "tan",
          "tanh", "cosh", "sinh", "arctanh", "square", "reciprocal", "sign", "floor", "ceil",
          "rint", "nan_to_num", "conjugate", "positive", "cumsum", "cumprod", "around", "round"}
UFUNC2 = {"add", "subtract", "multiply", "divide", "true_divide", "power", "maximum", "minimum",
          "mod", "fmod", "hypot", "arctan2", "fmax", "fmin", "floor_divide", "matmul", "dot"}
WRITE_FUNCS = {"copyto", "put", "place", "putmask", "fill_diagonal", "put_along_axis"}


class Taint:
    """Per function: which local names denote (views of) arrays of a grid object, or the grid
    object itself; which statements write through them.  `is_grid` says which expressions
    denote a grid object to start with (by name outside the grid classes, `self` inside)."""

    def __init__(self, tree, is_grid):
        self.tree = tree
        self.base_is_grid = is_grid
        self.funcs = [n for n in ast.walk(tree)
                      if isinstance(n, (ast.FunctionDef, ast.AsyncFunctionDef))]
        self.by_name = {}
        for f in self.funcs:
            self.by_name.setdefault(f.name, []).append(f)
        self.arr = {f: set() for f in self.funcs}      # names that are grid arrays / views
        self.obj = {f: set() for f in self.funcs}      # names that are grid objects
        self.module_arr, self.module_obj = set(), set()

    def is_grid(self, n, f):
        if self.base_is_grid(n):
            return True
        return isinstance(n, ast.Name) and n.id in (self.obj[f] if f else self.module_obj)

    def is_arr(self, n, f):
        names = self.arr[f] if f else self.module_arr
        if isinstance(n, ast.Name):
            return n.id in names
        if isinstance(n, ast.Attribute):
            if n.attr in GRID_ARRAYS and self.is_grid(n.value, f):
                return True
            if n.attr in ("T", "real", "flat"):
                return self.is_arr(n.value, f)
            return False
        if isinstance(n, ast.Subscript):
            return self.is_arr(n.value, f)
        if isinstance(n, ast.Starred):
            return self.is_arr(n.value, f)
        if isinstance(n, (ast.Tuple, ast.List)):
            return any(self.is_arr(x, f) for x in n.elts)
        if isinstance(n, ast.IfExp):
            return self.is_arr(n.body, f) or self.is_arr(n.orelse, f)
        if isinstance(n, ast.Call):
            fn = n.func
            if isinstance(fn, ast.Attribute):
                if fn.attr.startswith("get") and self.is_grid(fn.value, f):
                    return True                    # the getters hand out the cached arrays
                if fn.attr in VIEW_METHODS and self.is_arr(fn.value, f):
                    return True
                if isinstance(fn.value, ast.Name) and fn.value.id in ("np", "numpy") and \
                        fn.attr in VIEW_FUNCS and n.args and self.is_arr(n.args[0], f):
                    return True
        return False

    def bind(self, target, value, f):
        arr = self.arr[f] if f else self.module_arr
        obj = self.obj[f] if f else self.module_obj
        ch = False
        if isinstance(target, ast.Name):
            if self.is_arr(value, f) and target.id not in arr:
                arr.add(target.id)
                ch = True
            if self.is_grid(value, f) and target.id not in obj and \
                    not self.base_is_grid(target):
                obj.add(target.id)
                ch = True
        elif isinstance(target, (ast.Tuple, ast.List)):
            if isinstance(value, (ast.Tuple, ast.List)) and len(value.elts) == len(target.elts):
                for t, v in zip(target.elts, value.elts):
                    ch |= self.bind(t, v, f)
            elif self.is_arr(value, f):
                for t in target.elts:
                    t = t.value if isinstance(t, ast.Starred) else t
                    if isinstance(t, ast.Name) and t.id not in arr:
                        arr.add(t.id)
                        ch = True
        return ch

    def body_nodes(self, f):
        """nodes of f's own body (nested functions are analysed on their own, but see the
        enclosing function's names)"""
        out = []
        stack = list(f.body) if f else [n for n in self.tree.body]
        while stack:
            n = stack.pop()
            if isinstance(n, (ast.FunctionDef, ast.AsyncFunctionDef, ast.ClassDef)) and f:
                continue
            if isinstance(n, (ast.FunctionDef, ast.AsyncFunctionDef)) and not f:
                continue
            out.append(n)
            stack += list(ast.iter_child_nodes(n))
        return out

    def solve(self):
        changed, rounds = True, 0
        while changed and rounds < 8:
            changed, rounds = False, rounds + 1
            for f in [None] + self.funcs:
                for n in self.body_nodes(f):
                    if isinstance(n, ast.Assign):
                        for t in n.targets:
                            changed |= self.bind(t, n.value, f)
                    elif isinstance(n, ast.AnnAssign) and n.value is not None:
                        changed |= self.bind(n.target, n.value, f)
                    elif isinstance(n, ast.NamedExpr):
                        changed |= self.bind(n.target, n.value, f)
                    elif isinstance(n, (ast.For, ast.AsyncFor)):
                        if self.is_arr(n.iter, f):
                            changed |= self.bind(n.target, n.iter, f)
                    elif isinstance(n, ast.Call):
                        changed |= self.pass_args(n, f)
            # nested functions see the names of the enclosing one
            for f in self.funcs:
                for g in ast.walk(f):
                    if g is not f and g in self.arr:
                        for nm in self.arr[f] - self.arr[g]:
                            self.arr[g].add(nm)
                            changed = True
                        for nm in self.obj[f] - self.obj[g]:
                            self.obj[g].add(nm)
                            changed = True

    def pass_args(self, call, f):
        fn = call.func
        name = fn.attr if isinstance(fn, ast.Attribute) else fn.id if isinstance(fn, ast.Name) \
            else None
        ch = False
        for g in self.by_name.get(name, []):
            ps = [a.arg for a in g.args.posonlyargs + g.args.args]
            if ps and ps[0] in ("self", "cls") and isinstance(fn, ast.Attribute):
                ps = ps[1:]
            pairs = list(zip(ps, call.args)) + [(k.arg, k.value) for k in call.keywords
                                                if k.arg in ps]
            for pname, a in pairs:
                if isinstance(a, ast.Starred):
                    continue
                if self.is_arr(a, f) and pname not in self.arr[g]:
                    self.arr[g].add(pname)
                    ch = True
                if self.is_grid(a, f) and pname not in self.obj[g] and \
                        not self.base_is_grid(ast.Name(id=pname)):
                    self.obj[g].add(pname)
                    ch = True
        return ch

    def writes(self):
        """[(line, text)] of statements that write through a grid array / to a grid object"""
        out = []
        for f in [None] + self.funcs:
            for n in self.body_nodes(f):
                tgts = []
                if isinstance(n, ast.Assign):
                    tgts = list(n.targets)
                elif isinstance(n, ast.AugAssign):
                    if self.is_arr(n.target, f):
                        out.append((n.lineno, ast.unparse(n)[:70]))
                    tgts = [n.target]
                elif isinstance(n, ast.AnnAssign):
                    tgts = [n.target]
                elif isinstance(n, ast.Delete):
                    tgts = list(n.targets)
                elif isinstance(n, (ast.For, ast.AsyncFor)):
                    tgts = [n.target]
                while tgts:
                    t = tgts.pop()
                    if isinstance(t, (ast.Tuple, ast.List)):
                        tgts += list(t.elts)
                        continue
                    if isinstance(t, ast.Starred):
                        tgts.append(t.value)
                        continue
                    if isinstance(t, ast.Subscript):
                        if self.is_arr(t.value, f):
                            out.append((t.lineno, ast.unparse(t)[:70] + " = ..."))
                        while isinstance(t, ast.Subscript):
                            t = t.value
                    if isinstance(t, ast.Attribute) and self.is_grid(t.value, f):
                        out.append((t.lineno, ast.unparse(t) + " = ..."))
                    if isinstance(t, ast.Attribute) and t.attr in ("flat", "real", "T") and \
                            self.is_arr(t.value, f):
                        out.append((t.lineno, ast.unparse(t) + " = ..."))
                if isinstance(n, ast.Call):
                    fn = n.func
                    txt = ast.unparse(n)[:70]
                    if isinstance(fn, ast.Name) and fn.id in ("setattr", "delattr") and n.args \
                            and self.is_grid(n.args[0], f):
                        out.append((n.lineno, txt))
                    if isinstance(fn, ast.Attribute):
                        if self.is_grid(fn.value, f) and fn.attr.startswith("_"):
                            out.append((n.lineno, txt))
                        if fn.attr in INPLACE | {"__setitem__", "__iadd__", "__imul__"} and \
                                self.is_arr(fn.value, f):
                            out.append((n.lineno, txt))
                        if isinstance(fn.value, ast.Name) and fn.value.id in ("np", "numpy"):
                            k = 1 if fn.attr in UFUNC1 else 2 if fn.attr in UFUNC2 else \
                                3 if fn.attr == "clip" else None
                            if k is not None and len(n.args) > k and self.is_arr(n.args[k], f):
                                out.append((n.lineno, txt))
                            if fn.attr in WRITE_FUNCS and n.args and self.is_arr(n.args[0], f):
                                out.append((n.lineno, txt))
                    for kw in n.keywords:
                        if kw.arg == "out" and self.is_arr(kw.value, f):
                            out.append((n.lineno, txt))
                if isinstance(n, ast.Attribute) and n.attr == "__dict__" and \
                        self.is_grid(n.value, f):
                    out.append((n.lineno, ast.unparse(n)))
        return sorted(set(out))


def is_grid_expr(n):
    """expression that (by its name) denotes a Grid object or one of the two classes: grid,
    self.grid, dummyGrid, Grid, Grid3Scales, ..."""
    if isinstance(n, ast.Name):
        ident = n.id
    elif isinstance(n, ast.Attribute):
        ident = n.attr
    else:
        return False
    if ident in ("Grid", "Grid3Scales"):
        return True
    low = ident.lower()
    return low.endswith("grid") and not low.startswith("config")


def foreign_grid_writes(sources):
    """[(file, line, text)]: every place outside grid.py / grid3Scales.py that writes to a grid
    object or INTO one of its arrays: stores / deletions of attributes (also of the classes
    Grid, Grid3Scales), element stores, augmented assignments, `out=` (keyword or positional),
    np.copyto/put/place, in-place array methods, setattr, private-method calls -- through the
    object, through a local alias of it or of an array (attribute, getter result, view, tuple
    unpacking), or through a parameter of a same-file function that receives one."""
    out = []
    for fname in sorted(sources):
        if fname in GRID_FILES:
            continue
        t = Taint(ast.parse(sources[fname]), is_grid_expr)
        t.solve()
        out += [(fname, ln, txt) for ln, txt in t.writes()]
    return out


def call_site(src, cls, method, callee, externals, opaque_ok, result_names, prefix):
    """The arguments with which `method` of `cls` calls `callee` (an ast pattern predicate on
    the call), as a Coq function of the externals (Pattern list), the method parameters and
    the locals named in `opaque_ok` (quantities computed from arrays / configuration that the
    model does not look into).  The method must be a straight line of local assignments
    (plus docstrings, logging, guards on untranslated quantities) followed by exactly one
    statement containing the call; the grid may not be touched otherwise."""
    tr = pyrx.ClassTranslator(src, cls, [], externals, [], state=False, prefix=prefix)
    fn = tr.fn.get(method)
    if fn is None:
        raise TranslateError("%s.%s not found" % (cls, method))
    env = pyrx.Env()
    params = [a.arg for a in fn.args.args if a.arg != "self"]
    for p_ in params:
        env.v[p_] = p_
    lets, opaque, call = [], [], None
    body = list(fn.body)
    for i, st in enumerate(body):
        if isinstance(st, ast.Expr) and isinstance(st.value, ast.Constant):
            continue
        if isinstance(st, ast.Expr) and is_log_call(st.value):
            continue
        calls = [n for n in ast.walk(st) if isinstance(n, ast.Call) and callee(n)]
        if calls:
            if len(calls) != 1 or i != len(body) - 1 or not (
                    (isinstance(st, ast.Expr) and st.value is calls[0]) or
                    (isinstance(st, ast.Return) and st.value is calls[0])):
                raise TranslateError("%s.%s: the call of the grid is not the single last "
                                     "statement (line %d)" % (cls, method, st.lineno))
            call = calls[0]
            continue
        if isinstance(st, ast.Assert) or is_guard(st):
            # an assertion / guard before the call only restricts when the call happens
            continue
        if isinstance(st, ast.Assign) and len(st.targets) == 1 and \
                isinstance(st.targets[0], ast.Name):
            nm = st.targets[0].id
            for n in ast.walk(st.value):
                if isinstance(n, ast.Attribute) and is_grid_expr(n.value) and \
                        isinstance(getattr(n, "ctx", None), ast.Load) and \
                        n.attr not in ("smoothing", "ratioPointsWall"):
                    raise TranslateError("%s.%s reads grid.%s (line %d)" % (
                        cls, method, n.attr, n.lineno))
            try:
                val = tr.expr(st.value, env)
            except TranslateError:
                if nm not in opaque_ok:
                    raise
                opaque.append(nm)
                env.v[nm] = nm
                continue
            lets.append("let %s := %s in" % (nm, val))
            env.v[nm] = nm
            continue
        raise TranslateError("%s.%s: statement outside the call-site subset: %s (line %d)" % (
            cls, method, ast.unparse(st).splitlines()[0][:60], st.lineno))
    if call is None:
        raise TranslateError("%s.%s does not call the grid" % (cls, method))
    if call.keywords:
        raise TranslateError("%s.%s: keyword arguments in the grid call" % (cls, method))
    if len(call.args) != len(result_names):
        raise TranslateError("%s.%s passes %d arguments, expected %d" % (
            cls, method, len(call.args), len(result_names)))
    args = [tr.expr(a, env) for a in call.args]
    text = "\n  ".join(lets + ["(" + ", ".join(args) + ")"])
    ext = []
    for p_ in tr.externals:
        if p_ in tr.used_ext and p_.coq not in ext:
            ext.append(p_.coq)
    used = [q for q in params + opaque if pyrx._mentions_word(text, q)]
    rec = "Record %senv := mk_%senv { %s }." % (
        prefix, prefix, "; ".join("%s : R" % x for x in ext) or "%sunit : unit" % prefix)
    return (rec + "\nDefinition %sargs (e : %senv) %s:=\n  %s." % (
        prefix, prefix, "".join("(%s : R) " % q for q in used), text)), used, ext


def generate_facts(sources):
    """Coq text (appended to the generated module) + info"""
    out = ["(* facts extracted from the rest of src/WallGo *)"]
    w = foreign_grid_writes(sources)
    out.append("(* places outside grid.py / grid3Scales.py that write to a grid object:%s *)" % (
        "".join("\n   %s:%d  %s" % x for x in w) or " none"))
    out.append("Definition foreign_grid_writes : nat := %d." % len(w))
    P = pyrx.Pattern

    def is_change(n):
        return isinstance(n.func, ast.Attribute) and \
            n.func.attr == "changePositionFalloffScale" and is_grid_expr(n.func.value)

    def is_ctor(n):
        return isinstance(n.func, ast.Name) and n.func.id == "Grid3Scales"
    t1, used1, ext1 = call_site(
        sources["equationOfMotion.py"], "EOM", "_updateGrid", is_change,
        [P("self.meanFreePathScale", "eom_meanFreePathScale", "R"),
         P("self.includeOffEq", "eom_includeOffEq", "R"),
         P("self.grid.smoothing", "eom_smoothing", "R"),
         P("self.grid.ratioPointsWall", "eom_ratioPointsWall", "R")],
        ["widths", "offsets", "wallThicknessGrid", "wallCenterGrid"],
        ["tailLengthInside", "tailLengthOutside", "wallThickness", "wallCenter"], "eom_")
    out.append(t1)
    t2, used2, ext2 = call_site(
        sources["manager.py"], "WallGoManager", "buildGrid", is_ctor, [],
        ["gridN", "gridM", "ratioPointsWall", "smoothing", "Tnucl"],
        ["M", "N", "tailLengthInside", "tailLengthOutside", "wallThickness",
         "momentumFalloffT", "ratioPointsWall", "smoothing"], "mgr_")
    out.append(t2)
    return "\n".join(out) + "\n", dict(foreign_grid_writes=w, eom_args=used1, eom_ext=ext1,
                                        mgr_args=used2)


if __name__ == "__main__":
    import sys
    import vlib
    import glob
    import os
    txt, inf = generate(vlib.read_src("grid.py"), vlib.read_src("grid3Scales.py"))
    sys.stdout.write(txt)
    srcs = {os.path.basename(f): open(f).read() for f in glob.glob(vlib.src_path("*.py"))}
    txt, inf = generate_facts(srcs)
    sys.stdout.write(txt)
