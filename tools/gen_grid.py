"""Generated model of WallGo.Grid and WallGo.Grid3Scales (coordinate maps + rescaling ops).

Two layers, both fail-closed (anything outside the subset raises pyrx.TranslateError):

 * the numeric methods (compactify / decompactify / compactificationDerivatives, the nested
   closures term1..term5 / totalMapping, _updateParameters as a state transformer) go through
   pyrx in state mode; this module only adds the numpy idioms of these two files
   (`np.arctanh(u + 0j).real` -> atanh_R u, calls between nested closures);
 * the methods that manage the cached arrays (__init__, _cacheCoordinates,
   changePositionFalloffScale, changeMomentumFalloffScale) are translated statement by
   statement into transformers of `cache P` (Lib/GridMapsCache.v): parameters P (the pyrx state
   record) + the three compact arrays + the six cached arrays.  Arrays are lists; calling a
   translated point function on the three arrays is the component-wise map (justified by the
   separability lemmas proved in Props/C17.v about the generated functions).

Grid3Scales is translated with Python's method resolution: methods it does not define are
taken from Grid (so the inherited compactify / changeMomentumFalloffScale / _cacheCoordinates
are part of the three-scale model, dispatching to the overriding decompactify).
"""
from __future__ import annotations

import ast

import pyrx
from pyrx import TranslateError

G_ATTRS = ["positionFalloff", "momentumFalloffT"]
G3_ATTRS = ["tailLengthInside", "tailLengthOutside", "wallThickness", "ratioPointsWall",
            "smoothing", "wallCenter", "aIn", "aOut", "positionFalloff", "momentumFalloffT"]
POINT_METHODS = ["compactify", "decompactify", "compactificationDerivatives"]
COMPACT = ("chiValues", "rzValues", "rpValues")
PHYS = ("xiValues", "pzValues", "ppValues")
JAC = ("dxidchi", "dpzdrz", "dppdrp")
# attributes that are not real numbers and not modelled (sizes / spacing keyword)
NONREAL = ("M", "N", "spacing")


class GridTranslator(pyrx.ClassTranslator):
    """pyrx + the idioms of grid.py / grid3Scales.py."""

    def __init__(self, fns, attrs, prefix):
        # build the translator on a dummy class and install the resolved method table
        super().__init__("class K:\n    pass\n", "K", attrs, [], [], state=True,
                         prefix=prefix)
        self.fn = fns
        self.known_closures = {}
        self.ops = {}            # op-method name -> list of its R parameters (Coq order)

    # np.arctanh(u + 0j).real  ->  atanh_R u
    def expr(self, node, env):
        if isinstance(node, ast.Attribute) and node.attr == "real":
            v = node.value
            if (isinstance(v, ast.Call) and isinstance(v.func, ast.Attribute)
                    and isinstance(v.func.value, ast.Name) and v.func.value.id == "np"
                    and v.func.attr == "arctanh" and len(v.args) == 1 and not v.keywords
                    and isinstance(v.args[0], ast.BinOp)
                    and isinstance(v.args[0].op, ast.Add)
                    and isinstance(v.args[0].right, ast.Constant)
                    and v.args[0].right.value == 0j
                    and isinstance(v.args[0].right.value, complex)):
                return "(atanh_R %s)" % self.expr(v.args[0].left, env)
            raise TranslateError(".real of %s (line %d)" % (ast.unparse(v)[:50],
                                                            node.lineno))
        if isinstance(node, ast.Constant) and isinstance(node.value, complex):
            raise TranslateError("complex literal (line %d)" % node.lineno)
        return super().expr(node, env)

    # nested closures calling earlier nested closures
    def block(self, stmts, env, k):
        if stmts and isinstance(stmts[0], ast.FunctionDef) and \
                stmts[0].name in self.known_closures:
            env2 = env.copy()
            env2.v[(stmts[0].name, "closure")] = self.known_closures[stmts[0].name]
            return self.block(stmts[1:], env2, k)
        return super().block(stmts, env, k)

    def closures_of(self, method, names):
        """Definitions for the nested closures `names` of `method`, in order; each may
        call the previous ones."""
        out = []
        for nm in names:
            coq = self.an(nm)
            text, used = self.closure(method, nm, coq)
            fn = self.fn[method]
            mparams = [a.arg for a in fn.args.args if a.arg != "self"]
            if any(u in mparams for u in used):
                raise TranslateError("closure %s captures a parameter of %s" % (nm, method))
            self.known_closures[nm] = "%s e s" % coq
            out.append(text)
        return out

    # ---- asserted preconditions as a Prop -------------------------------------------
    def prop(self, node, env):
        if isinstance(node, ast.Compare):
            parts = []
            left = node.left
            for op, right in zip(node.ops, node.comparators):
                sym = {ast.Lt: "<", ast.Gt: ">", ast.LtE: "<=", ast.GtE: ">="}.get(type(op))
                if sym is None:
                    raise TranslateError("assert comparison %s" % ast.unparse(node))
                parts.append("%s %s %s" % (self.expr(left, env), sym, self.expr(right, env)))
                left = right
            return " /\\ ".join(parts)
        if isinstance(node, ast.BoolOp) and isinstance(node.op, ast.And):
            return " /\\ ".join("(%s)" % self.prop(v, env) for v in node.values)
        raise TranslateError("assert test %s" % ast.unparse(node)[:60])

    def precondition(self, name):
        """Prop: conjunction of the top-level assert statements of method `name`, as a
        predicate of its parameters (asserts reading self.* are rejected)."""
        fn = self.fn[name]
        params = [a.arg for a in fn.args.args if a.arg != "self"]
        env = pyrx.Env()
        for p in params:
            env.v[p] = p
        props = []
        for st in fn.body:
            if isinstance(st, ast.Assert):
                for n in ast.walk(st.test):
                    if isinstance(n, ast.Attribute):
                        raise TranslateError("assert reads %s" % ast.unparse(n))
                props.append(self.prop(st.test, env))
        if not props:
            raise TranslateError("%s has no assertions" % name)
        return "Definition %s_pre %s: Prop :=\n  %s." % (
            self.an(name), "".join("(%s : R) " % p for p in params),
            " /\\\n  ".join("(%s)" % p for p in props))

    # ---- cache-managing methods ---------------------------------------------------
    def _self_attr(self, node):
        if isinstance(node, ast.Attribute) and isinstance(node.value, ast.Name) and \
                node.value.id == "self":
            return node.attr
        return None

    def _is_self_call(self, node, name):
        return (isinstance(node, ast.Call) and self._self_attr(node.func) == name
                and not node.keywords)

    def op_method(self, name, coq_name=None, super_init=None):
        """Translate a cache-managing method into a transformer of `cache <st>`."""
        fn = self.fn.get(name)
        if fn is None:
            raise TranslateError("method %s not found" % name)
        if fn.args.vararg or fn.args.kwarg or fn.args.kwonlyargs:
            raise TranslateError("%s: unsupported signature" % name)
        params = [a.arg for a in fn.args.args if a.arg != "self"]
        env = pyrx.Env()
        for p in params:
            env.v[p] = p
        notes = []
        self.svar = "(params c)"
        try:
            body = self._op_block(list(fn.body), env, name, notes, super_init)
        finally:
            self.svar = "s"
        used = [p for p in params if pyrx._mentions_word(body, p)]
        cn = coq_name or self.an(name)
        self.ops[name] = used
        self.spans[cn] = (fn.lineno, fn.end_lineno, pyrx._sha(ast.unparse(fn)))
        self.op_notes = getattr(self, "op_notes", {})
        self.op_notes[name] = notes
        return "Definition %s (e : %senv) (c : cache %sst) %s: cache %sst :=\n  %s." % (
            cn, self.prefix, self.prefix,
            "".join("(%s : R) " % p for p in used), self.prefix, body)

    def _upd(self, fun):
        return "let c := upd_params (fun s => %s) c in" % fun

    def _bool(self, node, env):
        """Coq bool for a python condition (comparisons of reals, and/or/not, bool locals)"""
        if isinstance(node, ast.Name) and (node.id, "bool") in env.v:
            return env.v[(node.id, "bool")]
        if isinstance(node, ast.BoolOp):
            parts = [self._bool(v, env) for v in node.values]
            f = "andb" if isinstance(node.op, ast.And) else "orb"
            t = parts[0]
            for q in parts[1:]:
                t = "(%s %s %s)" % (f, t, q)
            return t
        if isinstance(node, ast.UnaryOp) and isinstance(node.op, ast.Not):
            return "(negb %s)" % self._bool(node.operand, env)
        if isinstance(node, ast.Compare):
            if len(node.ops) == 1:
                return "(if %s then true else false)" % self.test(node, env)
            return self.test(node, env)
        raise TranslateError("condition %s (line %d)" % (ast.unparse(node)[:60], node.lineno))

    def _array(self, node, env):
        """list R for an expression over the cached arrays: self.<array>, array +-*/ scalar,
        scalar +* array (numpy broadcasting of a scalar)"""
        a = self._self_attr(node)
        if a is not None and a in PHYS + JAC + COMPACT:
            return "(%s c)" % a
        if isinstance(node, ast.BinOp):
            op = {ast.Add: "+", ast.Sub: "-", ast.Mult: "*", ast.Div: "/"}.get(type(node.op))
            if op is None:
                raise TranslateError("array operator (line %d)" % node.lineno)
            for arr, sc, left in ((node.left, node.right, True), (node.right, node.left, False)):
                try:
                    la = self._array(arr, env)
                except TranslateError:
                    continue
                k = self.expr(sc, env)
                if left:
                    return "(map (fun v : R => v %s %s) %s)" % (op, k, la)
                if op in "+*":
                    return "(map (fun v : R => %s %s v) %s)" % (k, op, la)
                if op == "-":
                    return "(map (fun v : R => %s - v) %s)" % (k, la)
        raise TranslateError("array expression %s (line %d)" % (ast.unparse(node)[:60],
                                                                getattr(node, "lineno", 0)))

    def _op_block(self, stmts, env, mname, notes, super_init):
        """Coq term of type cache for a statement list (falling off the end returns c)"""
        if not stmts:
            return "c"
        st, rest = stmts[0], stmts[1:]
        if isinstance(st, ast.Return):
            if st.value is not None and not (isinstance(st.value, ast.Constant)
                                             and st.value.value is None):
                raise TranslateError("%s returns a value (line %d)" % (mname, st.lineno))
            return "c"
        if isinstance(st, ast.If) and not (mname == "__init__" and any(
                self._self_attr(n) == "spacing" for n in ast.walk(st.test))):
            cond = self._bool(st.test, env)
            a = self._op_block(list(st.body) + rest, env.copy(), mname, notes, super_init)
            b = self._op_block(list(st.orelse) + rest, env.copy(), mname, notes, super_init)
            return "if %s\n  then (%s)\n  else (%s)" % (cond, a, b)
        if isinstance(st, ast.Assign) and len(st.targets) == 1 and \
                isinstance(st.targets[0], ast.Name):
            nm = self.newname(st.targets[0].id)
            env2 = env.copy()
            if isinstance(st.value, (ast.Compare, ast.BoolOp)) or (
                    isinstance(st.value, ast.UnaryOp) and isinstance(st.value.op, ast.Not)):
                val = self._bool(st.value, env)
                env2.v[(st.targets[0].id, "bool")] = nm
                env2.v.pop(st.targets[0].id, None)
            else:
                val = self.expr(st.value, env)
                env2.v[st.targets[0].id] = nm
                env2.v.pop((st.targets[0].id, "bool"), None)
            return "let %s := %s in\n  %s" % (nm, val, self._op_block(
                rest, env2, mname, notes, super_init))
        if isinstance(st, ast.Assign) and len(st.targets) == 1 and \
                self._self_attr(st.targets[0]) in PHYS + JAC:
            a = self._self_attr(st.targets[0])
            return "let c := set_%s %s c in\n  %s" % (a, self._array(st.value, env),
                                                     self._op_block(rest, env, mname, notes,
                                                                    super_init))
        lines = self._op_stmt(st, env, mname, notes, super_init)
        return "\n  ".join(lines + [self._op_block(rest, env, mname, notes, super_init)])

    def _op_stmt(self, st, env, mname, notes, super_init):
        px = self.prefix
        if isinstance(st, ast.Expr) and isinstance(st.value, ast.Constant) and \
                isinstance(st.value.value, str):
            return []
        if isinstance(st, ast.Assert):
            self.asserts.append(ast.unparse(st.test))
            return []
        if isinstance(st, ast.Assign) and len(st.targets) == 1:
            tg = st.targets[0]
            a = self._self_attr(tg)
            if a is not None and a in self.attrs:
                return [self._upd("set_%s %s s" % (self.an(a), self.expr(st.value, env)))]
            if a is not None and a in NONREAL and isinstance(st.value, ast.Name) and \
                    st.value.id == a:
                notes.append("self.%s = %s (not a real number; not modelled)" % (a, a))
                return []
            # (self.xiValues, self.pzValues, self.ppValues) = self.<pointfn>(compact arrays)
            if isinstance(tg, ast.Tuple) and len(tg.elts) == 3:
                tgt = tuple(self._self_attr(x) for x in tg.elts)
                v = st.value
                if tgt in (PHYS, JAC) and isinstance(v, ast.Call) and not v.keywords and \
                        self._self_attr(v.func) in POINT_METHODS and \
                        tuple(self._self_attr(x) for x in v.args) == COMPACT:
                    f = self._self_attr(v.func)
                    setter = "set_phys" if tgt == PHYS else "set_jac"
                    return ["let c := %s (%s e (params c)) c in" % (setter, self.an(f))]
        if isinstance(st, ast.Expr) and isinstance(st.value, ast.Call):
            v = st.value
            for callee in ("_cacheCoordinates",):
                if self._is_self_call(v, callee) and not v.args:
                    if callee not in self.ops:
                        raise TranslateError("%s used before its translation" % callee)
                    return ["let c := %s e c in" % self.an(callee)]
            if self._is_self_call(v, "_updateParameters"):
                args = " ".join(self.expr(x, env) for x in v.args)
                fnu = self.fn["_updateParameters"]
                if len(v.args) != len(fnu.args.args) - 1:
                    raise TranslateError("_updateParameters arity (line %d)" % st.lineno)
                return [self._upd("%s e s %s" % (self.an("_updateParameters"), args))]
            # super().__init__(M, N, positionFalloff, momentumFalloffT, spacing)
            f = v.func
            if (super_init is not None and isinstance(f, ast.Attribute)
                    and f.attr == "__init__" and isinstance(f.value, ast.Call)
                    and isinstance(f.value.func, ast.Name)
                    and f.value.func.id == "super" and not f.value.args
                    and not v.keywords):
                base_fn, base_coq, base_used = super_init
                bparams = [a.arg for a in base_fn.args.args if a.arg != "self"]
                if len(v.args) != len(bparams):
                    raise TranslateError("super().__init__ arity (line %d)" % st.lineno)
                actual = dict(zip(bparams, v.args))
                args = " ".join(self.expr(actual[p], env) for p in base_used)
                return ["let c := %s e c %s in" % (base_coq, args)]
        if isinstance(st, ast.If) and mname == "__init__":
            # construction of the compact grids: may only store chiValues/rzValues/rpValues
            # (they are an input of the model: arbitrary lists)
            for n in ast.walk(st):
                if isinstance(n, ast.Attribute) and isinstance(n.ctx, ast.Store):
                    if self._self_attr(n) not in COMPACT:
                        raise TranslateError("__init__: the spacing block stores %s "
                                             "(line %d)" % (ast.unparse(n), n.lineno))
                if isinstance(n, ast.Call) and self._self_attr(n.func) is not None:
                    raise TranslateError("__init__: the spacing block calls %s (line %d)"
                                         % (ast.unparse(n.func), n.lineno))
            notes.append("compact grids chiValues/rzValues/rpValues: given lists")
            return []
        raise TranslateError("%s: statement outside the cache-method subset: %s (line %d)"
                             % (mname, ast.unparse(st).splitlines()[0][:70], st.lineno))


def class_fns(src, cls):
    tree = ast.parse(src)
    for n in tree.body:
        if isinstance(n, ast.ClassDef) and n.name == cls:
            return n, {f.name: f for f in n.body if isinstance(f, ast.FunctionDef)}
    raise TranslateError("class %s not found" % cls)


def generate(src_grid, src_g3):
    """Returns (coq text, info dict)."""
    gcls, gf = class_fns(src_grid, "Grid")
    g3cls, g3f = class_fns(src_g3, "Grid3Scales")
    bases = [ast.unparse(b) for b in g3cls.bases]
    if bases != ["Grid"]:
        raise TranslateError("Grid3Scales bases are %s" % bases)
    if gcls.bases:
        raise TranslateError("Grid has base classes")
    for cls in (gcls, g3cls):
        for n in cls.body:
            if not isinstance(n, ast.FunctionDef) and not (
                    isinstance(n, ast.Expr) and isinstance(n.value, ast.Constant)):
                raise TranslateError("class-level statement %s" % ast.unparse(n)[:40])
        for f in cls.body:
            if isinstance(f, ast.FunctionDef) and f.decorator_list:
                raise TranslateError("decorated method %s" % f.name)
    out = [pyrx.COQ_PRELUDE,
           "From Coq Require Import List.\nImport ListNotations.\n"
           "From WG Require Import Lib.GridMapsCache.",
           "(* generated from src/WallGo/grid.py and src/WallGo/grid3Scales.py *)"]
    info = {}

    # ---------------- Grid ----------------
    g = GridTranslator(dict(gf), G_ATTRS, "g_")
    g.ret_arity = {m: 3 for m in POINT_METHODS}
    out.append(g.header(extra_vars=[("g_unit", "unit")]))
    for m in POINT_METHODS:
        out.append(g.method(m))
    out.append(g.op_method("_cacheCoordinates"))
    out.append(g.op_method("changeMomentumFalloffScale"))
    out.append(g.op_method("changePositionFalloffScale"))
    out.append(g.op_method("__init__", coq_name="g_init"))
    info["Grid"] = dict(spans=g.spans, asserts=list(g.asserts), ops=dict(g.ops),
                        notes=g.op_notes)

    # ---------------- Grid3Scales (method resolution: own methods, then Grid's) ----
    fns = dict(gf)
    fns.update(g3f)
    t = GridTranslator(fns, G3_ATTRS, "g3_")
    t.ret_arity = {m: 3 for m in POINT_METHODS}
    out.append(t.header(extra_vars=[("g3_unit", "unit")]))
    out.append(t.method("_updateParameters"))
    out.append(t.precondition("_updateParameters"))
    info["g3_update_asserts"] = list(t.asserts)
    out += t.closures_of("decompactify", ["term1", "term2", "term3", "term4", "term5",
                                          "totalMapping"])
    for m in POINT_METHODS:
        out.append(t.method(m))
    out.append(t.op_method("_cacheCoordinates"))
    out.append(t.op_method("changeMomentumFalloffScale"))
    out.append(t.op_method("changePositionFalloffScale"))
    # the base-class constructor, executed on a Grid3Scales object
    t.fn["__base_init__"] = gf["__init__"]
    saved = t.fn["__init__"]
    t.fn["__init__"] = gf["__init__"]
    out.append(t.op_method("__init__", coq_name="g3_base_init"))
    base_used = t.ops["__init__"]
    t.fn["__init__"] = saved
    out.append(t.op_method("__init__", coq_name="g3_init",
                           super_init=(gf["__init__"], "g3_base_init", base_used)))
    info["Grid3Scales"] = dict(spans=t.spans, asserts=list(t.asserts), ops=dict(t.ops),
                               notes=t.op_notes,
                               inherited=sorted(set(gf) - set(g3f)))
    return "\n".join(out) + "\n", info


if __name__ == "__main__":
    import sys
    import vlib
    txt, inf = generate(vlib.read_src("grid.py"), vlib.read_src("grid3Scales.py"))
    sys.stdout.write(txt)
