"""adopt_mutant.py Cxx k "<check result note>" : move a confirmed seeded change into /verif/seeded/Cxx-k/"""
import json, os, shutil, sys
pid, k, note = sys.argv[1], sys.argv[2], sys.argv[3]
inc = "/verif/seeded/_incoming/%s" % pid
dst = "/verif/seeded/%s-%s" % (pid, k)
os.makedirs(dst, exist_ok=True)
shutil.copy(os.path.join(inc, "patch%s.diff" % k), os.path.join(dst, "patch.diff"))
shutil.copy(os.path.join(inc, "demo%s.py" % k), os.path.join(dst, "demo.py"))
meta = json.load(open(os.path.join(inc, "meta%s.json" % k)))
conf = json.load(open(os.path.join(inc, "confirm%s.json" % k)))
meta["breaks_property"] = pid
meta["confirmed_by_me"] = dict(
    how="scratch worktree /tmp/wt/%s: demo on clean tree, git apply patch, demo again, "
        "152 baseline tests (pytest, the 5 baseline-failing tests deselected), revert" % pid,
    **conf)
meta["check_result"] = note
json.dump(meta, open(os.path.join(dst, "meta.json"), "w"), indent=1)
print("adopted", dst)
