"""AST fact extractor for src/WallGo/polynomial.py (property C16).

A small, fail-closed interpreter executes the *bookkeeping* part of the methods of
`Polynomial` (which index range `n`, which `restriction`, which rows, which weights are
used for a given direction / end-point flag) on symbolic grid sizes M, N, and emits the
result as Coq data (`PolyCfg.v`).  Array arithmetic is opaque to it; whenever an opaque
value reaches an `if`, an index range or a recorded call the extraction stops with
TranslateError (the check then reports the tie as broken).

Facts extracted
  changeBasis        (n range, restriction) handed to self.chebyshev, for a rank-2 object,
                     for every ordered pair of axis kinds (loop-carried state is visible)
  evaluate           n range handed to self.cardinal / self.chebyshev (+ restriction)
  _chebyshevMatrix   n range, restriction
  _chebyshevDeriv    n range of n*U_{n-1}, whether the odd-n correction is applied
  _cardinalDeriv     rows kept of derivWithEndpoints, transposition
  integrate          divisor and halved entries of the weights, the integrand factor
  chebyshev          what is subtracted from T_n for each restriction
"""
import ast

DIRS = ("z", "pz", "pp")
COQDIR = {"z": "Dz", "pz": "Dpz", "pp": "Dpp"}


class TranslateError(Exception):
    pass


class Lin:
    """aM*M + aN*N + c"""

    def __init__(self, aM=0, aN=0, c=0):
        self.aM, self.aN, self.c = aM, aN, c

    def __add__(self, o):
        o = lin(o)
        return Lin(self.aM + o.aM, self.aN + o.aN, self.c + o.c)

    __radd__ = __add__

    def __sub__(self, o):
        o = lin(o)
        return Lin(self.aM - o.aM, self.aN - o.aN, self.c - o.c)

    def __rsub__(self, o):
        return lin(o) - self

    def __mul__(self, k):
        if isinstance(k, Lin):
            if k.aM == 0 and k.aN == 0:
                k = k.c
            elif self.aM == 0 and self.aN == 0:
                return k * self.c
            else:
                raise TranslateError("non-linear size expression")
        return Lin(self.aM * k, self.aN * k, self.c * k)

    __rmul__ = __mul__

    def key(self):
        return (self.aM, self.aN, self.c)

    def __eq__(self, o):
        return isinstance(o, Lin) and self.key() == o.key()

    def __hash__(self):
        return hash(self.key())

    def coq(self):
        pos, neg = [], []
        for a, nm in ((self.aM, "M"), (self.aN, "N")):
            if a > 0:
                pos.append(nm if a == 1 else "%d * %s" % (a, nm))
            elif a < 0:
                neg.append(nm if a == -1 else "%d * %s" % (-a, nm))
        if self.c > 0:
            pos.append(str(self.c))
        elif self.c < 0:
            neg.append(str(-self.c))
        s = " + ".join(pos) if pos else "0"
        for t in neg:
            s = "%s - %s" % (s, t)
        return "(%s)" % s

    def __repr__(self):
        return "Lin" + self.coq()


def lin(v):
    if isinstance(v, Lin):
        return v
    if isinstance(v, bool):
        return Lin(c=int(v))
    if isinstance(v, int):
        return Lin(c=v)
    raise TranslateError("not a size expression: %r" % (v,))


class Rng:
    def __init__(self, lo, hi):
        self.lo, self.hi = lin(lo), lin(hi)

    def shift(self, k):
        return Rng(self.lo + k, self.hi + k)

    def __repr__(self):
        return "Rng(%r, %r)" % (self.lo, self.hi)


class GridV:
    def __init__(self, size):
        self.size = lin(size)


class Opaque:
    def __init__(self, why=""):
        self.why = why

    def __repr__(self):
        return "<opaque %s>" % self.why


class PiV(Opaque):
    """the constant pi"""

    def __init__(self):
        Opaque.__init__(self, "pi")


class ConstArr(Opaque):
    """an array of `size` equal entries (1 or pi): np.ones(n), np.full(n, v), v * np.ones(n)"""

    def __init__(self, size, val):
        Opaque.__init__(self, "constant array")
        self.size, self.val = lin(size), val


def strip_neutral(node):
    """e + 0, 0 + e, e * 1, 1 * e, +e  ->  e"""
    while True:
        if isinstance(node, ast.BinOp) and isinstance(node.op, (ast.Add, ast.Sub)) and \
                isinstance(node.right, ast.Constant) and node.right.value in (0, 0.0):
            node = node.left
        elif isinstance(node, ast.BinOp) and isinstance(node.op, ast.Add) and \
                isinstance(node.left, ast.Constant) and node.left.value in (0, 0.0):
            node = node.right
        elif isinstance(node, ast.BinOp) and isinstance(node.op, (ast.Mult, ast.Div)) and \
                isinstance(node.right, ast.Constant) and node.right.value in (1, 1.0):
            node = node.left
        elif isinstance(node, ast.BinOp) and isinstance(node.op, ast.Mult) and \
                isinstance(node.left, ast.Constant) and node.left.value in (1, 1.0):
            node = node.right
        elif isinstance(node, ast.UnaryOp) and isinstance(node.op, ast.UAdd):
            node = node.operand
        else:
            return node


class MatV(Opaque):
    """symbolic matrix: ("cheb", call) | ("inv", m) | ("T", m)"""

    def __init__(self, op, arg):
        Opaque.__init__(self, "matrix")
        self.op, self.arg = op, arg

    def coq(self):
        if self.op == "cheb":
            return "MT"
        return "(%s %s)" % ({"inv": "MInv", "T": "MTr"}[self.op], self.arg.coq())

    def parity(self):
        """(number of inversions mod 2, number of transpositions mod 2): inversion and
        transposition are commuting involutions, so this is the matrix up to spelling"""
        if self.op == "cheb":
            return (0, 0)
        i, t = self.arg.parity()
        return ((i + 1) % 2, t) if self.op == "inv" else (i, (t + 1) % 2)


class ArrayV:
    """a definitely-not-None array argument supplied by the caller"""

    def __init__(self, name):
        self.name = name

    def __repr__(self):
        return "<array %s>" % self.name


M_ = Lin(1, 0, 0)
N_ = Lin(0, 1, 0)


def grid_size(d, ep):
    """sizes of Grid.getCompactCoordinates (validated by the correspondence runs)"""
    ep = int(bool(ep))
    if d == "z":
        return M_ - 1 + 2 * ep
    if d == "pz":
        return N_ - 1 + 2 * ep
    return N_ - 1 + ep


class Return(Exception):
    pass


class Interp:
    def __init__(self, env, watch=()):
        self.env = dict(env)
        self.calls = []      # (name, [values])
        self.events = []     # augmented assignments / slices on watched names
        self.watch_all = watch == "*"
        self.watch = set() if self.watch_all else set(watch)

    def watched(self, name):
        return name is not None and (self.watch_all or name in self.watch)

    # -- expressions ---------------------------------------------------------------
    def name_of(self, node):
        """dotted name of Name/Attribute chains"""
        if isinstance(node, ast.Name):
            return node.id
        if isinstance(node, ast.Attribute):
            b = self.name_of(node.value)
            return None if b is None else b + "." + node.attr
        return None

    def strip_index(self, node):
        """x[:, None] / n[None, :] -> x / n (pure re-shaping subscripts)"""
        while isinstance(node, ast.Subscript):
            sl = node.slice
            elts = sl.elts if isinstance(sl, ast.Tuple) else [sl]
            ok = all((isinstance(e, ast.Constant) and e.value is None) or
                     (isinstance(e, ast.Slice) and e.lower is None and e.upper is None
                      and e.step is None) or isinstance(e, ast.Name) for e in elts)
            if not ok or not any(isinstance(e, (ast.Slice,)) or
                                 (isinstance(e, ast.Constant) and e.value is None)
                                 for e in elts):
                break
            node = node.value
        return node

    def ev(self, node):
        if isinstance(node, ast.Constant):
            return node.value
        dn = self.name_of(node)
        if dn is not None:
            if dn in self.env:
                return self.env[dn]
            if dn.endswith(".size"):
                base = self.env.get(dn[:-5])
                if isinstance(base, GridV):
                    return base.size
                if isinstance(base, Rng):
                    return base.hi - base.lo
            if dn in ("np.pi", "math.pi", "numpy.pi"):
                return PiV()
            return Opaque(dn)
        if isinstance(node, ast.Tuple):
            return tuple(self.ev(e) for e in node.elts)
        if isinstance(node, ast.List):
            return [self.ev(e) for e in node.elts]
        if isinstance(node, ast.UnaryOp):
            v = self.ev(node.operand)
            if isinstance(node.op, ast.Not):
                return not self.truth(v, node)
            if isinstance(node.op, ast.USub) and isinstance(v, (int, Lin)):
                return lin(v) * -1 if isinstance(v, Lin) else -v
            return Opaque("unary")
        if isinstance(node, ast.BoolOp):
            vals = [self.truth(self.ev(v), v) for v in node.values]
            return all(vals) if isinstance(node.op, ast.And) else any(vals)
        if isinstance(node, ast.Compare):
            if len(node.ops) != 1:
                raise TranslateError("chained comparison")
            a, b = self.ev(node.left), self.ev(node.comparators[0])
            op = node.ops[0]
            if isinstance(a, Opaque) or isinstance(b, Opaque):
                return Opaque("compare")
            if isinstance(a, ArrayV) or isinstance(b, ArrayV):
                if isinstance(op, ast.Is):
                    return a is b
                if isinstance(op, ast.IsNot):
                    return a is not b
                return Opaque("compare with an array")
            if isinstance(op, ast.Eq):
                return a == b
            if isinstance(op, ast.NotEq):
                return a != b
            if isinstance(op, ast.Is):
                return a is b
            if isinstance(op, ast.IsNot):
                return a is not b
            if isinstance(op, ast.In):
                return a in b
            if isinstance(op, ast.NotIn):
                return a not in b
            if isinstance(op, (ast.Gt, ast.GtE, ast.Lt, ast.LtE)) and \
                    all(isinstance(v, (int, float)) for v in (a, b)):
                return {ast.Gt: a > b, ast.GtE: a >= b, ast.Lt: a < b, ast.LtE: a <= b}[type(op)]
            if isinstance(op, (ast.Gt, ast.GtE, ast.Lt, ast.LtE)) and \
                    any(isinstance(v, Lin) for v in (a, b)):
                raise TranslateError("ordering test on a symbolic size (line %s)" %
                                     getattr(node, "lineno", "?"))
            raise TranslateError("comparison %s" % ast.dump(op))
        if isinstance(node, ast.BinOp):
            a, b = self.ev(node.left), self.ev(node.right)
            num = (int, Lin)
            if isinstance(a, bool) or isinstance(b, bool):
                a = int(a) if isinstance(a, bool) else a
                b = int(b) if isinstance(b, bool) else b
            if isinstance(a, Rng) and isinstance(b, num) and not isinstance(b, bool):
                if isinstance(node.op, ast.Add):
                    return a.shift(b)
                if isinstance(node.op, ast.Sub):
                    return a.shift(lin(b) * -1)
            if isinstance(a, num) and isinstance(b, num):
                if isinstance(node.op, ast.Add):
                    return a + b
                if isinstance(node.op, ast.Sub):
                    return a - b
                if isinstance(node.op, ast.Mult):
                    return a * b
            if isinstance(a, (tuple, list)) and isinstance(b, (tuple, list)) and \
                    isinstance(node.op, ast.Add):
                return tuple(a) + tuple(b)
            if isinstance(node.op, ast.Mult):
                for u, v in ((a, b), (b, a)):
                    if isinstance(u, PiV) and isinstance(v, ConstArr) and v.val == 1:
                        return ConstArr(v.size, "pi")
                    if isinstance(u, ConstArr) and not isinstance(v, Opaque) and \
                            isinstance(v, (int, float)) and v == 1:
                        return u
            return Opaque("binop")
        if isinstance(node, ast.Subscript):
            base = self.ev(node.value)
            if isinstance(base, (tuple, list)):
                idx = self.ev(node.slice)
                if isinstance(idx, int):
                    return base[idx]
            inner = self.strip_index(node)
            if inner is not node:
                return self.ev(inner)
            return Opaque("subscript")
        if isinstance(node, ast.Call):
            return self.call(node)
        if isinstance(node, ast.IfExp):
            return self.ev(node.body) if self.truth(self.ev(node.test), node) \
                else self.ev(node.orelse)
        return Opaque(type(node).__name__)

    def truth(self, v, node):
        if isinstance(v, Opaque):
            raise TranslateError("condition depends on an array value: %s (line %s)" % (
                ast.unparse(node)[:80], getattr(node, "lineno", "?")))
        if isinstance(v, Lin):
            raise TranslateError("condition on a symbolic size (line %s)" %
                                 getattr(node, "lineno", "?"))
        return bool(v)

    def call(self, node):
        fn = self.name_of(node.func)
        args = [self.ev(a) for a in node.args]
        if fn == "np.arange":
            if len(args) == 1:
                return Rng(0, lin(args[0]))
            if len(args) == 2:
                return Rng(lin(args[0]), lin(args[1]))
            raise TranslateError("np.arange with a step")
        if fn == "self.grid.getCompactCoordinates":
            kw = {k.arg: self.ev(k.value) for k in node.keywords}
            ep = args[0] if args else kw.get("endpoints", False)
            d = args[1] if len(args) > 1 else kw.get("direction")
            if isinstance(ep, Opaque) or isinstance(d, Opaque):
                raise TranslateError("getCompactCoordinates with unknown arguments")
            if d is None:
                return tuple(GridV(grid_size(x, ep)) for x in DIRS)
            return GridV(grid_size(d, ep))
        if fn == "isinstance":
            v = args[0]
            t = self.name_of(node.args[1])
            if isinstance(v, Opaque):
                return Opaque("isinstance")
            return {"str": isinstance(v, str), "int": isinstance(v, int) and
                    not isinstance(v, bool), "bool": isinstance(v, bool),
                    "tuple": isinstance(v, tuple)}.get(t, False)
        if fn == "range":
            if not all(isinstance(a, int) for a in args):
                raise TranslateError("range over a size that is not a concrete integer "
                                     "(line %d)" % node.lineno)
            return list(range(*[a for a in args]))
        if fn in ("int", "bool") and len(args) == 1 and isinstance(args[0], (bool, int, Lin)):
            return args[0] if isinstance(args[0], Lin) else (
                int(args[0]) if fn == "int" else bool(args[0]))
        if fn == "enumerate":
            return list(enumerate(args[0]))
        if fn == "tuple":
            return tuple(args[0]) if isinstance(args[0], (list, tuple)) else Opaque("tuple")
        if fn == "len":
            return len(args[0]) if isinstance(args[0], (list, tuple)) else Opaque("len")
        if fn in ("np.array", "np.asarray", "np.asanyarray") and args:
            return args[0]
        if fn == "np.ones" and len(args) == 1 and isinstance(args[0], (int, Lin)):
            return ConstArr(args[0], 1)
        if fn == "np.full" and len(args) == 2 and isinstance(args[0], (int, Lin)):
            if isinstance(args[1], PiV):
                return ConstArr(args[0], "pi")
            if args[1] in (1, 1.0) and not isinstance(args[1], Opaque):
                return ConstArr(args[0], 1)
        if fn == "np.eye" and (len(args) == 1 or (len(args) == 2 and isinstance(
                args[1], (int, Lin)) and lin(args[0]) == lin(args[1]))) and not node.keywords:
            fn, args = "np.identity", args[:1]        # the same matrix
        if fn == "np.identity" or (fn or "").startswith("self._"):
            self.calls.append((fn, args, node))
            return Opaque(fn)
        if fn in ("self.chebyshev", "self.cardinal", "eval_chebyu", "eval_chebyt"):
            self.calls.append((fn, args, node))
            return MatV("cheb", node) if fn == "self.chebyshev" else Opaque(fn)
        if fn == "np.transpose":
            self.calls.append((fn, args, node))
            if args and isinstance(args[0], MatV) and len(args) == 1 and not node.keywords:
                return MatV("T", args[0])
            return Opaque(fn)
        if fn == "np.linalg.inv" and len(args) == 1 and isinstance(args[0], MatV):
            return MatV("inv", args[0])
        if fn == "np.expand_dims" and args and isinstance(args[0], MatV):
            return args[0]
        if fn == "np.sum" and node.args and isinstance(node.args[0], ast.BinOp) and \
                isinstance(node.args[0].op, ast.Mult):
            ops_ = [self.ev(node.args[0].left), self.ev(node.args[0].right)]
            mats = [v for v in ops_ if isinstance(v, MatV)]
            if len(mats) == 1:
                self.calls.append(("contract", mats, node))
        return Opaque("call %s" % fn)

    # -- statements ----------------------------------------------------------------
    def assign(self, target, val):
        if isinstance(target, ast.Name):
            self.env[target.id] = val
        elif isinstance(target, ast.Tuple):
            if isinstance(val, (tuple, list)) and len(val) == len(target.elts):
                for t, v in zip(target.elts, val):
                    self.assign(t, v)
            else:
                for t in target.elts:
                    self.assign(t, Opaque("unpack"))
        elif isinstance(target, ast.Attribute):
            dn = self.name_of(target)
            if dn:
                self.env[dn] = val
        # subscript targets: ignored (array element stores)

    def run(self, body):
        self.depth = getattr(self, "depth", 0) + 1
        try:
            for k, st in enumerate(body):
                self.rest = body[k + 1:]
                self.stmt(st)
        finally:
            self.depth -= 1

    def check_skipped(self, st, rest, depth):
        """A branch whose test is an array value is not executed.  That is only sound if it
        cannot change what the method computes for the facts extracted: no call of a method
        of the object, no store to an attribute, and a `return` only where the method is
        about to return anyway (the `if` is the last statement before the final return)."""
        tail = depth == 1 and (not rest or (len(rest) == 1 and isinstance(rest[0], ast.Return)))
        for sub in st.body + st.orelse:
            for nd in ast.walk(sub):
                if isinstance(nd, ast.Return) and not tail:
                    raise TranslateError("data-dependent early return (line %d): `if %s`" % (
                        nd.lineno, ast.unparse(st.test)[:60]))
                if isinstance(nd, ast.Call):
                    fn = self.name_of(nd.func) or ""
                    if fn.startswith("self.") and not fn.startswith("self._check") and \
                            fn not in ("self._isBroadcastable",):
                        raise TranslateError("call of %s in a data-dependent branch (line %d)"
                                             % (fn, nd.lineno))
                if isinstance(nd, (ast.Assign, ast.AugAssign, ast.AnnAssign)):
                    tg = nd.targets if isinstance(nd, ast.Assign) else [nd.target]
                    for t in tg:
                        for e in ast.walk(t):
                            if isinstance(e, ast.Attribute) and self.name_of(e) and \
                                    self.name_of(e).startswith("self."):
                                raise TranslateError("store to %s in a data-dependent branch "
                                                     "(line %d)" % (self.name_of(e), nd.lineno))

    def stmt(self, st):
        if isinstance(st, (ast.Pass, ast.Assert)):
            return
        if isinstance(st, ast.Expr):
            if not (isinstance(st.value, ast.Constant)):
                self.ev(st.value)
            return
        if isinstance(st, ast.AnnAssign):
            if st.value is not None:
                self.assign(st.target, self.ev(st.value))
            return
        if isinstance(st, ast.Assign):
            # slices of watched arrays:  deriv = derivWithEndpoints[1:-1, :]
            if isinstance(st.value, ast.Subscript) and isinstance(st.value.value, ast.Name) \
                    and self.watched(st.value.value.id):
                self.events.append(("slice", st.value.value.id, st.value.slice))
            if isinstance(st.value, ast.Name) and self.watched(st.value.id):
                self.events.append(("alias", st.value.id, None))
            val = self.ev(st.value)
            # x = x * e  /  x = e * x : the not-in-place spelling of  x *= e
            if len(st.targets) == 1 and isinstance(st.targets[0], ast.Name) and \
                    self.watched(st.targets[0].id) and isinstance(st.value, ast.BinOp):
                for u, v in ((st.value.left, st.value.right), (st.value.right, st.value.left)):
                    if isinstance(u, ast.Name) and u.id == st.targets[0].id:
                        self.events.append(("rebind", u.id, (None, type(st.value.op).__name__,
                                                             v, self.ev(v))))
                        break
            if any(isinstance(t, ast.Name) and self.watched(t.id) for t in st.targets):
                self.events.append(("init", self.name_of(st.targets[0]), st.value, val))
            for t in st.targets:
                self.assign(t, val)
            return
        if isinstance(st, ast.AugAssign):
            tn = self.name_of(st.target) if not isinstance(st.target, ast.Subscript) \
                else self.name_of(st.target.value)
            if self.watched(tn) and not isinstance(self.env.get(tn), Rng):
                idx = None
                if isinstance(st.target, ast.Subscript):
                    idx = self.ev(st.target.slice)
                    if not isinstance(idx, int):
                        raise TranslateError("non-constant index into %s" % tn)
                self.events.append(("aug", tn, (idx, type(st.op).__name__, st.value,
                                                self.ev(st.value))))
                return
            if isinstance(st.target, ast.Name):
                cur = self.env.get(st.target.id, Opaque())
                v = self.ev(st.value)
                if isinstance(cur, Rng) and isinstance(v, (int, Lin)):
                    if isinstance(st.op, ast.Add):
                        self.env[st.target.id] = cur.shift(v)
                        return
                    if isinstance(st.op, ast.Sub):
                        self.env[st.target.id] = cur.shift(lin(v) * -1)
                        return
                if isinstance(cur, Rng):
                    raise TranslateError("unsupported update of an index range (line %d)"
                                         % st.lineno)
                self.env[st.target.id] = Opaque("aug")
            return
        if isinstance(st, ast.If):
            rest, depth = self.rest, self.depth
            tv = self.ev(st.test)
            if isinstance(tv, Opaque):
                # data-dependent branch: run neither side (after checking that skipping it is
                # sound), forget every name either side assigns
                self.check_skipped(st, rest, depth)
                for sub in st.body + st.orelse:
                    for nd in ast.walk(sub):
                        tg = []
                        if isinstance(nd, ast.Assign):
                            tg = nd.targets
                        elif isinstance(nd, (ast.AugAssign, ast.AnnAssign, ast.For)):
                            tg = [nd.target]
                        for t in tg:
                            for nm in ast.walk(t):
                                if isinstance(nm, ast.Name):
                                    self.env[nm.id] = Opaque("havoc")
                                    if nm.id in self.watch:
                                        raise TranslateError(
                                            "data-dependent update of %s (line %d)" % (
                                                nm.id, st.lineno))
                return
            if self.truth(tv, st.test):
                self.run(st.body)
            else:
                self.run(st.orelse)
            return
        if isinstance(st, ast.For):
            it = self.ev(st.iter)
            if not isinstance(it, (list, tuple)):
                raise TranslateError("loop over an unknown sequence (line %d)" % st.lineno)
            for v in it:
                self.assign(st.target, v)
                self.run(st.body)
            return
        if isinstance(st, ast.Return):
            if st.value is not None:
                self.retnode = st.value
                self.retval = self.ev(st.value)
            raise Return()
        if isinstance(st, ast.Raise):
            raise TranslateError("reached a raise statement (line %d)" % st.lineno)
        raise TranslateError("unsupported statement %s (line %d)" % (
            type(st).__name__, st.lineno))

    def run_method(self, fn):
        try:
            self.run(fn.body)
        except Return:
            pass


def methods(src, cls="Polynomial"):
    """method table of the class; fail closed on everything that changes what a method name
    means without showing in its body: decorators, hooks, double definitions, class-level
    rebinding (pyrx.check_plain_class) and module-level patching `Cls.f = g`,
    `setattr(Cls, ...)`, a second class of the same name."""
    import pyrx
    tree = ast.parse(src)
    found = [n for n in tree.body if isinstance(n, ast.ClassDef) and n.name == cls]
    if len(found) != 1:
        raise TranslateError("class %s not found exactly once" % cls)
    try:
        pyrx.check_plain_class(found[0])
    except pyrx.TranslateError as e:
        raise TranslateError(str(e))
    if any(not (isinstance(b, ast.Name) and b.id == "object") for b in found[0].bases):
        raise TranslateError("class %s has base classes (%s)" % (
            cls, ", ".join(ast.unparse(b) for b in found[0].bases)))
    # names the recognisers rely on must mean what the imports say
    special = {"eval_chebyt": "scipy.special", "eval_chebyu": "scipy.special", "np": "numpy"}
    for n in tree.body:
        bound = []
        if isinstance(n, ast.ImportFrom):
            for a in n.names:
                nm = a.asname or a.name
                if nm in special and not (n.module == special[nm] and a.name == nm):
                    raise TranslateError("%s is imported from %s" % (nm, n.module))
            continue
        if isinstance(n, ast.Import):
            for a in n.names:
                nm = a.asname or a.name
                if nm in special and a.name != special[nm]:
                    raise TranslateError("%s is bound to module %s" % (nm, a.name))
            continue
        if isinstance(n, (ast.FunctionDef, ast.ClassDef, ast.AsyncFunctionDef)):
            bound = [n.name]
        else:
            for e in ast.walk(n):
                if isinstance(e, ast.Name) and isinstance(e.ctx, (ast.Store, ast.Del)):
                    bound.append(e.id)
                if isinstance(e, ast.Call) and isinstance(e.func, ast.Name) and \
                        e.func.id in ("exec", "eval", "globals", "setattr", "__import__"):
                    raise TranslateError("module calls %s (line %d)" % (e.func.id, n.lineno))
        for nm in bound:
            if nm in special or (nm == cls and n is not found[0]):
                raise TranslateError("module rebinds %s (line %d)" % (nm, n.lineno))
    for n in ast.walk(tree):
        tg = []
        if isinstance(n, ast.Assign):
            tg = n.targets
        elif isinstance(n, (ast.AugAssign, ast.AnnAssign)):
            tg = [n.target]
        elif isinstance(n, ast.Delete):
            tg = n.targets
        for t in tg:
            for e in ast.walk(t):
                if isinstance(e, ast.Attribute) and isinstance(e.value, ast.Name) and \
                        e.value.id == cls:
                    raise TranslateError("module patches %s.%s (line %d)" % (
                        cls, e.attr, n.lineno))
        if isinstance(n, ast.Call) and isinstance(n.func, ast.Name) and \
                n.func.id in ("setattr", "delattr") and n.args and \
                isinstance(n.args[0], ast.Name) and n.args[0].id == cls:
            raise TranslateError("module patches %s through %s (line %d)" % (
                cls, n.func.id, n.lineno))
    return {f.name: f for f in found[0].body if isinstance(f, ast.FunctionDef)}


def need_rng(v, what):
    if not isinstance(v, Rng):
        raise TranslateError("%s: index range is not an np.arange expression (%r)" % (
            what, v))
    return v


def restr_coq(r, what):
    if r is None:
        return "RNone"
    if r == "full":
        return "RFull"
    if r == "partial":
        return "RPartial"
    raise TranslateError("%s: unknown restriction %r" % (what, r))


def cfg_coq(rng, r, what):
    return "mkcfg %s %s %s" % (rng.lo.coq(), rng.hi.coq(), restr_coq(r, what))


def same_value(u, v):
    if isinstance(u, Rng) and isinstance(v, Rng):
        return u.lo == v.lo and u.hi == v.hi
    return u is v


def parity_where(node, it, nval, xval):
    """np.where(<n> % 2 == 0, a, b) with a, b in {0, 1, <x>} -> (a, b); <n> and <x> are
    recognised by the VALUE they are bound to in the interpreter `it` (not by their name)"""
    if not (isinstance(node, ast.Call) and it.name_of(node.func) in ("np.where", "numpy.where")
            and len(node.args) == 3 and not node.keywords):
        return None
    cond = node.args[0]
    if not (isinstance(cond, ast.Compare) and len(cond.ops) == 1 and
            isinstance(cond.ops[0], ast.Eq) and isinstance(cond.left, ast.BinOp) and
            isinstance(cond.left.op, ast.Mod) and
            isinstance(cond.left.right, ast.Constant) and cond.left.right.value == 2 and
            isinstance(cond.comparators[0], ast.Constant) and
            cond.comparators[0].value == 0):
        return None
    if not same_value(it.ev(it.strip_index(cond.left.left)), nval):
        return None

    def leaf(e):
        if isinstance(e, ast.Constant) and e.value in (0, 1) and \
                not isinstance(e.value, bool):
            return e.value
        if xval is not None and it.ev(it.strip_index(e)) is xval:
            return "x"
        return None
    a, b = leaf(node.args[1]), leaf(node.args[2])
    if a is None or b is None:
        return None
    return a, b


ALLOC_CALLS = {"np.array", "np.copy", "np.multiply", "np.zeros", "np.ones", "np.sum",
               "np.einsum", "np.tensordot", "np.arange", "np.identity", "np.prod",
               "np.where", "np.divide", "np.linalg.inv", "np.linspace", "np.sqrt",
               "eval_chebyt", "eval_chebyu", "list", "tuple", "float", "int", "np.full",
               "np.empty", "np.zeros_like", "np.ones_like", "np.full_like", "np.empty_like",
               "np.eye", "np.diag", "np.outer", "np.dot", "np.matmul", "np.linalg.solve",
               "np.concatenate", "np.stack", "np.cos", "np.sin", "np.exp", "np.log",
               "np.abs", "np.power", "np.add", "np.subtract", "dict", "set", "range"}
VIEW_CALLS = {"np.asarray", "np.asanyarray", "np.ascontiguousarray", "np.reshape",
              "np.expand_dims", "np.squeeze", "np.transpose", "np.moveaxis"}


def fresh_expr(node, known):
    """Does evaluating `node` (numpy semantics) always allocate a new array?  `known`
    maps local names to the freshness of the array they are bound to.  Attributes of
    self and arguments are never fresh.  Fail closed on anything unknown."""
    if isinstance(node, (ast.BinOp, ast.UnaryOp)):
        return True                      # ndarray arithmetic returns a new array
    if isinstance(node, ast.Name):
        return bool(known.get(node.id, False))
    if isinstance(node, (ast.Attribute, ast.Subscript)):
        return False
    if isinstance(node, ast.Call):
        fn = ast.unparse(node.func)
        if any(k.arg == "copy" and not (isinstance(k.value, ast.Constant) and
                                        k.value.value is True) for k in node.keywords):
            # copy=False / copy=None / copy=<expr>: may return the argument itself
            return fresh_expr(node.args[0], known) if node.args else False
        if fn in ALLOC_CALLS:
            if fn in UFUNC_ARITY and len(node.args) > UFUNC_ARITY[fn]:
                return False                 # positional `out`
            return not any(k.arg == "out" for k in node.keywords)
        if isinstance(node.func, ast.Attribute) and node.func.attr in ("copy",):
            return True
        if fn in VIEW_CALLS:
            return fresh_expr(node.args[0], known) if node.args else False
        if isinstance(node.func, ast.Attribute) and node.func.attr in (
                "reshape", "view", "ravel", "squeeze", "transpose"):
            return fresh_expr(node.func.value, known)
        raise TranslateError("integrate: cannot tell whether %s allocates" % fn)
    raise TranslateError("integrate: cannot tell whether %s allocates" %
                         ast.unparse(node)[:60])


UFUNC_ARITY = {"np.multiply": 2, "np.add": 2, "np.subtract": 2, "np.divide": 2,
               "np.true_divide": 2, "np.power": 2, "np.maximum": 2, "np.minimum": 2,
               "np.matmul": 2, "np.negative": 1, "np.sqrt": 1, "np.abs": 1, "np.absolute": 1,
               "np.exp": 1, "np.log": 1, "np.cos": 1, "np.sin": 1, "np.square": 1,
               "np.sign": 1, "np.conj": 1, "np.reciprocal": 1, "np.rint": 1, "np.floor": 1,
               "np.ceil": 1}
COPY_KW_FUNCS = {"np.nan_to_num": 1, "np.clip": 3, "np.round": 2, "np.around": 2}
MUTATING_METHODS = {"fill", "sort", "resize", "put", "itemset", "partition", "byteswap",
                    "setfield", "setflags", "append", "extend", "insert", "pop", "remove",
                    "clear", "reverse", "update", "setdefault", "popitem", "__setitem__",
                    "__iadd__", "__imul__", "__isub__", "__itruediv__"}
MUTATING_FUNCS = {"np.copyto", "np.put", "np.place", "np.putmask", "np.fill_diagonal",
                  "np.put_along_axis", "np.ndarray.fill", "np.ndarray.sort", "setattr",
                  "delattr"}


def alias_scan(ms):
    """Every in-place update in every method of the class must act on an object allocated
    inside the method.  In-place update = augmented assignment, store through a subscript
    (`x[...] = ..`, `self.a[...] = ..`, `x.a = ..` for a non-self x), a call with `out=`,
    a mutating method (`fill`, `sort`, `put`, ..., list `append` ...) or numpy function
    (`np.copyto`, `np.put`, ...).  Rebinding `self.attr = <new object>` is not an update of
    the old object.  Flow-sensitive may-alias pass: a name is fresh only if it is fresh on
    every path; attributes, arguments, views of them are never fresh.  `del`, `global`,
    `nonlocal`, `exec`, `eval` fail closed.  Returns the offending updates."""
    bad = []

    def fresh_or_false(node, known):
        if isinstance(node, ast.Constant):
            return True
        if isinstance(node, (ast.List, ast.Tuple, ast.ListComp, ast.Dict, ast.JoinedStr,
                             ast.Compare, ast.BoolOp, ast.Set, ast.DictComp, ast.SetComp)):
            return True
        if isinstance(node, ast.IfExp):
            return fresh_or_false(node.body, known) and fresh_or_false(node.orelse, known)
        try:
            return fresh_expr(node, known)
        except TranslateError:
            return False

    def join(a, b):
        return {k: a.get(k, False) and b.get(k, False) for k in set(a) | set(b)}

    def root_fresh(t, known):
        """freshness of the object a store/mutation through expression t reaches"""
        while isinstance(t, ast.Subscript):
            t = t.value
        if isinstance(t, ast.Name):
            return bool(known.get(t.id, False))
        return fresh_or_false(t, known) if isinstance(t, ast.Call) else False

    def flag(mname, node):
        bad.append((mname, node.lineno, ast.unparse(node)[:60].replace("\n", " ")))

    def scan_calls(st, known, mname):
        """calls anywhere inside the simple statement st"""
        for nd in ast.walk(st):
            if isinstance(nd, (ast.Lambda, ast.FunctionDef)):
                raise TranslateError("nested function in %s (line %d)" % (mname, st.lineno))
            if not isinstance(nd, ast.Call):
                continue
            fn = ast.unparse(nd.func)
            if fn in ("exec", "eval", "globals", "locals", "vars", "object.__setattr__"):
                raise TranslateError("%s calls %s (line %d)" % (mname, fn, nd.lineno))
            for k in nd.keywords:
                if k.arg == "out" and not (isinstance(k.value, ast.Constant) and
                                           k.value.value is None):
                    outs = k.value.elts if isinstance(k.value, ast.Tuple) else [k.value]
                    if not all(root_fresh(o, known) for o in outs):
                        flag(mname, nd)
            if fn in MUTATING_FUNCS and nd.args and not root_fresh(nd.args[0], known):
                flag(mname, nd)
            # positional `out` of a numpy ufunc: np.multiply(a, b, a)
            if fn in UFUNC_ARITY and len(nd.args) > UFUNC_ARITY[fn] and \
                    not root_fresh(nd.args[UFUNC_ARITY[fn]], known):
                flag(mname, nd)
            # ufunc.at(a, idx[, b]) / ufunc.reduce(..., out) style in-place methods
            if isinstance(nd.func, ast.Attribute) and nd.func.attr == "at" and nd.args and \
                    ast.unparse(nd.func.value).startswith(("np.", "numpy.")) and \
                    not root_fresh(nd.args[0], known):
                flag(mname, nd)
            # nan_to_num / clip / round with copy=False or a positional out
            if fn in COPY_KW_FUNCS and nd.args and not root_fresh(nd.args[0], known):
                nocopy = any(k.arg == "copy" and not (isinstance(k.value, ast.Constant) and
                                                      k.value.value is True)
                             for k in nd.keywords)
                posout = fn != "np.nan_to_num" and len(nd.args) > COPY_KW_FUNCS[fn]
                if nocopy or posout:
                    flag(mname, nd)
            if isinstance(nd.func, ast.Attribute) and nd.func.attr in MUTATING_METHODS \
                    and not root_fresh(nd.func.value, known):
                flag(mname, nd)

    def store(t, known, mname, st, value_fresh):
        if isinstance(t, ast.Name):
            known[t.id] = value_fresh
        elif isinstance(t, (ast.Tuple, ast.List)):
            for e in t.elts:
                store(e, known, mname, st, False if not isinstance(e, ast.Name) else
                      value_fresh)
        elif isinstance(t, ast.Subscript):
            if not root_fresh(t, known):
                flag(mname, st)
        elif isinstance(t, ast.Attribute):
            # self.attr = <object>: rebinding (allowed); x.attr = ... on another object or
            # self.a.b = ...: an update of an object the method did not create
            if not (isinstance(t.value, ast.Name) and t.value.id == "self") and \
                    not root_fresh(t.value, known):
                flag(mname, st)
        elif isinstance(t, ast.Starred):
            store(t.value, known, mname, st, False)

    def walk(stmts, known, mname):
        for st in stmts:
            if isinstance(st, (ast.Delete, ast.Global, ast.Nonlocal)):
                raise TranslateError("%s uses %s (line %d)" % (
                    mname, type(st).__name__.lower(), st.lineno))
            if isinstance(st, (ast.FunctionDef, ast.ClassDef, ast.AsyncFunctionDef)):
                raise TranslateError("nested definition in %s (line %d)" % (mname, st.lineno))
            if isinstance(st, ast.Assign):
                scan_calls(st, known, mname)
                v = fresh_or_false(st.value, known)
                for t in st.targets:
                    if isinstance(t, (ast.Tuple, ast.List)) and \
                            isinstance(st.value, (ast.Tuple, ast.List)) and \
                            len(t.elts) == len(st.value.elts):
                        for e, x in zip(t.elts, st.value.elts):
                            store(e, known, mname, st, fresh_or_false(x, known))
                    elif isinstance(t, (ast.Tuple, ast.List)):
                        store(t, known, mname, st, False)
                    else:
                        store(t, known, mname, st, v)
            elif isinstance(st, ast.AnnAssign):
                if st.value is not None:
                    scan_calls(st, known, mname)
                    store(st.target, known, mname, st, fresh_or_false(st.value, known))
            elif isinstance(st, ast.AugAssign):
                scan_calls(st, known, mname)
                if isinstance(st.target, ast.Attribute) or not root_fresh(st.target, known):
                    flag(mname, st)
            elif isinstance(st, ast.If):
                scan_calls(st.test, known, mname)
                known.update(join(walk(st.body, dict(known), mname),
                                  walk(st.orelse, dict(known), mname)))
            elif isinstance(st, (ast.For, ast.While)):
                if isinstance(st, ast.For):
                    scan_calls(st.iter, known, mname)
                    for e in ast.walk(st.target):
                        if isinstance(e, ast.Name):
                            known[e.id] = True      # loop counters / indices
                else:
                    scan_calls(st.test, known, mname)
                k1 = walk(st.body, dict(known), mname)
                k2 = walk(st.body, join(known, k1), mname)
                known.update(join(known, join(k1, k2)))
                walk(st.orelse, known, mname)
            elif isinstance(st, ast.With):
                for it in st.items:
                    scan_calls(it.context_expr, known, mname)
                walk(st.body, known, mname)
            elif isinstance(st, ast.Try):
                walk(st.body, known, mname)
                for h in st.handlers:
                    walk(h.body, known, mname)
                walk(st.orelse, known, mname)
                walk(st.finalbody, known, mname)
            elif isinstance(st, (ast.Expr, ast.Return, ast.Assert, ast.Raise)):
                scan_calls(st, known, mname)
            elif isinstance(st, (ast.Pass, ast.Break, ast.Continue, ast.Import,
                                 ast.ImportFrom)):
                pass
            else:
                raise TranslateError("%s: unsupported statement %s (line %d)" % (
                    mname, type(st).__name__, st.lineno))
        return known

    for name, fn in ms.items():
        walk(fn.body, {}, name)
    return sorted(set(bad))


def integrand_factor(it, node, wname, xnames):
    """sqrt(1 - x**2) * weights, factors in either order, x = the node array of the axis"""
    node = strip_neutral(node)
    if not (isinstance(node, ast.BinOp) and isinstance(node.op, ast.Mult)):
        return False
    for u, v in ((node.left, node.right), (node.right, node.left)):
        u, v = strip_neutral(u), strip_neutral(v)
        if not (isinstance(v, ast.Name) and v.id == wname):
            continue
        if not (isinstance(u, ast.Call) and it.name_of(u.func) in ("np.sqrt", "numpy.sqrt")
                and len(u.args) == 1):
            continue
        e = strip_neutral(u.args[0])
        if not (isinstance(e, ast.BinOp) and isinstance(e.op, ast.Sub) and
                isinstance(e.left, ast.Constant) and e.left.value in (1, 1.0)):
            continue
        sq = strip_neutral(e.right)
        if isinstance(sq, ast.BinOp) and isinstance(sq.op, ast.Pow) and \
                isinstance(sq.right, ast.Constant) and sq.right.value in (2, 2.0) and \
                isinstance(sq.left, ast.Name) and sq.left.id in xnames:
            return True
        if isinstance(sq, ast.BinOp) and isinstance(sq.op, ast.Mult) and \
                isinstance(sq.left, ast.Name) and isinstance(sq.right, ast.Name) and \
                sq.left.id == sq.right.id and sq.left.id in xnames:
            return True
    return False


def leaf_coq(v):
    return {0: "o0 O", 1: "o1 O", "x": "x"}[v]


def generate(src):
    ms = methods(src)
    for need in ("changeBasis", "evaluate", "_chebyshevMatrix", "_chebyshevDeriv",
                 "_cardinalDeriv", "integrate", "chebyshev"):
        if need not in ms:
            raise TranslateError("method %s not found" % need)
    kinds = [(d, ep) for d in DIRS for ep in (True, False)]
    out = []
    facts = {}
    w = out.append
    w("(* GENERATED by tools/gen_poly.py from src/WallGo/polynomial.py -- do not edit *)")
    w("From Coq Require Import List Arith Bool ZArith.")
    w("From WG Require Import Lib.Lagrange Lib.Cheb Lib.Spectral.")
    w("Import ListNotations.")
    w("Local Open Scope nat_scope.")

    def base_env():
        return {"self.grid.M": M_, "self.grid.N": N_}

    def match2(name, sig, table, default=None):
        w("Definition %s %s :=" % (name, sig))
        w("  match d, ep with")
        for (d, ep) in kinds:
            w("  | %s, %s => %s" % (COQDIR[d], "true" if ep else "false", table[(d, ep)]))
        w("  end.")

    # ---- changeBasis on a rank-2 object: every ordered pair of axis kinds --------------
    pair = {}
    for a in kinds:
        for b in kinds:
            env = base_env()
            env.update({"self.rank": 2, "self.basis": ("Chebyshev", "Chebyshev"),
                        "newBasis": ("Cardinal", "Cardinal"),
                        "self.direction": (a[0], b[0]), "self.endpoints": (a[1], b[1]),
                        "inverseTranspose": False})
            it = Interp(env)
            it.run_method(ms["changeBasis"])
            cs = [c for c in it.calls if c[0] == "self.chebyshev"]
            if len(cs) != 2:
                raise TranslateError("changeBasis: expected one self.chebyshev call per "
                                     "axis, saw %d" % len(cs))
            res = []
            for c in cs:
                if len(c[1]) != 3:
                    raise TranslateError("changeBasis: self.chebyshev(x, n, restriction) "
                                         "expected")
                res.append((need_rng(c[1][1], "changeBasis"), c[1][2]))
            pair[(a, b)] = res
    w("(* changeBasis, rank 2: configuration used for the FIRST / SECOND axis *)")
    for which, nm in ((0, "gen_changeBasis_first"), (1, "gen_changeBasis_second")):
        w("Definition %s (d1 : dir) (e1 : bool) (d2 : dir) (e2 : bool) (M N : nat) : axcfg :="
          % nm)
        w("  match d1, e1, d2, e2 with")
        for a in kinds:
            for b in kinds:
                rng, r = pair[(a, b)][which]
                w("  | %s, %s, %s, %s => %s" % (
                    COQDIR[a[0]], "true" if a[1] else "false", COQDIR[b[0]],
                    "true" if b[1] else "false", cfg_coq(rng, r, "changeBasis")))
        w("  end.")
    facts["changeBasis"] = {"%s%s,%s%s" % (a[0], "+" if a[1] else "-", b[0],
                                           "+" if b[1] else "-"):
                            [(repr(r[0]), r[1]) for r in pair[(a, b)]]
                            for a in kinds for b in kinds}

    # ---- changeBasis: which matrix is contracted with the coefficients ---------------------
    w("(* changeBasis: the matrix applied along an axis, as an expression in the matrix T of")
    w("   basis-function values: to Chebyshev / to Cardinal, with / without inverseTranspose *)")
    w("Inductive mexpr := MT | MInv (m : mexpr) | MTr (m : mexpr).")
    tabm = {}

    def canon(par):
        e = "(MInv MT)" if par[0] else "MT"
        return "(MTr %s)" % e if par[1] else e

    for tocheb in (True, False):
        for itr in (True, False):
            seen = set()
            for (d, ep) in kinds:
                ref = None
                for rank in range(1, 7):        # the rank must not matter (it is concrete here)
                    env = base_env()
                    env.update({"self.rank": rank,
                                "self.basis": rank * ("Cardinal" if tocheb else "Chebyshev",),
                                "newBasis": rank * ("Chebyshev" if tocheb else "Cardinal",),
                                "self.direction": rank * (d,),
                                "self.endpoints": rank * (ep,),
                                "inverseTranspose": itr})
                    it = Interp(env)
                    it.run_method(ms["changeBasis"])
                    cs = [c for c in it.calls if c[0] == "contract"]
                    ch = [c for c in it.calls if c[0] == "self.chebyshev"]
                    if len(cs) != rank or len(ch) != rank:
                        raise TranslateError(
                            "changeBasis: expected one contraction np.sum(matrix * "
                            "expand_dims(coefficients, i), axis=i+1) per axis (rank %d)" % rank)
                    for c, h in zip(cs, ch):
                        key = (c[1][0].parity(), need_rng(h[1][1], "changeBasis").lo.key(),
                               need_rng(h[1][1], "changeBasis").hi.key(), h[1][2],
                               ast.dump(c[2].keywords[0].value) if c[2].keywords else None)
                        if ref is None:
                            ref = key
                        if key != ref:
                            raise TranslateError("changeBasis treats an axis differently "
                                                 "depending on the rank or on its position "
                                                 "(rank %d)" % rank)
                seen.add(ref[0])
            if len(seen) != 1:
                raise TranslateError("changeBasis: the matrix expression depends on the "
                                     "direction / end points")
            tabm[(tocheb, itr)] = canon(seen.pop())
    w("Definition gen_cb_matrix (toCheb inverseTranspose : bool) : mexpr :=")
    w("  match toCheb, inverseTranspose with")
    for k in ((True, True), (True, False), (False, True), (False, False)):
        w("  | %s, %s => %s" % ("true" if k[0] else "false", "true" if k[1] else "false",
                                tabm[k]))
    w("  end.")
    # 'Array' axes are skipped whatever the requested label says
    skips = True
    for nb in (("Array", "Cardinal"), ("Cardinal", "Cardinal"), ("Chebyshev", "Cardinal")):
        env = base_env()
        env.update({"self.rank": 2, "self.basis": ("Array", "Chebyshev"), "newBasis": nb,
                    "self.direction": ("z", "pp"), "self.endpoints": (False, False),
                    "inverseTranspose": False})
        it = Interp(env)
        it.run_method(ms["changeBasis"])
        cs = [c for c in it.calls if c[0] == "self.chebyshev"]
        skips = skips and len(cs) == 1 and isinstance(cs[0][1][1], Rng) and \
            cs[0][1][2] == "partial"
    w("Definition gen_cb_skips_array_axes : bool := %s." % ("true" if skips else "false"))
    facts["changeBasis_matrix"] = {"%s/%s" % k: v for k, v in tabm.items()}

    # ---- evaluate --------------------------------------------------------------------
    tcard, tcheb = {}, {}
    for (d, ep) in kinds:
        for basis, tab in (("Cardinal", tcard), ("Chebyshev", tcheb)):
            env = base_env()
            env.update({"self.rank": 1, "self.basis": (basis,), "self.direction": (d,),
                        "self.endpoints": (ep,), "axes": (0,)})
            it = Interp(env)
            it.run_method(ms["evaluate"])
            want = "self.cardinal" if basis == "Cardinal" else "self.chebyshev"
            cs = [c for c in it.calls if c[0] in ("self.cardinal", "self.chebyshev")]
            if len(cs) != 1 or cs[0][0] != want:
                raise TranslateError("evaluate(%s): expected exactly one %s call" % (
                    basis, want))
            a = cs[0][1]
            if basis == "Cardinal":
                if len(a) != 3 or a[2] != d:
                    raise TranslateError("evaluate: self.cardinal(x, n, direction)")
                tab[(d, ep)] = cfg_coq(need_rng(a[1], "evaluate"), None, "evaluate")
            else:
                if len(a) != 3:
                    raise TranslateError("evaluate: self.chebyshev(x, n, restriction)")
                tab[(d, ep)] = cfg_coq(need_rng(a[1], "evaluate"), a[2], "evaluate")
    match2("gen_evalCard", "(d : dir) (ep : bool) (M N : nat) : axcfg", tcard)
    match2("gen_evalCheb", "(d : dir) (ep : bool) (M N : nat) : axcfg", tcheb)

    # ---- _chebyshevMatrix ---------------------------------------------------------------
    tab = {}
    for (d, ep) in kinds:
        env = base_env()
        env.update({"direction": d, "endpoints": ep})
        it = Interp(env)
        it.run_method(ms["_chebyshevMatrix"])
        cs = [c for c in it.calls if c[0] == "self.chebyshev"]
        if len(cs) != 1 or len(cs[0][1]) != 3:
            raise TranslateError("_chebyshevMatrix: one self.chebyshev(x, n, r) call")
        rng = need_rng(cs[0][1][1], "_chebyshevMatrix")
        g = cs[0][1][0]
        if not isinstance(g, GridV) or g.size != grid_size(d, ep):
            raise TranslateError("_chebyshevMatrix: evaluated on an unexpected grid")
        # express relative to the size of the node array (size = grid.size)
        lo = rng.lo
        hi = rng.hi - g.size
        if (lo.aM, lo.aN, hi.aM, hi.aN) != (0, 0, 0, 0):
            raise TranslateError("_chebyshevMatrix: range is not arange(size) + const")
        tab[(d, ep)] = "mkcfg %d (size + %d) %s" % (lo.c, hi.c, restr_coq(
            cs[0][1][2], "_chebyshevMatrix"))
    match2("gen_chebMatrix", "(d : dir) (ep : bool) (size : nat) : axcfg", tab)

    # ---- _chebyshevDeriv ----------------------------------------------------------------
    tab, corr = {}, {}
    for (d, ep) in kinds:
        env = base_env()
        env.update({"direction": d, "endpoints": ep})
        it = Interp(env, watch="*")
        it.run_method(ms["_chebyshevDeriv"])
        cs = [c for c in it.calls if c[0] == "eval_chebyu"]
        if len(cs) != 1 or len(cs[0][1]) != 2:
            raise TranslateError("_chebyshevDeriv: one eval_chebyu(n - 1, grid) call")
        rng = need_rng(cs[0][1][0], "_chebyshevDeriv").shift(1)
        g = cs[0][1][1]
        if not isinstance(g, GridV) or g.size != grid_size(d, True):
            raise TranslateError("_chebyshevDeriv: not evaluated on the complete grid")
        # the variable holding  n * U_{n-1}(x)  (either order of the factors)
        dvar = None
        for e in it.events:
            if e[0] != "init":
                continue
            nd = strip_neutral(e[2])
            if isinstance(nd, ast.BinOp) and isinstance(nd.op, ast.Mult):
                for u, v in ((nd.left, nd.right), (nd.right, nd.left)):
                    if strip_neutral(v) is cs[0][2] and same_value(
                            it.ev(it.strip_index(u)), rng):
                        dvar = e[1]
        if dvar is None:
            raise TranslateError("_chebyshevDeriv: result is not n * eval_chebyu(n - 1, x)")
        hi = rng.hi - g.size
        if (rng.lo.aM, rng.lo.aN) != (0, 0) or hi.key() != (0, 0, 0):
            raise TranslateError("_chebyshevDeriv: range is not arange(const, grid.size)")
        augs = [e for e in it.events if e[0] == "aug" and e[1] == dvar]
        if len(augs) > 1:
            raise TranslateError("_chebyshevDeriv: more than one correction")
        if augs:
            idx, op, node, _v = augs[0][2]
            pw = parity_where(node, it, rng, None)
            if idx is not None or op != "Sub" or pw != (0, 1):
                raise TranslateError("_chebyshevDeriv: correction is not "
                                     "`deriv -= np.where(n % 2 == 0, 0, 1)`")
        corr[(d, ep)] = "true" if augs else "false"
        r = it.env.get("restriction")
        tab[(d, ep)] = "mkcfg %d gridsize %s" % (rng.lo.c, restr_coq(r, "_chebyshevDeriv"))
    match2("gen_chebDeriv", "(d : dir) (ep : bool) (gridsize : nat) : axcfg", tab)
    match2("gen_chebDeriv_corr", "(d : dir) (ep : bool) : bool", corr)
    facts["chebDeriv_corr"] = {"%s%s" % (d, "+" if ep else "-"): corr[(d, ep)]
                               for (d, ep) in kinds}
    w("(* one entry of _chebyshevDeriv *)")
    w("Definition gen_chebyshevDeriv {T} (O : Ops T) (x : T) (n : nat) (d : dir) (ep : bool) : T :=")
    w("  let dd := omul O (onat O n) (chebUm1 O n x) in")
    w("  if gen_chebDeriv_corr d ep then osub O dd (if Nat.even n then o0 O else o1 O) else dd.")

    # ---- _cardinalDeriv: rows kept ---------------------------------------------------------
    tab = {}
    for (d, ep) in kinds:
        env = base_env()
        env.update({"direction": d, "endpoints": ep})
        it = Interp(env, watch="*")
        it.run_method(ms["_cardinalDeriv"])
        gv = [v for k, v in it.env.items() if isinstance(v, GridV)]
        if len(gv) != 1 or gv[0].size != grid_size(d, True):
            raise TranslateError("_cardinalDeriv: not built on the complete grid")
        # the full matrix is the variable initialised by a three-argument np.where
        full = [e[1] for e in it.events if e[0] == "init" and isinstance(e[2], ast.Call)
                and it.name_of(e[2].func) == "np.where" and len(e[2].args) == 3]
        ev = [e for e in it.events if e[0] in ("slice", "alias") and full and e[1] == full[-1]]
        if len(ev) != 1:
            raise TranslateError("_cardinalDeriv: expected one selection of rows")
        if ev[0][0] == "alias":
            lo, hi = 0, 0
        else:
            sl = ev[0][2]
            if isinstance(sl, ast.Tuple) and len(sl.elts) == 2 and \
                    isinstance(sl.elts[1], ast.Slice) and sl.elts[1].lower is None and \
                    sl.elts[1].upper is None and sl.elts[1].step is None:
                sl = sl.elts[0]
            if not (isinstance(sl, ast.Slice) and sl.step is None):
                raise TranslateError("_cardinalDeriv: selection is not [a:-b, :]")
            try:
                lo = 0 if sl.lower is None else ast.literal_eval(sl.lower)
                hi = 0 if sl.upper is None else -ast.literal_eval(sl.upper)
            except ValueError:
                raise TranslateError("_cardinalDeriv: selection is not [a:-b, :]")
            if not (isinstance(lo, int) and isinstance(hi, int) and lo >= 0 and hi >= 0):
                raise TranslateError("_cardinalDeriv: selection is not [a:-b, :]")
        tr = [c for c in it.calls if c[0] == "np.transpose"]
        if len(tr) != 1:
            raise TranslateError("_cardinalDeriv: result is not np.transpose(deriv)")
        tab[(d, ep)] = "(%d, %d)" % (lo, hi)
    match2("gen_cardDeriv_rows", "(d : dir) (ep : bool) : nat * nat", tab)

    # ---- _cardinalMatrix: identity of the size of the node array --------------------------
    if "_cardinalMatrix" not in ms or "matrix" not in ms or "derivMatrix" not in ms:
        raise TranslateError("matrix / derivMatrix / _cardinalMatrix not found")
    tab = {}
    for (d, ep) in kinds:
        env = base_env()
        env.update({"direction": d, "endpoints": ep})
        it = Interp(env)
        it.run_method(ms["_cardinalMatrix"])
        cs = [c for c in it.calls if c[0] == "np.identity"]
        if len(cs) != 1 or len(cs[0][1]) != 1 or len(it.calls) != 1 or \
                getattr(it, "retnode", None) is not cs[0][2] or cs[0][2].keywords:
            raise TranslateError("_cardinalMatrix does not return np.identity(size)")
        tab[(d, ep)] = lin(cs[0][1][0]).coq()
    match2("gen_cardMatrix_size", "(d : dir) (ep : bool) (M N : nat) : nat", tab)

    # ---- dispatchers and default arguments ---------------------------------------------------
    def default_of(fn, arg):
        argn = [a.arg for a in fn.args.args]
        if arg not in argn:
            raise TranslateError("%s has no parameter %s" % (fn.name, arg))
        k = argn.index(arg) - (len(argn) - len(fn.args.defaults))
        if k < 0 or not isinstance(fn.args.defaults[k], ast.Constant):
            raise TranslateError("%s: parameter %s has no constant default" % (fn.name, arg))
        return fn.args.defaults[k].value

    defaults = {m: default_of(ms[m], "endpoints") for m in (
        "matrix", "derivMatrix", "_cardinalMatrix", "_chebyshevMatrix", "_cardinalDeriv",
        "_chebyshevDeriv")}
    disp = {}
    for m, targets in (("matrix", {"Cardinal": "self._cardinalMatrix",
                                   "Chebyshev": "self._chebyshevMatrix"}),
                       ("derivMatrix", {"Cardinal": "self._cardinalDeriv",
                                        "Chebyshev": "self._chebyshevDeriv"})):
        for b, want in targets.items():
            dd, ee = ArrayV("direction"), ArrayV("endpoints")
            it = Interp({"basis": b, "direction": dd, "endpoints": ee})
            it.run_method(ms[m])
            cs = [c for c in it.calls if (c[0] or "").startswith("self._")]
            kw = {k.arg: it.ev(k.value) for k in cs[0][2].keywords} if cs else {}
            ok = (len(cs) == 1 and cs[0][0] == want and
                  getattr(it, "retnode", None) is cs[0][2] and
                  (cs[0][1][0] if cs[0][1] else kw.get("direction")) is dd and
                  (cs[0][1][1] if len(cs[0][1]) > 1 else kw.get("endpoints")) is ee)
            disp[(m, b)] = ok
    w("(* matrix / derivMatrix call the builder of the requested basis with (direction,")
    w("   endpoints) forwarded unchanged: %s *)" % ", ".join(
        "%s(%s): %s" % (m, b, v) for (m, b), v in sorted(disp.items())))
    w("Definition gen_dispatch_forwards : bool := %s." % (
        "true" if all(disp.values()) else "false"))
    w("(* default value of `endpoints` in matrix, derivMatrix and the four builders *)")
    w("Definition gen_default_endpoints : list bool := [%s]." % "; ".join(
        "true" if defaults[m] is True else "false" for m in sorted(defaults)))
    if not all(isinstance(v, bool) for v in defaults.values()):
        raise TranslateError("default of `endpoints` is not a bool")
    facts["dispatch"] = {"%s/%s" % k: v for k, v in disp.items()}
    facts["default_endpoints"] = defaults

    # ---- integrate: weights -----------------------------------------------------------------
    tdiv, thalf = {}, {}
    for (d, ep) in kinds:
        env = base_env()
        env.update({"self.rank": 1, "self.basis": ("Cardinal",), "self.direction": (d,),
                    "self.endpoints": (ep,), "axis": (0,), "weight": 1})
        it = Interp(env, watch="*")
        it.run_method(ms["integrate"])
        # the weights: the variable initialised with  pi * ones(size of the node array)
        wv = [e for e in it.events if e[0] == "init" and isinstance(e[3], ConstArr)]
        if len(wv) != 1 or wv[0][3].val != "pi" or wv[0][3].size != grid_size(d, ep):
            raise TranslateError("integrate: weights are not pi * ones(number of nodes)")
        wname = wv[0][1]
        xs = [k for k, v in it.env.items() if isinstance(v, GridV) and "." not in k]
        divs, halves = [], []
        for e in it.events:
            if e[0] != "aug" or e[1] != wname:
                continue
            idx, op, node, val = e[2]
            if op != "Div":
                raise TranslateError("integrate: unexpected update of weights")
            if idx is None:
                divs.append(lin(val))
            else:
                if val != 2:
                    raise TranslateError("integrate: end weights are not halved")
                halves.append(idx)
        if len(divs) != 1:
            raise TranslateError("integrate: weights divided %d times" % len(divs))
        mul = [e for e in it.events if e[0] in ("aug", "rebind") and e[1] != wname and
               isinstance(e[2][2], ast.Call) and
               it.name_of(e[2][2].func) == "np.expand_dims"]
        if len(mul) != 1 or mul[0][2][1] != "Mult" or mul[0][2][0] is not None:
            raise TranslateError("integrate: integrand *= ... expected once per axis")
        node = mul[0][2][2]
        if not (isinstance(node, ast.Call) and it.name_of(node.func) == "np.expand_dims"
                and node.args and integrand_factor(it, node.args[0], wname, xs)):
            raise TranslateError("integrate: factor is not sqrt(1 - x**2) * weights")
        tdiv[(d, ep)] = divs[0].coq()
        thalf[(d, ep)] = "[%s]" % "; ".join("(%d)%%Z" % h for h in halves)
    match2("gen_int_div", "(d : dir) (ep : bool) (M N : nat) : nat", tdiv)
    match2("gen_int_halved", "(d : dir) (ep : bool) : list Z", thalf)

    # ---- integrate: is the array that is multiplied IN PLACE a fresh one? --------------
    # (no weight given / weight=None / an explicit weight array)
    fn = ms["integrate"]
    argn = [a.arg for a in fn.args.args]
    if "weight" not in argn:
        raise TranslateError("integrate: no `weight` parameter")
    k = argn.index("weight") - (len(argn) - len(fn.args.defaults))
    if k < 0 or not isinstance(fn.args.defaults[k], ast.Constant):
        raise TranslateError("integrate: `weight` has no constant default")
    scen = (("WDefault", fn.args.defaults[k].value), ("WNone", None),
            ("WArray", ArrayV("weight")))
    fresh = {}
    for nm, wv in scen:
        env = base_env()
        env.update({"self.rank": 1, "self.basis": ("Cardinal",), "self.direction": ("z",),
                    "self.endpoints": (False,), "axis": (0,), "weight": wv})
        it = Interp(env, watch="*")
        it.run_method(ms["integrate"])
        ivar = [e[1] for e in it.events if e[0] in ("aug", "rebind") and e[2][0] is None and
                e[2][1] == "Mult" and isinstance(e[2][2], ast.Call) and
                it.name_of(e[2][2].func) == "np.expand_dims"]
        if len(ivar) != 1:
            raise TranslateError("integrate: the product with the quadrature factor was "
                                 "not found")
        ivar = ivar[0]
        evs = [e for e in it.events if e[1] == ivar and e[0] in ("init", "aug", "rebind")]
        state = None        # freshness of the array currently bound to the integrand
        for e in evs:
            if e[0] == "rebind":
                state = True        # x = x * e allocates: nothing is updated in place
                break
            if e[0] == "init":
                state = fresh_expr(e[2], {ivar: state})
            else:
                if state is None:
                    raise TranslateError("integrate: integrand updated before assignment")
                break
        fresh[nm] = state
    w("(* integrate: the array updated in place is freshly allocated (not an alias of")
    w("   self.coefficients / of the caller's array) *)")
    w("Inductive wkind := WDefault | WNone | WArray.")
    w("Definition gen_int_fresh (w : wkind) : bool :=")
    w("  match w with %s end." % " | ".join(
        "%s => %s" % (nm, "true" if fresh[nm] else "false") for nm, _ in scen))
    facts["integrate_fresh"] = fresh
    unsafe = alias_scan(ms)
    w("(* in-place updates, in any method, of an array that may be the operand's own")
    w("   coefficients, an argument, or an attribute: %s *)" % (
        "; ".join("%s line %d: %s" % u for u in unsafe).replace("*)", "* )") or "none"))
    w("Definition gen_inplace_on_operand : nat := %d." % len(unsafe))
    facts["inplace_on_operand"] = [list(u) for u in unsafe]

    # ---- chebyshev: what is subtracted ---------------------------------------------------------
    subs = {}
    params = [a.arg for a in ms["chebyshev"].args.args]
    if len(params) != 4:
        raise TranslateError("chebyshev(self, x, n, restriction) expected")
    for r in (None, "partial", "full"):
        xv, nv = ArrayV("x"), ArrayV("n")
        env = {params[1]: xv, params[2]: nv, params[3]: r}
        it = Interp(env, watch="*")
        it.run_method(ms["chebyshev"])
        cs = [c for c in it.calls if c[0] == "eval_chebyt"]
        if len(cs) != 1 or len(cs[0][1]) != 2 or cs[0][1][0] is not nv or \
                cs[0][1][1] is not xv or cs[0][2].keywords:
            raise TranslateError("chebyshev: not eval_chebyt(n, x) of the two arguments")
        cvar = [e[1] for e in it.events if e[0] == "init" and strip_neutral(e[2]) is cs[0][2]]
        if len(cvar) != 1:
            raise TranslateError("chebyshev: the result is not eval_chebyt(n, x)")
        augs = [e for e in it.events if e[0] == "aug" and e[1] == cvar[0]]
        if [e for e in it.events if e[0] == "init" and e[1] == cvar[0]][1:]:
            raise TranslateError("chebyshev: the result is reassigned")
        if len(augs) > 1:
            raise TranslateError("chebyshev: more than one restriction term")
        if not augs:
            subs[r] = None
            continue
        idx, op, node, val = augs[0][2]
        if idx is not None or op != "Sub":
            raise TranslateError("chebyshev: restriction is not a subtraction")
        if isinstance(node, ast.Constant) and node.value in (0, 1):
            subs[r] = (node.value, node.value)
        else:
            pw = parity_where(node, it, nv, xv)
            if pw is None:
                raise TranslateError("chebyshev: unsupported restriction term %s" %
                                     ast.unparse(node))
            subs[r] = pw
    w("(* Polynomial.chebyshev *)")
    w("Definition gen_chebyshev {T} (O : Ops T) (x : T) (n : nat) (r : restr) : T :=")
    w("  match r with")
    for r, nm in ((None, "RNone"), ("full", "RFull"), ("partial", "RPartial")):
        if subs[r] is None:
            w("  | %s => chebT O n x" % nm)
        else:
            a, b = subs[r]
            w("  | %s => osub O (chebT O n x) (if Nat.even n then %s else %s)" % (
                nm, leaf_coq(a), leaf_coq(b)))
    w("  end.")
    facts["chebyshev_sub"] = {str(k): v for k, v in subs.items()}
    return "\n".join(out) + "\n", facts


if __name__ == "__main__":
    import sys
    text, facts = generate(open(sys.argv[1] if len(sys.argv) > 1 else
                                "/repo/src/WallGo/polynomial.py").read())
    print(text)
