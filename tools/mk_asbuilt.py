"""Regenerates section 10 of DESIGN.md (everything after the marker) from the manifest entries, known findings and seeded metas."""
import glob, json, os, re, textwrap
V = os.path.dirname(os.path.dirname(os.path.abspath(__file__)))
MARK = "<!-- AS-BUILT: generated below this line by tools/mk_asbuilt.py -->"

def wrap(s, ind="  "):
    return "\n".join(textwrap.wrap(s, 112, initial_indent=ind, subsequent_indent=ind))

def main():
    d = open(os.path.join(V, "DESIGN.md")).read()
    if MARK in d:
        d = d[:d.index(MARK)]
    out = [d.rstrip() + "\n\n" + MARK + "\n", open(os.path.join(V, "tools/design_asbuilt_head.md")).read()]
    kf = json.load(open(os.path.join(V, "known_findings.json")))
    out.append("### 10.3 Genuine defects of Wall-Go/WallGo found\n")
    out.append("**Repaired by `fix:` commits in /repo** (each small, unguarded, test suite unchanged at 152 passed; replay scripts under `findings/`):\n")
    for f in kf["fixed"]:
        out.append(wrap("* " + f[len("fixed: "):], "") + "\n")
    out.append("\n**Recorded as known findings** (`known_findings.json`; the check prints `KNOWN-FINDING:` and exits 0; any other failure of the same property is still a VIOLATION):\n")
    for f in kf["findings"]:
        out.append(wrap("* **%s / %s** — %s *Why not fixed:* %s" % (f["property"], f["key"], f["what"], f.get("why_not_fixed", "")), "") + "\n")
    out.append("\n### 10.4 Per property: what is proved, what ties it to the code, what is assumed\n")
    ents = {}
    for fn in sorted(glob.glob(os.path.join(V, "tools/manifest_entries/C*.py"))):
        ns = {}; exec(open(fn).read(), ns); ents[os.path.basename(fn)[:-3]] = ns["ENTRY"]
    titles = {json.loads(l)["id"]: json.loads(l)["title"] for l in open(os.path.join(V, "properties.jsonl"))}
    for pid in sorted(titles):
        out.append("#### %s — %s\n" % (pid, titles[pid]))
        if pid not in ents:
            out.append("  (check not registered in this revision)\n")
            continue
        e = ents[pid]
        out.append(wrap("*Claim.* " + e["text"]) + "\n")
        out.append(wrap("*Trusted / assumed.* " + e["note"]) + "\n")
        out.append(wrap("*Technique.* " + e["technique"]) + "\n")
        sd = sorted(glob.glob(os.path.join(V, "seeded/%s-*/meta.json" % pid)))
        for m in sd:
            mj = json.load(open(m))
            out.append(wrap("*Seeded %s.* %s — needs: %s — **%s**" % (
                os.path.basename(os.path.dirname(m)), mj.get("summary", "")[:400], str(mj.get("needs_to_manifest", ""))[:300], mj.get("check_result", "")), "  ") + "\n")
        out.append("")
    tail = os.path.join(V, "tools/design_asbuilt_tail.md")
    if os.path.exists(tail):
        out.append(open(tail).read())
    open(os.path.join(V, "DESIGN.md"), "w").write("\n".join(out))
    print("DESIGN.md section 10 regenerated")
main()
