"""Generated model for C06 (admissibility / classification of matchings, Jouguet point).

Translates, with pyrx, the *formulas* of hydrodynamics.py and hydrodynamicsTemplateModel.py
that decide which kind of solution a matching is:

  Hydrodynamics
    vpvmAndvpovm                         -> vpvmAndvpovm
    matchDeflagOrHyb / closure matching  -> matching_entropy (vp is None), matching_fixed
    matchDeflagOrHyb, code after root()  -> deflag_ret_entropy, deflag_ret_fixed
    matchDeton / closure tmFromvpsq      -> deton_residual
    matchDeton, code after root_scalar() -> deton_ret
    findJouguetVelocity / vpDerivNum     -> vpDerivNum
    findJouguetVelocity, code after root -> vJ_of_tm
  HydrodynamicsTemplateModel
    findJouguetVelocity(alN)             -> t_findJouguetVelocity
    detonationVAndT                      -> t_detonationVAndT
    getVp                                -> t_getVp
    findMatching: the alpha_+ formula    -> t_alpha_plus        (eq. 20a solved for alpha)
    __init__: cb, cs, nu, mu             -> t_init_cb ... (the relations between attributes)

Solver calls (scipy root / root_scalar / minimize_scalar) are NOT modelled: their results
are the parameters Tp, Tm, tmSol of the `*_ret` definitions.  The extraction of "the code
after the solver call" is fail-closed: every statement that is not skipped by one of the
explicit rules below goes through pyrx (which raises TranslateError on anything outside
its subset).
"""
import ast

import pyrx
from pyrx import Pattern, TranslateError, Env


class Tr(pyrx.ClassTranslator):
    """pyrx + three idioms of the hydrodynamics code:
       * `x is None` / `x is not None` tests, decided statically by `none_vars`
         (specialisation of an optional parameter);
       * `if cond: raise ...` (no else) is an error exit: recorded, not modelled;
       * np.isnan(x) inside such an error test."""

    def __init__(self, *a, **k):
        super().__init__(*a, **k)
        self.none_vars = {}
        self.error_exits = []

    def _static_none(self, node):
        if isinstance(node, ast.Compare) and len(node.ops) == 1 and \
                isinstance(node.ops[0], (ast.Is, ast.IsNot)) and \
                isinstance(node.left, ast.Name) and \
                isinstance(node.comparators[0], ast.Constant) and \
                node.comparators[0].value is None:
            if node.left.id not in self.none_vars:
                raise TranslateError("None-test on %s which is not specialised (line %d)"
                                     % (node.left.id, node.lineno))
            isnone = self.none_vars[node.left.id]
            return isnone if isinstance(node.ops[0], ast.Is) else not isnone
        return None

    def block(self, stmts, env, k):
        if stmts and isinstance(stmts[0], ast.If):
            st = stmts[0]
            sn = self._static_none(st.test)
            if sn is not None:
                return self.block((st.body if sn else st.orelse) + stmts[1:], env, k)
            if not st.orelse and len(st.body) == 1 and isinstance(st.body[0], ast.Raise):
                self.error_exits.append(ast.unparse(st.test))
                return self.block(stmts[1:], env, k)
        return super().block(stmts, env, k)

    # -- code after a solver call ------------------------------------------------------
    def tail(self, method, coq_name, opaque, bind=None, skip_assign=()):
        """Definition of what `method` returns as a function of its parameters and of the
        `opaque` locals (results of solvers).  Statements of the method body are
        processed in order:
          - nested defs are remembered (closures), docstrings ignored;
          - a statement that assigns an opaque local, or calls a scipy solver, is skipped;
          - `bind`: {python unpack-target source text: [coq names]} -- e.g.
            `[Tp, Tm] = self._inverseMappingT(sol.x)` binds Tp, Tm to parameters;
          - assignments to self.<x> for x in skip_assign are skipped (status flags);
          - `while` loops and `try` blocks are only allowed if the remaining code does
            not use anything they assign (they only prepare brackets for solvers);
          - everything else is translated by pyrx.
        """
        fn = self.fn.get(method)
        if fn is None:
            raise TranslateError("method %s not found" % method)
        bind = bind or {}
        ps = self.params(fn)
        env = Env()
        for p, _ in ps:
            env.v[p] = p
        for o in opaque:
            env.v[o] = o
        kept = []
        seen_bind = set()
        dead = set()          # names assigned only by skipped bracket-preparation code
        solver_at = [i for i, st in enumerate(fn.body) if _calls_solver(st)]
        last_solver = max(solver_at) if solver_at else -1
        for idx, st in enumerate(fn.body):
            if isinstance(st, ast.Expr) and isinstance(st.value, ast.Constant):
                continue
            if isinstance(st, ast.FunctionDef):
                continue
            if isinstance(st, ast.Assign) and len(st.targets) == 1:
                tg = st.targets[0]
                src = ast.unparse(st)
                if src in bind:
                    seen_bind.add(src)
                    continue
                if isinstance(tg, ast.Attribute) and isinstance(tg.value, ast.Name) and \
                        tg.value.id == "self" and tg.attr in skip_assign:
                    continue
            stored = _stored(st)
            if stored & set(opaque):
                # Before / at the last solver call such a statement only prepares what the
                # solver is given (the opaque names are universally quantified parameters).
                # AFTER it, the only thing that may touch an opaque name is the acceptance of
                # the solver's result (`if res.converged: x = res.root else: raise`); anything
                # else (clamping, rounding, re-solving by hand ...) changes what is returned
                # and is not modelled: fail closed.
                if idx > last_solver and not _is_acceptance(st, opaque):
                    raise TranslateError(
                        "%s: `%s` (line %d) re-assigns the solver result %s after it was "
                        "accepted" % (method, ast.unparse(st).splitlines()[0][:70], st.lineno,
                                      sorted(stored & set(opaque))))
                # must not assign anything else that later code needs
                dead |= stored - set(opaque)
                continue
            if _calls_solver(st) or isinstance(st, (ast.While, ast.Try)):
                dead |= stored
                continue
            if isinstance(st, ast.If) and _only_raises(st):
                self.error_exits.append(ast.unparse(st.test))
                continue
            kept.append(st)
        if seen_bind != set(bind):
            raise TranslateError("%s: expected statement(s) %s not found" % (
                method, sorted(set(bind) - seen_bind)))
        # dead-name check: kept code must not read a name whose only definitions were skipped
        defined = set(env.v) | {x for names in bind.values() for x in names}
        for st in kept:
            used = {n.id for n in ast.walk(st) if isinstance(n, ast.Name) and
                    isinstance(n.ctx, ast.Load)}
            bad = (used & dead) - defined
            if bad:
                raise TranslateError("%s: code after the solver uses %s, which is set by "
                                     "untranslated solver code (line %d)" % (
                                         method, sorted(bad), st.lineno))
            defined |= _stored(st)
        for names in bind.values():
            for x in names:
                env.v[x] = x
        # backward slice: keep only what the return value needs (bracket guesses etc. drop out)
        kept = _slice(kept)
        body = self.block(kept, env, lambda e: pyrx._fail(
            "%s can fall off its end" % method))
        allp = ps + [(o, "R") for o in opaque] + \
            [(x, "R") for names in bind.values() for x in names]
        used = [p for p in allp if pyrx._mentions_word(body, p[0])]
        args = " ".join("(%s : %s)" % p for p in used)
        self.spans[coq_name] = (fn.lineno, fn.end_lineno, pyrx._sha(ast.unparse(fn)))
        return "Definition %s (e : %senv) %s :=\n  %s." % (coq_name, self.prefix, args,
                                                           body), [p[0] for p in used]

    def closure_on(self, method, cname, coq_name, tuples, first_stmt=None, extra=()):
        """Closure `cname` of `method` whose list-valued locals are given as tuples of
        parameters: tuples = {"Tpm": ["Tp","Tm"], ...}.  `first_stmt`: source text of a
        statement of the closure that defines such a tuple from the solver's unknowns
        (skipped; e.g. 'Tpm = self._inverseMappingT(mappedTpTm)')."""
        fn = self.fn.get(method)
        if fn is None:
            raise TranslateError("method %s not found" % method)
        target = None
        prefix = []
        for st in fn.body:
            if isinstance(st, ast.FunctionDef) and st.name == cname:
                target = st
                break
            prefix.append(st)
        if target is None:
            raise TranslateError("closure %s not found in %s" % (cname, method))
        env = Env()
        ps = self.params(fn)
        for p, _ in ps:
            env.v[p] = p
        newp = []
        for nm, parts in tuples.items():
            env.v[(nm, "tuple")] = list(parts)
            env.v[nm] = "(" + ", ".join(parts) + ")"
            newp += [(x, "R") for x in parts]
        body = [s for s in target.body
                if not (isinstance(s, ast.Expr) and isinstance(s.value, ast.Constant))]
        if first_stmt is not None:
            if not body or ast.unparse(body[0]) != first_stmt:
                raise TranslateError("closure %s does not start with `%s`" % (cname,
                                                                              first_stmt))
            body = body[1:]
        # prefix statements of the method that the closure needs (none expected besides
        # parameters; anything else must be translatable)
        need = {n.id for s in body for n in ast.walk(s) if isinstance(n, ast.Name) and
                isinstance(n.ctx, ast.Load)}
        pre = []
        for st in reversed(prefix):
            if isinstance(st, (ast.FunctionDef,)) or (
                    isinstance(st, ast.Expr) and isinstance(st.value, ast.Constant)):
                continue
            stored = _stored(st)
            if stored & need and not (stored <= set(tuples)):
                pre.append(st)
                need |= {n.id for n in ast.walk(st) if isinstance(n, ast.Name) and
                         isinstance(n.ctx, ast.Load)}
        pre.reverse()
        text = self.block(pre + body, env, lambda e: pyrx._fail(
            "closure %s can fall off its end" % cname))
        allp = ps + newp + list(extra)
        used = [p for p in allp if pyrx._mentions_word(text, p[0])]
        args = " ".join("(%s : %s)" % p for p in used)
        self.spans[coq_name] = (target.lineno, target.end_lineno,
                                pyrx._sha(ast.unparse(target)))
        return "Definition %s (e : %senv) %s :=\n  %s." % (coq_name, self.prefix, args,
                                                           text), [p[0] for p in used]

    def init_relation(self, attr, coq_name):
        """`self.attr = expr` in __init__  ->  Definition coq_name e : Prop := attr e = expr."""
        fn = self.fn.get("__init__")
        found = None
        for st in ast.walk(fn):
            if isinstance(st, ast.Assign) and len(st.targets) == 1 and \
                    ast.unparse(st.targets[0]) == "self." + attr:
                if found is not None:
                    raise TranslateError("__init__ assigns self.%s twice" % attr)
                found = st
        if found is None:
            raise TranslateError("__init__ does not assign self.%s" % attr)
        rhs = self.expr(found.value, Env())
        self.spans[coq_name] = (found.lineno, found.end_lineno,
                                pyrx._sha(ast.unparse(found)))
        return "Definition %s (e : %senv) : Prop := %s e = %s." % (
            coq_name, self.prefix, self.an(attr), rhs)

    def branch_test(self, method, callee, coq_name, params):
        """The test of the top-level `if` of `method` whose body hands over to
        self.<callee>(...) (which family of solutions is computed), as a boolean."""
        fn = self.fn.get(method)
        found = []
        for st in fn.body:
            if isinstance(st, ast.If) and any(
                    isinstance(n, ast.Call) and isinstance(n.func, ast.Attribute) and
                    n.func.attr == callee for b in st.body for n in ast.walk(b)):
                found.append(st)
        if len(found) != 1:
            raise TranslateError("%s: expected exactly one top-level `if` dispatching to %s"
                                 % (method, callee))
        env = Env()
        for p in params:
            env.v[p] = p
        t = self.test(found[0].test, env)
        self.spans[coq_name] = (found[0].lineno, found[0].lineno,
                                pyrx._sha(ast.unparse(found[0].test)))
        return "Definition %s (e : %senv) %s : bool :=\n  if %s then true else false." % (
            coq_name, self.prefix, " ".join("(%s : R)" % p for p in params), t)

    def first_formula(self, method, local, coq_name, params):
        """like local_formula, for a local that is assigned a closed formula first and may be
        re-solved later: the first assignment `local = expr` (no solver call in expr)"""
        fn = self.fn.get(method)
        found = [st for st in ast.walk(fn) if isinstance(st, ast.Assign) and
                 len(st.targets) == 1 and isinstance(st.targets[0], ast.Name) and
                 st.targets[0].id == local]
        found.sort(key=lambda st: st.lineno)
        if not found or _calls_solver(found[0]):
            raise TranslateError("%s: no closed-form first assignment to %s" % (method, local))
        env = Env()
        for p in params:
            env.v[p] = p
        rhs = self.expr(found[0].value, env)
        self.spans[coq_name] = (found[0].lineno, found[0].end_lineno,
                                pyrx._sha(ast.unparse(found[0])))
        return "Definition %s (e : %senv) %s :=\n  %s." % (
            coq_name, self.prefix, " ".join("(%s : R)" % p for p in params), rhs)

    def local_formula(self, method, local, coq_name, params):
        """The right-hand side of the (single) assignment `local = expr` in `method`, as a
        function of `params` (names free in expr)."""
        fn = self.fn.get(method)
        found = [st for st in ast.walk(fn) if isinstance(st, ast.Assign) and
                 len(st.targets) == 1 and isinstance(st.targets[0], ast.Name) and
                 st.targets[0].id == local]
        if len(found) != 1:
            raise TranslateError("%s: expected exactly one assignment to %s, found %d" % (
                method, local, len(found)))
        env = Env()
        for p in params:
            env.v[p] = p
        rhs = self.expr(found[0].value, env)
        self.spans[coq_name] = (found[0].lineno, found[0].end_lineno,
                                pyrx._sha(ast.unparse(found[0])))
        return "Definition %s (e : %senv) %s :=\n  %s." % (
            coq_name, self.prefix, " ".join("(%s : R)" % p for p in params), rhs)


SOLVERS = {"root", "root_scalar", "minimize_scalar", "solve_ivp", "minimize"}


def _stored(st):
    return {n.id for n in ast.walk(st) if isinstance(n, ast.Name) and
            isinstance(n.ctx, ast.Store)}


def _calls_solver(st):
    for n in ast.walk(st):
        if isinstance(n, ast.Call) and isinstance(n.func, ast.Name) and \
                n.func.id in SOLVERS:
            return True
    return False


def _is_acceptance(st, opaque):
    """`x: float` | `if res.converged|success: x = res.root|x  else: raise ...`"""
    import re
    if isinstance(st, ast.AnnAssign) and st.value is None:
        return True
    if not isinstance(st, ast.If):
        return False
    m = re.match(r"^(\w+)\.(converged|success)$", ast.unparse(st.test))
    if not m or m.group(1) not in opaque:
        return False
    for b in st.body:
        if isinstance(b, ast.AnnAssign) and b.value is not None:
            tg, val = b.target, b.value
        elif isinstance(b, ast.Assign) and len(b.targets) == 1:
            tg, val = b.targets[0], b.value
        else:
            return False
        if not (isinstance(tg, ast.Name) and tg.id in opaque and
                re.match(r"^%s\.(root|x)$" % re.escape(m.group(1)), ast.unparse(val))):
            return False
    return bool(st.orelse) and all(isinstance(o, ast.Raise) for o in st.orelse)


def _only_raises(st):
    """`if c: raise` possibly with elif/else that also only raise"""
    for b in (st.body, st.orelse):
        for s in b:
            if isinstance(s, ast.Raise):
                continue
            if isinstance(s, ast.If) and _only_raises(s):
                continue
            return False
    return True


def _slice(stmts):
    """backward slice from the return statements"""
    need = set()
    keep = []
    for st in reversed(stmts):
        if any(isinstance(n, ast.Return) for n in ast.walk(st)):
            keep.append(st)
            need |= {n.id for n in ast.walk(st) if isinstance(n, ast.Name) and
                     isinstance(n.ctx, ast.Load)}
            continue
        stored = _stored(st)
        if stored & need:
            keep.append(st)
            need |= {n.id for n in ast.walk(st) if isinstance(n, ast.Name) and
                     isinstance(n.ctx, ast.Load)}
    keep.reverse()
    return keep



def _solver_call(node, method_name):
    """`root_scalar(f, ..., method="...")` -> (name of f, keyword dict) or None"""
    if isinstance(node, ast.Call) and isinstance(node.func, ast.Name) and \
            node.func.id == "root_scalar" and node.args and isinstance(node.args[0], ast.Name):
        kw = {k.arg: k.value for k in node.keywords}
        m = kw.get("method")
        if isinstance(m, ast.Constant) and m.value == method_name:
            return node.args[0].id, kw
    return None


def jouguet_orchestration(tr):
    """The part of findJouguetVelocity that `tail()` does not see: how the bracket handed to
    the root finder is chosen.  Fail-closed: the method must consist of exactly
        <prefix: pHighT, eHighT, def vpDerivNum>
        Tmin = ...; Tmax = ...; bracket1, bracket2 = vpDerivNum(Tmin), vpDerivNum(Tmax)
        while <test>: <assignments to Tmin, Tmax>; bracket1, bracket2 = vpDerivNum(Tmin), vpDerivNum(Tmax)
        tmSol: float
        if <test2>: rootResult = root_scalar(vpDerivNum, bracket=[..], method="brentq", ..)
        else:       rootResult = root_scalar(vpDerivNum, method="secant", x0=.., x1=.., ..)
        if rootResult.converged: tmSol = rootResult.root  else: raise WallGoError(...)
        vp = ...; return float(vp)
    and __init__ must be `try: self.vJ = self.findJouguetVelocity()  except WallGoError: ...;
    self.vJ = self.template.vJ`.  Emitted: the initial bracket, the loop test, the loop step,
    the brentq/secant test and the bracket / starting points given to the two solvers."""
    fn = tr.fn.get("findJouguetVelocity")
    body = [st for st in fn.body
            if not (isinstance(st, ast.Expr) and isinstance(st.value, ast.Constant))]
    k = [i for i, st in enumerate(body) if isinstance(st, ast.FunctionDef)]
    if len(k) != 1 or body[k[0]].name != "vpDerivNum":
        raise TranslateError("findJouguetVelocity: expected exactly the closure vpDerivNum")
    # a bare annotation (`tmSol: float`) carries no semantics wherever it stands
    rest = [st for st in body[k[0] + 1:]
            if not (isinstance(st, ast.AnnAssign) and st.value is None)]
    BR = ast.unparse(ast.parse("bracket1, bracket2 = vpDerivNum(Tmin), vpDerivNum(Tmax)"))

    def shape(cond, what):
        if not cond:
            raise TranslateError("findJouguetVelocity: unexpected bracket orchestration (%s)"
                                 % what)
    shape(len(rest) == 8, "%d statements after vpDerivNum, expected 8" % len(rest))
    s_tmin, s_tmax, s_br, s_while, s_choice, s_conv, s_vp, s_ret = rest
    for st, nm in ((s_tmin, "Tmin"), (s_tmax, "Tmax")):
        shape(isinstance(st, ast.Assign) and ast.unparse(st.targets[0]) == nm, "initial " + nm)
    shape(isinstance(s_br, ast.Assign) and ast.unparse(s_br) == BR, "initial bracket values")
    shape(isinstance(s_while, ast.While) and not s_while.orelse and
          ast.unparse(s_while.body[-1]) == BR, "while loop re-evaluating the bracket")
    shape(isinstance(s_choice, ast.If) and len(s_choice.body) == 1 and len(s_choice.orelse) == 1
          and all(isinstance(b, ast.Assign) and ast.unparse(b.targets[0]) == "rootResult"
                  for b in (s_choice.body[0], s_choice.orelse[0])), "brentq/secant choice")
    br = _solver_call(s_choice.body[0].value, "brentq")
    sc = _solver_call(s_choice.orelse[0].value, "secant")
    shape(br and br[0] == "vpDerivNum" and "bracket" in br[1] and
          isinstance(br[1]["bracket"], (ast.List, ast.Tuple)) and len(br[1]["bracket"].elts) == 2,
          "brentq call on vpDerivNum with a two-point bracket")
    shape(sc and sc[0] == "vpDerivNum" and "x0" in sc[1] and "x1" in sc[1],
          "secant call on vpDerivNum with x0, x1")
    shape(isinstance(s_conv, ast.If) and ast.unparse(s_conv.test) == "rootResult.converged" and
          len(s_conv.body) == 1 and _is_acceptance(s_conv, ["rootResult", "tmSol"]) and
          len(s_conv.orelse) == 1 and isinstance(s_conv.orelse[0], ast.Raise),
          "only a converged root is accepted, otherwise WallGoError")
    shape(isinstance(s_ret, ast.Return), "return")
    # __init__: the only fallback is the template's vJ on WallGoError
    ini = tr.fn.get("__init__")
    tries = [st for st in ini.body if isinstance(st, ast.Try)]
    shape(len(tries) == 1 and len(tries[0].body) == 1 and
          ast.unparse(tries[0].body[0]) == "self.vJ = self.findJouguetVelocity()" and
          len(tries[0].handlers) == 1 and
          ast.unparse(tries[0].handlers[0].type) == "WallGoError" and
          ast.unparse(tries[0].handlers[0].body[-1]) == "self.vJ = self.template.vJ" and
          not tries[0].orelse and not tries[0].finalbody,
          "__init__: try findJouguetVelocity except WallGoError -> template.vJ")
    others = [st for st in ast.walk(ini) if isinstance(st, ast.Assign) and
              ast.unparse(st.targets[0]) == "self.vJ"]
    shape(len(others) == 2, "__init__ assigns self.vJ elsewhere")

    px = tr.prefix
    defs = []
    # initial bracket
    env = Env()
    t1 = tr.block([s_tmin, s_tmax], env,
                  lambda e: "(%s, %s)" % (e.v["Tmin"], e.v["Tmax"]))
    defs.append("Definition jouguet_init (e : %senv) : R * R :=\n  %s." % (px, t1))
    # loop test on (bracket1, bracket2, Tmin, Tmax)
    env = Env()
    for nm in ("bracket1", "bracket2", "Tmin", "Tmax"):
        env.v[nm] = nm
    defs.append("Definition jouguet_loop_test (e : %senv) (bracket1 bracket2 Tmin Tmax : R) : "
                "bool :=\n  if %s then true else false." % (px, tr.test(s_while.test, env)))
    step = tr.block(s_while.body[:-1], env.copy(),
                    lambda e: "(%s, %s)" % (e.v["Tmin"], e.v["Tmax"]))
    defs.append("Definition jouguet_loop_step (e : %senv) (Tmin Tmax : R) : R * R :=\n  %s."
                % (px, step))
    defs.append("Definition jouguet_use_brentq (e : %senv) (bracket1 bracket2 Tmin Tmax : R) : "
                "bool :=\n  if %s then true else false." % (px, tr.test(s_choice.test, env)))
    a, b = br[1]["bracket"].elts
    defs.append("Definition jouguet_brentq_bracket (e : %senv) (Tmin Tmax : R) : R * R :=\n"
                "  (%s, %s)." % (px, tr.expr(a, env), tr.expr(b, env)))
    defs.append("Definition jouguet_secant_start (e : %senv) (Tmin Tmax : R) : R * R :=\n"
                "  (%s, %s)." % (px, tr.expr(sc[1]["x0"], env), tr.expr(sc[1]["x1"], env)))
    tr.spans["jouguet_orchestration"] = (s_tmin.lineno, s_conv.end_lineno,
                                         pyrx._sha("".join(ast.unparse(x) for x in rest[:6])))
    return "\n".join(defs)

# ---------------------------------------------------------------------------------------
H_ATTRS = ["Tnucl", "vJ", "TMaxLowT", "TMaxHydro", "TMinHydro"]
H_EXT = [Pattern("self.thermodynamics.%s(_0)" % f, f, "R -> R")
         for f in ("pHighT", "pLowT", "eHighT", "eLowT", "wHighT", "wLowT", "dpLowT",
                   "deLowT", "csqLowT", "csqHighT")]


def generate_hydro(src):
    tr = Tr(src, "Hydrodynamics", H_ATTRS, H_EXT, ["vpvmAndvpovm"], state=False)
    tr.ret_arity = {"vpvmAndvpovm": 2}
    defs = [tr.method("vpvmAndvpovm")]
    inv = "Tpm = self._inverseMappingT(mappedTpTm)"
    for nm, isnone in (("matching_entropy", True), ("matching_fixed", False)):
        tr.none_vars = {"vp": isnone}
        d, _ = tr.closure_on("matchDeflagOrHyb", "matching", nm,
                             {"Tpm": ["Tp", "Tm"], "Tpm0": ["Tp0", "Tm0"]}, first_stmt=inv)
        defs.append(d)
    for nm, isnone in (("deflag_ret_entropy", True), ("deflag_ret_fixed", False)):
        tr.none_vars = {"vp": isnone}
        d, _ = tr.tail("matchDeflagOrHyb", nm, opaque=["sol", "Tpm0"],
                       bind={"[Tp, Tm] = self._inverseMappingT(sol.x)": ["Tp", "Tm"]},
                       skip_assign=("success",))
        defs.append(d)
    tr.none_vars = {}
    d, _ = tr.closure("matchDeton", "tmFromvpsq", "deton_residual")
    defs.append(d)
    d, _ = tr.tail("matchDeton", "deton_ret",
                   opaque=["minimizeResult", "Tmax", "rootResult", "Tm"])
    defs.append(d)
    d, _ = tr.closure("findJouguetVelocity", "vpDerivNum", "vpDerivNum")
    defs.append(d)
    d, _ = tr.tail("findJouguetVelocity", "vJ_of_tm", opaque=["rootResult", "tmSol"])
    defs.append(d)
    defs.append(tr.branch_test("findMatching", "matchDeton", "is_detonation", ["vwTry"]))
    defs.append(jouguet_orchestration(tr))
    defs.append(tr.method("_inverseMappingT", types={"mappedTpTm": "R * R"},
                          coq_name="inverseMappingT"))
    defs.append(tr.first_formula("findMatching", "vpmax", "findMatching_vpmax", ["vwTry"]))
    out = [pyrx.COQ_PRELUDE, "From Coq Require Import Bool.\nLocal Open Scope bool_scope.\n"
           "Local Open Scope R_scope.", "(* generated from src/WallGo/hydrodynamics.py *)",
           tr.header()] + defs
    return "\n".join(out) + "\n", tr


T_ATTRS = ["cb2", "cs2", "alN", "psiN", "cb", "cs", "wN", "pN", "Tnucl", "nu", "mu", "vJ"]
T_EXT = [Pattern("self._findTm(_0, _1, _2)", "t_findTm", "R -> R -> R -> R")]


def generate_template(src):
    tr = Tr(src, "HydrodynamicsTemplateModel", T_ATTRS, T_EXT, [], state=False,
            prefix="t_")
    defs = []
    tr.none_vars = {"alN": False}
    defs.append(tr.method("findJouguetVelocity"))
    tr.none_vars = {}
    defs.append(tr.method("detonationVAndT"))
    defs.append(tr.method("getVp"))
    defs.append(tr.local_formula("findMatching", "alp", "t_alpha_plus", ["vp", "vm"]))
    defs.append(tr.local_formula("findMatching", "vm", "t_vm_of_vw", ["vw"]))
    defs.append(tr.branch_test("findMatching", "detonationVAndT", "t_is_detonation", ["vw"]))
    for a in ("cb", "cs", "nu", "mu"):
        defs.append(tr.init_relation(a, "t_init_" + a))
    out = [pyrx.COQ_PRELUDE, "(* generated from src/WallGo/hydrodynamicsTemplateModel.py *)",
           tr.header()] + defs
    return "\n".join(out) + "\n", tr


if __name__ == "__main__":
    import sys
    import vlib
    t, _ = generate_hydro(vlib.read_src("hydrodynamics.py"))
    sys.stdout.write(t)
    t, _ = generate_template(vlib.read_src("hydrodynamicsTemplateModel.py"))
    sys.stdout.write(t)
