"""Driver: ./check Cxx --tier quick|thorough"""
import argparse
import importlib
import json
import os
import sys
import traceback

sys.path.insert(0, os.path.dirname(os.path.abspath(__file__)))
import vlib  # noqa: E402


def main():
    ap = argparse.ArgumentParser()
    ap.add_argument("pid")
    ap.add_argument("--tier", default=os.environ.get("VERIF_TIER", "quick"),
                    choices=["quick", "thorough"])
    ap.add_argument("--replay", default=None)
    a = ap.parse_args()
    seed = int(os.environ.get("VERIF_SEED", "20260930"))
    mod = importlib.import_module("props." + a.pid)
    if a.replay:
        with open(a.replay) as f:
            rep = json.load(f)
        rc = mod.replay(rep) if hasattr(mod, "replay") else 2
        sys.exit(rc)
    ctx = vlib.Ctx(a.pid, a.tier, seed)
    try:
        mod.run(ctx)
    except Exception:
        tb = traceback.format_exc()
        ctx.log("harness exception\n" + tb)
        ctx.broken.append("harness-exception: " + tb.strip().splitlines()[-1])
    rc = ctx.finish(level=getattr(mod, "LEVEL", "proof"),
                    explanation=getattr(mod, "EXPLANATION", ""))
    sys.exit(rc)


if __name__ == "__main__":
    main()
