"""gen_fields -- fail-closed translator for the field-axis code of WallGo (property C08).

numpy code that is elementwise / broadcast over the FIELD axis becomes a Coq function of
one per-field record (or of per-field scalars); np.sum / np.max / np.min over the field
axis become sumR / maxR / minR over the LIST of per-field records (Lib/FieldSpace.v).
Every array expression carries its axis labels ('P' = grid points, 'F' = fields, '1' =
broadcast axis); numpy's broadcasting rule is re-checked on the labels, so code that
mixes the point axis with the field axis does not translate (TranslateError = broken tie).

Translated from src/WallGo/equationOfMotion.py (class EOM):
  wallProfile                  -> wallProfile_ret0 / _ret1 (array z) and *_scalarz
  action                       -> action_ret  (U, the quadrature of the potential, is opaque)
  temperatureProfileEqLHS      -> temperatureLHS (field-axis reduction of dPhidz**2)
  _updateGrid                  -> updateGrid_arg0..3 (the 4 arguments handed to
                                  grid.changePositionFalloffScale)
  _toWallParams                -> toWallParams_widths / _offsets
  _intermediatePressureResults -> minimize_x0 / minimize_lb / minimize_ub (what scipy's
                                  minimiser receives), dVdz_point, fieldsWithEndpoints
and from src/WallGo/fields.py (class Fields): axis constants and index helpers.
"""
from __future__ import annotations

import ast
import hashlib
from fractions import Fraction

from pyrx import TranslateError, const_value, rlit

NP = ("np", "numpy")
EW1 = {"tanh": "tanh", "cosh": "cosh", "sinh": "sinh", "sqrt": "sqrt", "log": "ln",
       "exp": "exp", "abs": "Rabs"}
RED = {"sum": "sumR", "max": "maxR", "amax": "maxR", "min": "minR", "amin": "minR"}


def _sha(s):
    return hashlib.sha256(s.encode()).hexdigest()[:12]


def _np_call(node, names):
    """node is np.<name>(...) with name in names -> name"""
    if isinstance(node, ast.Call) and isinstance(node.func, ast.Attribute) and \
            isinstance(node.func.value, ast.Name) and node.func.value.id in NP and \
            node.func.attr in names:
        return node.func.attr
    return None


def broadcast(d1, d2, where):
    n = max(len(d1), len(d2))
    a = ("1",) * (n - len(d1)) + tuple(d1)
    b = ("1",) * (n - len(d2)) + tuple(d2)
    out = []
    for x, y in zip(a, b):
        if x == y or y == "1":
            out.append(x)
        elif x == "1":
            out.append(y)
        else:
            raise TranslateError("axis mismatch %s vs %s in %s (field axis combined with "
                                 "point axis)" % (d1, d2, where))
    return tuple(out)


VISITED = set()     # call sites the translator went through (line, column)
FIELD_DATA = {"fields", "dPhidz", "dfieldsdz", "vevLowT", "vevHighT", "wallParams", "widths",
              "offsets", "wallWidths", "fieldsWithEndpoints", "fieldProfiles",
              "phaseLocation1", "phaseLocation2", "phaseLocation", "fieldsAtMinimum",
              "initialGuess", "guesses", "fieldValueVariationScale", "wallArray"}
# operations that single out entries / mix the entries of an array
SITE_CALLS = {"sum", "max", "amax", "min", "amin", "mean", "prod", "dot", "vdot", "inner",
              "norm", "einsum", "tensordot", "trace", "cumsum", "average", "nansum",
              "where", "isclose", "allclose", "sign", "abs", "absolute", "fabs", "argmax",
              "argmin", "argsort", "sort", "any", "all", "nonzero", "clip", "unique", "flip",
              "roll", "maximum", "minimum", "fmax", "fmin", "select", "piecewise", "round",
              "around", "rint", "floor", "ceil", "trunc", "nan_to_num", "take", "delete",
              "insert", "swapaxes", "transpose", "fliplr", "flipud"}
SCAN_FILES = ("equationOfMotion.py", "containers.py", "manager.py", "results.py",
              "boltzmann.py", "freeEnergy.py", "effectivePotential.py", "thermodynamics.py")
# Sites on field data that are NOT part of the generated model, each reviewed once; the text
# must match exactly, so an edit of such a line (or any new site) breaks the tie.
ALLOWED_SITES = {
    # saturation test after the solve: elementwise over ALL fields, any-reduction
    ("equationOfMotion.py", "solveWall"): {
        "np.any(wallParams.widths == self.wallThicknessBounds[0] / self.thermo.Tnucl)",
        "wallParams.widths == self.wallThicknessBounds[0] / self.thermo.Tnucl",
        "np.any(wallParams.offsets == self.wallOffsetBounds[0])",
        "wallParams.offsets == self.wallOffsetBounds[0]",
        "np.any(wallParams.widths == self.wallThicknessBounds[1] / self.thermo.Tnucl)",
        "wallParams.widths == self.wallThicknessBounds[1] / self.thermo.Tnucl",
        "np.any(wallParams.offsets == self.wallOffsetBounds[1])",
        "wallParams.offsets == self.wallOffsetBounds[1]"},
    # symmetric in the fields (all components compared); comparison of the two potential
    # VALUES returned next to the minima
    ("manager.py", "validatePhaseInput"): {
        "np.allclose(phaseLocation1, phaseLocation2, rtol=1e-05, atol=1e-05)",
        "np.real(effPotValue1) < np.real(effPotValue2)"},
    # element 0 of the (location, value) pair returned by findLocalMinimum; absolute tolerance
    # of the tracing = rTol * max(|phase0|_inf, T0): depends on where the origin is, but only
    # as a tolerance (translations are covariant within it); flips along the TEMPERATURE axis
    ("freeEnergy.py", "tracePhase"): {
        "phase0Temp[0]", "max(*abs(phase0), T0)", "abs(phase0)", "phaset[0]",
        # kwargs is tainted only through atol=tolAbsolute; this limits the first TEMPERATURE step
        "min(kwargs['first_step'], abs(TEnd - T0))",
        "np.flip(fieldList, axis=0)", "np.flip(potentialEffList, axis=0)"},
    # component 0 of wallProfile's (fields, dPhidz) (checked by gen_action)
    ("equationOfMotion.py", "action"): {
        "self.wallProfile(self.grid.xiValues, vevLowT, vevHighT, wallParams)[0]"},
    # unwrapping of the scalar result (checked by gen_temperatureLHS)
    ("equationOfMotion.py", "temperatureProfileEqLHS"): {"result[0]"},
    # NOT reflection covariant (d(phi0+phi1) vs d(phi0-phi1)); feeds only the diagnostic
    # linearizationCriterion1/2 of the out-of-equilibrium solution, none of the outputs of
    # C08; reported as an observation
    ("boltzmann.py", "checkLinearization"): {
        "np.sum(self.background.fieldProfiles, axis=1)"},
}


ROOTS = {"np", "numpy", "scipy", "math"}
NEUTRAL_ATTR = {"shape", "size", "ndim", "dtype"}            # counts, not field values
NEUTRAL_CALL = {"len", "numFields", "numPoints", "isinstance", "type", "range"}
SOURCE_ATTR = {"fieldsAtMinimum"}
SOURCE_CALL = {"findLocalMinimum", "wallProfile", "getFieldPoint", "getField",
               "castFromNumpy", "resizeFields"}
TAINT = "<field data>"
BUILTIN_OK = {"float", "int", "len", "abs", "max", "min", "sum", "range", "print", "tuple",
              "list", "enumerate", "zip", "str", "repr", "sorted", "isinstance", "type", "bool",
              "complex", "round", "iter", "next", "dict", "set", "super", "getattr", "hasattr",
              "reversed", "map", "filter", "any", "all", "id", "callable", "divmod", "pow"}


def _root(f):
    while isinstance(f, ast.Attribute):
        f = f.value
    return f.id if isinstance(f, ast.Name) else None


def _direct_names(node):
    """names and attribute names whose VALUES reach `node`: everything except what sits
    inside the arguments of a call to a collaborator (particle.*, effectivePotential.*:
    their field dependence is external) or under a count (.shape, len(), numFields())"""
    out = set()
    if isinstance(node, ast.Name):
        out.add(node.id)
    elif isinstance(node, ast.Attribute):
        if node.attr in NEUTRAL_ATTR:
            return out
        out.add(node.attr)
        out |= _direct_names(node.value)
    elif isinstance(node, ast.Call):
        f = node.func
        nm = f.attr if isinstance(f, ast.Attribute) else (
            f.id if isinstance(f, ast.Name) else None)
        if nm in NEUTRAL_CALL:
            return out
        if nm in SOURCE_CALL:
            out.add(TAINT)
        own = isinstance(f, ast.Name) or _root(f) in ROOTS or (
            isinstance(f, ast.Attribute) and f.attr in ("view", "copy", "ravel", "flatten",
                                                        "astype", "tolist"))
        if own:
            for a in list(node.args) + [k.value for k in node.keywords]:
                out |= _direct_names(a)
        if isinstance(f, ast.Attribute):
            out |= _direct_names(f.value)
    elif isinstance(node, ast.Lambda):
        out |= _direct_names(node.body)
    else:
        for c in ast.iter_child_nodes(node):
            out |= _direct_names(c)
    return out


def _sites(fn):
    """(node, kind) for every comparison, entry-selecting call, literal column index or
    reversed slice in fn"""
    for n in ast.walk(fn):
        if isinstance(n, ast.Compare):
            yield n, n
        elif isinstance(n, ast.Call):
            f = n.func
            nm = f.attr if isinstance(f, ast.Attribute) else (
                f.id if isinstance(f, ast.Name) else None)
            if nm in SITE_CALLS:
                yield n, n
        elif isinstance(n, ast.Subscript) and isinstance(n.ctx, ast.Load):
            items = n.slice.elts if isinstance(n.slice, ast.Tuple) else [n.slice]
            if any(isinstance(i, ast.Constant) and isinstance(i.value, int) and
                   not isinstance(i.value, bool) for i in items) or \
                    any(isinstance(i, ast.Slice) and i.step is not None for i in items):
                yield n, n.value


def _tainted(fn, extra=()):
    """one-function data flow: names that (may) hold field-axis data.  Seeds: FIELD_DATA,
    parameters annotated Fields/FieldPoint, parameters a caller passes field data to
    (`extra`), results of findLocalMinimum / wallProfile / getFieldPoint / .fieldsAtMinimum.
    Propagated through assignments, loop targets and into the parameters of local closures
    handed to numpy/scipy together with field data (ODE right-hand sides, objectives)."""
    t = set(FIELD_DATA) | {TAINT} | SOURCE_ATTR | set(extra)
    nested = {n.name: n for n in ast.walk(fn) if isinstance(n, ast.FunctionDef) and n is not fn}
    for f in [fn] + list(nested.values()):
        for a in f.args.args + f.args.kwonlyargs:
            if a.annotation is not None and any(k in ast.unparse(a.annotation)
                                                for k in ("Fields", "FieldPoint")):
                t.add(a.arg)
    for _ in range(8):
        old = len(t)
        for n in ast.walk(fn):
            tg, val = [], None
            if isinstance(n, ast.Assign):
                tg, val = n.targets, n.value
            elif isinstance(n, (ast.AugAssign, ast.AnnAssign)) and n.value is not None:
                tg, val = [n.target], n.value
            elif isinstance(n, ast.For):
                tg, val = [n.target], n.iter
            elif isinstance(n, ast.NamedExpr):
                tg, val = [n.target], n.value
            if val is not None and _direct_names(val) & t:
                for x in tg:
                    for e in ast.walk(x):
                        if isinstance(e, ast.Name) and isinstance(e.ctx, ast.Store):
                            t.add(e.id)
            if isinstance(n, ast.Call) and _root(n.func) in ROOTS:
                args = list(n.args) + [k.value for k in n.keywords]
                if any(_direct_names(a) & t for a in args):
                    for a in args:
                        if isinstance(a, ast.Name) and a.id in nested:
                            for q in nested[a.id].args.args:
                                t.add(q.arg)
        if len(t) == old:
            break
    return t


def _harmless(fn):
    """ids of nodes inside logging / warnings calls and f-strings"""
    s = set()
    for n in ast.walk(fn):
        if isinstance(n, ast.JoinedStr) or (isinstance(n, ast.Call) and
                                            _root(n.func) in ("logging", "logger",
                                                              "warnings")):
            for m in ast.walk(n):
                s.add(id(m))
    return s


def unmodelled_sites(sources, translated_file="equationOfMotion.py"):
    """sites anywhere in the scanned modules that select, compare or mix entries of
    field-axis data (found by a per-function data flow, see _tainted; module-level helpers
    are entered with the parameters that receive field data) and are neither part of the
    generated model nor in the reviewed allow-list"""
    bad = []
    for fname, src in sources.items():
        tree = ast.parse(src)
        tops = [(n, None) for n in tree.body if isinstance(n, ast.FunctionDef)]
        for c in tree.body:
            if isinstance(c, ast.ClassDef):
                tops += [(n, c.name) for n in c.body if isinstance(n, ast.FunctionDef)]
        helpers = {n.name: n for n, c in tops if c is None}
        extra = {k: set() for k in helpers}
        taints = {}
        for rnd in range(2):
            for fn, _ in tops:
                t = _tainted(fn, extra.get(fn.name, ()) if _ is None else ())
                taints[id(fn)] = t
                for n in ast.walk(fn):
                    if isinstance(n, ast.Call) and isinstance(n.func, ast.Name) and \
                            n.func.id in helpers:
                        ps = [a.arg for a in helpers[n.func.id].args.args]
                        for k, a in enumerate(n.args):
                            if k < len(ps) and _direct_names(a) & t:
                                extra[n.func.id].add(ps[k])
        for fn, _ in tops:
            t = taints[id(fn)]
            skip = _harmless(fn)
            allowed = ALLOWED_SITES.get((fname, fn.name), set())
            local = {n.name for n in ast.walk(fn) if isinstance(n, ast.FunctionDef)}
            # field data handed to a plain function that this scan cannot enter
            for n in ast.walk(fn):
                if isinstance(n, ast.Call) and isinstance(n.func, ast.Name) and \
                        id(n) not in skip and n.func.id not in helpers and \
                        n.func.id not in local and n.func.id not in BUILTIN_OK and \
                        not n.func.id[:1].isupper() and \
                        any(_direct_names(a) & t for a in n.args) and \
                        ast.unparse(n) not in allowed:
                    bad.append("%s:%s line %d: field data handed to %s(), which is not "
                               "scanned" % (fname, fn.name, n.lineno, n.func.id))
            for n, probe in _sites(fn):
                if id(n) in skip:
                    continue
                if isinstance(n, ast.Compare) and all(isinstance(o, (ast.Is, ast.IsNot))
                                                      for o in n.ops):
                    continue
                if not (_direct_names(probe) & t):
                    continue
                if fname == translated_file and (n.lineno, n.col_offset) in VISITED:
                    continue
                if ast.unparse(n) in allowed:
                    continue
                bad.append("%s:%s line %d: %s" % (fname, fn.name, n.lineno,
                                                  ast.unparse(n)[:60]))
    return bad


class Val:
    def __init__(self, term, dims):
        self.term = term
        self.dims = tuple(dims)


class Vec:
    """Demand-driven symbolic evaluation of array expressions inside one function."""

    def __init__(self, fn, inputs, attrs=None, lam=None, zscalar=None, allow_stores=()):
        self.fn = fn
        self.inputs = inputs          # unparse(expr) -> (coq term, dims)
        self.attrs = attrs or {}      # unparse(expr) -> coq scalar term
        self.lam = lam                # (lambda var, list var) or None: reductions illegal
        self.zscalar = zscalar        # which branch of `if np.isscalar(z)` to follow
        self.stmts = self.flatten(fn.body)
        self.params = [a.arg for a in fn.args.args]
        self.depth = 0
        # in-place modifications: a name whose entries or attributes are stored to anywhere
        # in the function (x[...] = / x[...] op= / x.a = / x op= ...) has no single value
        self.dirty = {}
        for n in ast.walk(fn):
            tgs = n.targets if isinstance(n, ast.Assign) else (
                [n.target] if isinstance(n, (ast.AugAssign, ast.AnnAssign)) else [])
            for t in tgs:
                for e in (t.elts if isinstance(t, (ast.Tuple, ast.List)) else [t]):
                    root, through = e, False
                    while isinstance(root, (ast.Subscript, ast.Attribute)):
                        root, through = root.value, True
                    if isinstance(root, ast.Name) and root.id != "self" and (
                            through or isinstance(n, ast.AugAssign)):
                        if ast.unparse(e) in allow_stores:
                            continue
                        self.dirty[root.id] = n.lineno

    def clean(self, node):
        """fail closed when the value of `node` depends on a name modified in place"""
        for m in ast.walk(node):
            if isinstance(m, ast.Name) and m.id in self.dirty:
                raise TranslateError("%s: %s is modified in place at line %d (subscript / "
                                     "attribute / augmented store): no single value to "
                                     "translate" % (self.fn.name, m.id, self.dirty[m.id]))

    def flatten(self, body):
        out = []
        for st in body:
            if isinstance(st, ast.With):
                out += self.flatten(st.body)
            elif isinstance(st, ast.If) and self.is_isscalar(st.test) is not None and \
                    self.zscalar is not None:
                out += self.flatten(st.body if self.zscalar else st.orelse)
            else:
                out.append(st)
        return out

    @staticmethod
    def is_isscalar(test):
        if _np_call(test, ("isscalar",)) and len(test.args) == 1:
            return ast.unparse(test.args[0])
        return None

    def assignment(self, name, before):
        """value AST of the last top-level assignment `name = value` before line `before`"""
        found = None
        for st in self.stmts:
            if st.lineno >= before:
                break
            tg = None
            if isinstance(st, ast.Assign) and len(st.targets) == 1:
                tg, val = st.targets[0], st.value
            elif isinstance(st, ast.AnnAssign) and st.value is not None:
                tg, val = st.target, st.value
            if tg is None:
                # a name stored anywhere inside a compound statement is out of the subset
                if not isinstance(st, (ast.FunctionDef,)):
                    for n in ast.walk(st):
                        if isinstance(n, ast.Name) and isinstance(n.ctx, ast.Store) and \
                                n.id == name and not isinstance(st, (ast.Assign,
                                                                     ast.AnnAssign)):
                            raise TranslateError("%s assigned inside a compound statement "
                                                 "(line %d)" % (name, st.lineno))
                continue
            if isinstance(tg, ast.Name) and tg.id == name:
                found = (val, st.lineno)
            elif isinstance(tg, (ast.Tuple, ast.List)) and any(
                    isinstance(e, ast.Name) and e.id == name for e in tg.elts):
                found = ("tuple", st.lineno)
        return found

    def expr(self, node, at):
        self.depth += 1
        if self.depth > 200:
            raise TranslateError("recursion in %s" % self.fn.name)
        try:
            return self._expr(node, at)
        finally:
            self.depth -= 1

    def _expr(self, node, at):
        key = ast.unparse(node)
        if key in self.inputs:
            self.clean(node)
            return Val(*self.inputs[key])
        if key in self.attrs:
            return Val(self.attrs[key], ())
        c = const_value(node)
        if c is not None:
            return Val(rlit(c), ())
        if isinstance(node, ast.Name):
            self.clean(node)
            a = self.assignment(node.id, at)
            if a is None:
                raise TranslateError("%s: name %s is neither a declared input nor "
                                     "assigned before line %d" % (self.fn.name, node.id, at))
            if a[0] == "tuple":
                raise TranslateError("%s: %s comes from a tuple assignment (line %d)"
                                     % (self.fn.name, node.id, a[1]))
            return self.expr(a[0], a[1])
        if isinstance(node, ast.UnaryOp) and isinstance(node.op, ast.USub):
            v = self.expr(node.operand, at)
            return Val("(- %s)" % v.term, v.dims)
        if isinstance(node, ast.BinOp):
            if isinstance(node.op, ast.Pow):
                n = const_value(node.right)
                if n is None or n.denominator != 1 or n < 0:
                    raise TranslateError("power with non-literal exponent (line %d)"
                                         % node.lineno)
                v = self.expr(node.left, at)
                return Val("(%s ^ %d)" % (v.term, int(n)), v.dims)
            op = {ast.Add: "+", ast.Sub: "-", ast.Mult: "*", ast.Div: "/"}.get(
                type(node.op))
            if op is None:
                raise TranslateError("operator %s (line %d)" % (type(node.op).__name__,
                                                                node.lineno))
            a, b = self.expr(node.left, at), self.expr(node.right, at)
            return Val("(%s %s %s)" % (a.term, op, b.term),
                       broadcast(a.dims, b.dims, key[:60]))
        if isinstance(node, ast.Subscript):
            return self.subscript(node, at)
        if isinstance(node, ast.Call):
            return self.call(node, at)
        raise TranslateError("%s: expression %s (line %d)" % (self.fn.name, key[:60],
                                                              node.lineno))

    def subscript(self, node, at):
        v = self.expr(node.value, at)
        items = node.slice.elts if isinstance(node.slice, ast.Tuple) else [node.slice]
        dims, k = [], 0
        for it in items:
            if isinstance(it, ast.Constant) and it.value is None:
                dims.append("1")
            elif isinstance(it, ast.Slice) and it.lower is None and it.upper is None \
                    and it.step is None:
                if k >= len(v.dims):
                    raise TranslateError("too many indices: %s" % ast.unparse(node))
                dims.append(v.dims[k])
                k += 1
            else:
                raise TranslateError("index %s (line %d)" % (ast.unparse(node)[:60],
                                                             node.lineno))
        dims += list(v.dims[k:])
        return Val(v.term, dims)

    def call(self, node, at):
        f = node.func
        # identity wrappers
        if isinstance(f, ast.Name) and f.id == "float" and len(node.args) == 1:
            return self.expr(node.args[0], at)
        if isinstance(f, ast.Attribute) and f.attr == "view" and len(node.args) == 1 and \
                not node.keywords:
            return self.expr(f.value, at)
        if _np_call(node, ("array", "asarray")) and len(node.args) == 1 and \
                not isinstance(node.args[0], (ast.List, ast.Tuple)):
            return self.expr(node.args[0], at)
        if ast.unparse(f) == "Fields.castFromNumpy" and len(node.args) == 1:
            v = self.expr(node.args[0], at)
            if len(v.dims) > 2:
                raise TranslateError("castFromNumpy of >2 axes")
            return Val(v.term, ("1",) * (2 - len(v.dims)) + v.dims)
        nm = _np_call(node, EW1)
        if nm and len(node.args) == 1 and not node.keywords:
            v = self.expr(node.args[0], at)
            return Val("(%s %s)" % (EW1[nm], v.term), v.dims)
        nm = _np_call(node, RED)
        if nm and len(node.args) == 1:
            return self.reduce(RED[nm], node, at)
        nm = _np_call(node, ("maximum", "minimum", "fmax", "fmin"))
        if nm and len(node.args) == 2 and not node.keywords:
            VISITED.add((node.lineno, node.col_offset))
            a, b = self.expr(node.args[0], at), self.expr(node.args[1], at)
            return Val("(R%s %s %s)" % ("max" if "max" in nm else "min", a.term, b.term),
                       broadcast(a.dims, b.dims, ast.unparse(node)[:60]))
        if isinstance(f, ast.Name) and f.id in ("max", "min") and len(node.args) == 2 \
                and not node.keywords:
            VISITED.add((node.lineno, node.col_offset))
            a, b = self.expr(node.args[0], at), self.expr(node.args[1], at)
            if a.dims or b.dims:
                raise TranslateError("builtin %s of arrays (line %d)" % (f.id, node.lineno))
            return Val("(R%s %s %s)" % (f.id, a.term, b.term), ())
        raise TranslateError("%s: call %s (line %d)" % (self.fn.name,
                                                        ast.unparse(node)[:60], node.lineno))

    def reduce(self, op, node, at):
        VISITED.add((node.lineno, node.col_offset))
        if self.lam is None:
            raise TranslateError("reduction %s where an elementwise expression is expected"
                                 % ast.unparse(node)[:60])
        v = self.expr(node.args[0], at)
        axis = None
        for kw in node.keywords:
            if kw.arg == "axis":
                axis = const_value(kw.value)
                if axis is None or axis.denominator != 1:
                    raise TranslateError("non-literal axis")
                axis = int(axis)
            else:
                raise TranslateError("keyword %s in %s" % (kw.arg, ast.unparse(node)[:40]))
        dims = list(v.dims)
        if axis is None:
            real = [d for d in dims if d != "1"]
            if real == []:
                return v
            if real != ["F"]:
                raise TranslateError("full reduction over axes %s in %s (a reduction "
                                     "over the field axis is expected)" % (
                                         v.dims, ast.unparse(node)[:60]))
            rest = []
        else:
            if not -len(dims) <= axis < len(dims):
                raise TranslateError("axis out of range in %s" % ast.unparse(node)[:60])
            if dims[axis] != "F":
                raise TranslateError("reduction over axis %d = '%s' in %s (a reduction "
                                     "over the field axis is expected)" % (
                                         axis, dims[axis], ast.unparse(node)[:60]))
            rest = dims[:axis % len(dims)] + dims[axis % len(dims) + 1:]
        f, fs = self.lam
        return Val("(%s (map (fun %s => %s) %s))" % (op, f, v.term, fs), rest)


# ------------------------------------------------------------------------------------

def find_class(tree, name):
    for n in tree.body:
        if isinstance(n, ast.ClassDef) and n.name == name:
            return n
    raise TranslateError("class %s not found" % name)


def methods(cls):
    return {f.name: f for f in cls.body if isinstance(f, ast.FunctionDef)}


REC = {"vevLowT": ("(vevLow f)", ("1", "F")), "vevHighT": ("(vevHigh f)", ("1", "F")),
       "wallParams.widths": ("(width f)", ("F",)),
       "wallParams.offsets": ("(offset f)", ("F",))}


def gen_wallProfile(fn, spans):
    out = []
    for zs, suffix in ((False, ""), (True, "_scalarz")):
        inputs = {"z": ("z", () if zs else ("P",)),
                  "vevLowT": ("vevLowT", ("1", "F")), "vevHighT": ("vevHighT", ("1", "F")),
                  "wallParams.widths": ("width", ("F",)),
                  "wallParams.offsets": ("offset", ("F",))}
        v = Vec(fn, inputs, zscalar=zs)
        ret = [s for s in v.stmts if isinstance(s, ast.Return)]
        if len(ret) != 1 or not isinstance(ret[0].value, ast.Tuple) or \
                len(ret[0].value.elts) != 2:
            raise TranslateError("wallProfile: expected one `return a, b`")
        want = ("1", "F") if zs else ("P", "F")
        for k, e in enumerate(ret[0].value.elts):
            val = v.expr(e, ret[0].lineno)
            if val.dims != want:
                raise TranslateError("wallProfile returns axes %s, expected (points, "
                                     "fields) = %s" % (val.dims, want))
            out.append("Definition wallProfile_ret%d%s (z vevLowT vevHighT width offset : R)"
                       " : R :=\n  %s." % (k, suffix, val.term))
    spans["wallProfile"] = (fn.lineno, fn.end_lineno, _sha(ast.unparse(fn)))
    return out


def gen_action(fn, spans):
    v = Vec(fn, dict(REC, U=("U", ())), lam=("f", "fs"))
    ret = [s for s in v.stmts if isinstance(s, ast.Return)]
    if len(ret) != 1:
        raise TranslateError("action: expected one return")
    val = v.expr(ret[0].value, ret[0].lineno)
    if val.dims != ():
        raise TranslateError("action does not return a scalar")
    # def-use facts: the potential is evaluated on component 0 of wallProfile(grid, vevLowT,
    # vevHighT, wallParams)
    a = v.assignment("fields", ret[0].lineno)
    ok = False
    if a and a[0] != "tuple":
        n = a[0]
        if isinstance(n, ast.Subscript) and const_value(n.slice) == 0 and \
                isinstance(n.value, ast.Call) and \
                ast.unparse(n.value.func) == "self.wallProfile" and \
                [ast.unparse(x) for x in n.value.args[1:]] == ["vevLowT", "vevHighT",
                                                               "wallParams"]:
            ok = True
    if not ok:
        raise TranslateError("action: `fields` is not self.wallProfile(_, vevLowT, vevHighT,"
                             " wallParams)[0]")
    spans["action"] = (fn.lineno, fn.end_lineno, _sha(ast.unparse(fn)))
    return ["(* action: U is the quadrature of V(wallProfile_ret0(...), T) - Vref over the "
            "grid (external) *)",
            "Definition action_ret (U : R) (fs : list wfield) : R :=\n  %s." % val.term]


GENV = {"self.meanFreePathScale": "(meanFreePathScale e)",
        "self.includeOffEq": "(includeOffEq e)",
        "self.grid.smoothing": "(smoothing e)",
        "self.grid.ratioPointsWall": "(ratioPointsWall e)"}


def gen_temperatureLHS(fn, spans):
    """EOM.temperatureProfileEqLHS at one grid point: dPhidz is a FieldPoint (field axis
    only); the potential and its T-derivative at the field point are external scalars"""
    ext = {"self.thermo.effectivePotential.evaluate(fields, T)": "veff",
           "self.thermo.effectivePotential.derivT(fields, T)": "dVdT"}
    inputs = {"dPhidz": ("x", ("F",)), "T": ("T", ()), "s1": ("s1", ()), "s2": ("s2", ())}
    inputs.update({k: (v, ()) for k, v in ext.items()})
    v = Vec(fn, inputs, lam=("x", "dP"))
    first = [st for st in v.stmts if isinstance(st, ast.Assign) and len(st.targets) == 1 and
             isinstance(st.targets[0], ast.Name) and st.targets[0].id == "result"]
    if not first:
        raise TranslateError("temperatureProfileEqLHS: `result = ...` not found")
    val = v.expr(first[0].value, first[0].lineno)
    if val.dims != ():
        raise TranslateError("temperatureProfileEqLHS: result has axes %s" % (val.dims,))
    # everything after it only unwraps the scalar
    for st in v.stmts:
        if st.lineno > first[0].lineno and isinstance(st, ast.Return):
            if ast.unparse(st.value) not in ("float(result[0])", "float(result)"):
                raise TranslateError("temperatureProfileEqLHS returns %s" %
                                     ast.unparse(st.value)[:50])
    spans["temperatureProfileEqLHS"] = (fn.lineno, fn.end_lineno, _sha(ast.unparse(fn)))
    return ["(* one grid point: dP = dPhidz over the fields; veff, dVdT = potential and its "
            "T-derivative at the field point (external) *)",
            "Definition temperatureLHS (dP : list R) (T veff dVdT s1 s2 : R) : R :=\n  %s."
            % val.term]


def gen_updateGrid(fn, spans):
    v = Vec(fn, dict(REC, velocityMid=("velocityMid", ())), attrs=GENV, lam=("f", "fs"))
    sink = [s for s in v.stmts if isinstance(s, ast.Expr) and isinstance(s.value, ast.Call)
            and ast.unparse(s.value.func) == "self.grid.changePositionFalloffScale"]
    if len(sink) != 1 or len(sink[0].value.args) != 4 or sink[0].value.keywords:
        raise TranslateError("_updateGrid: expected one call grid.changePositionFalloffScale"
                             "(tailInside, tailOutside, thickness, centre)")
    out = ["Record genv := mk_genv { meanFreePathScale : R; includeOffEq : R; "
           "smoothing : R; ratioPointsWall : R }."]
    for k, a in enumerate(sink[0].value.args):
        val = v.expr(a, sink[0].lineno)
        if val.dims != ():
            raise TranslateError("_updateGrid: argument %d is not a scalar" % k)
        out.append("Definition updateGrid_arg%d (e : genv) (fs : list wfield) "
                   "(velocityMid : R) : R :=\n  %s." % (k, val.term))
    spans["_updateGrid"] = (fn.lineno, fn.end_lineno, _sha(ast.unparse(fn)))
    return out


# -- 1-D list code (packing of the minimiser's argument, bounds) ----------------------

BCFG = {"self.wallThicknessBounds[0]": "(thickLo b)", "self.wallThicknessBounds[1]":
        "(thickHi b)", "self.wallOffsetBounds[0]": "(offLo b)",
        "self.wallOffsetBounds[1]": "(offHi b)", "self.thermo.Tnucl": "(Tnucl b)"}


class Lst:
    def __init__(self, vec, inputs):
        self.vec = vec            # Vec used for name resolution
        self.inputs = inputs      # unparse -> coq list term

    def nat(self, node):
        k = ast.unparse(node)
        if k == "self.nbrFields":
            return "n"
        c = const_value(node)
        if c is not None and c.denominator == 1 and c >= 0:
            return "%d" % int(c)
        if isinstance(node, ast.BinOp) and isinstance(node.op, (ast.Sub, ast.Add)):
            return "(%s %s %s)" % (self.nat(node.left),
                                   "-" if isinstance(node.op, ast.Sub) else "+",
                                   self.nat(node.right))
        raise TranslateError("count expression %s" % k)

    def scalar(self, node):
        k = ast.unparse(node)
        if k in BCFG:
            return BCFG[k]
        c = const_value(node)
        if c is not None:
            return rlit(c)
        if isinstance(node, ast.BinOp):
            op = {ast.Add: "+", ast.Sub: "-", ast.Mult: "*", ast.Div: "/"}.get(
                type(node.op))
            if op:
                return "(%s %s %s)" % (self.scalar(node.left), op, self.scalar(node.right))
        raise TranslateError("scalar expression %s" % k[:60])

    def lst(self, node, at):
        k = ast.unparse(node)
        if k in self.inputs:
            self.vec.clean(node)
            return self.inputs[k]
        if isinstance(node, ast.Name):
            self.vec.clean(node)
            a = self.vec.assignment(node.id, at)
            if a is None or a[0] == "tuple":
                raise TranslateError("list name %s unresolved" % node.id)
            return self.lst(a[0], a[1])
        if _np_call(node, ("concatenate",)) and len(node.args) == 1 and \
                isinstance(node.args[0], (ast.Tuple, ast.List)) and not node.keywords:
            return "(" + " ++ ".join(self.lst(e, at) for e in node.args[0].elts) + ")"
        if _np_call(node, ("array", "asarray")) and len(node.args) == 1:
            return self.lst(node.args[0], at)
        if isinstance(node, ast.List):
            return "[" + "; ".join(self.scalar(e) for e in node.elts) + "]"
        if isinstance(node, ast.BinOp) and isinstance(node.op, ast.Mult):
            for cnt, lit in ((node.left, node.right), (node.right, node.left)):
                if isinstance(lit, ast.List) and len(lit.elts) == 1:
                    return "(repeat %s (%s)%%nat)" % (self.scalar(lit.elts[0]),
                                                      self.nat(cnt))
        if isinstance(node, ast.Subscript) and isinstance(node.slice, ast.Slice) and \
                node.slice.step is None:
            base = self.lst(node.value, at)
            lo, hi = node.slice.lower, node.slice.upper
            if lo is not None and hi is None:
                return "(skipn (%s)%%nat %s)" % (self.nat(lo), base)
            if lo is None and hi is not None:
                return "(firstn (%s)%%nat %s)" % (self.nat(hi), base)
        raise TranslateError("list expression %s (line %d)" % (k[:60], node.lineno))


def gen_packing(fns, spans):
    out = ["Record bcfg := mk_bcfg { thickLo : R; thickHi : R; offLo : R; offHi : R; "
           "Tnucl : R }."]
    # _toWallParams
    fn = fns["_toWallParams"]
    v = Vec(fn, {})
    L = Lst(v, {"wallArray": "wallArray"})
    ret = [s for s in v.stmts if isinstance(s, ast.Return)]
    if len(ret) != 1 or not (isinstance(ret[0].value, ast.Call) and
                             ast.unparse(ret[0].value.func) == "WallParams"):
        raise TranslateError("_toWallParams: expected `return WallParams(...)`")
    kw = {k.arg: k.value for k in ret[0].value.keywords}
    if ret[0].value.args or set(kw) != {"widths", "offsets"}:
        raise TranslateError("_toWallParams: WallParams(widths=..., offsets=...) expected")
    for k in ("widths", "offsets"):
        out.append("Definition toWallParams_%s (n : nat) (wallArray : list R) : list R :="
                   "\n  %s." % (k, L.lst(kw[k], ret[0].lineno)))
    spans["_toWallParams"] = (fn.lineno, fn.end_lineno, _sha(ast.unparse(fn)))
    # the minimiser call
    fn = fns["_intermediatePressureResults"]
    v = Vec(fn, {}, allow_stores=("wallParams.widths", "wallParams.offsets"))
    calls = [n for n in ast.walk(fn) if isinstance(n, ast.Call) and
             ast.unparse(n.func).endswith("optimize.minimize")]
    if len(calls) != 1:
        raise TranslateError("expected exactly one scipy.optimize.minimize call")
    call = calls[0]
    kw = {k.arg: k.value for k in call.keywords}
    if len(call.args) < 2 or "bounds" not in kw:
        raise TranslateError("minimize(fun, x0, ..., bounds=...) expected")
    # objective: actionWrapper(wallArray) = self.action(self._toWallParams(wallArray), *args)
    wrap = [s for s in fn.body if isinstance(s, ast.FunctionDef) and
            isinstance(call.args[0], ast.Name) and s.name == call.args[0].id]
    if len(wrap) != 1:
        raise TranslateError("objective of minimize is not a local closure")
    wr = [s for s in wrap[0].body if isinstance(s, ast.Return)]
    p0 = wrap[0].args.args[0].arg
    if len(wr) != 1 or not (isinstance(wr[0].value, ast.Call) and
                            ast.unparse(wr[0].value.func) == "self.action" and
                            ast.unparse(wr[0].value.args[0]) ==
                            "self._toWallParams(%s)" % p0):
        raise TranslateError("objective is not self.action(self._toWallParams(x), ...)")
    extra = [ast.unparse(a) for a in wr[0].value.args[1:]]
    if extra != ["*" + wrap[0].args.vararg.arg] if wrap[0].args.vararg else True:
        raise TranslateError("objective passes unexpected arguments to action")
    args = kw.get("args")
    if args is None or [ast.unparse(a) for a in args.elts[:2]] != ["vevLowT", "vevHighT"]:
        raise TranslateError("minimize args do not start with (vevLowT, vevHighT)")
    L = Lst(v, {"wallParams.widths": "widths", "wallParams.offsets": "offsets"})
    out.append("Definition minimize_x0 (widths offsets : list R) : list R :=\n  %s." %
               L.lst(call.args[1], call.lineno))
    b = kw["bounds"]
    if isinstance(b, ast.Name):
        a = v.assignment(b.id, call.lineno)
        if a is None or a[0] == "tuple":
            raise TranslateError("bounds unresolved")
        b = a[0]
    if not (isinstance(b, ast.Call) and ast.unparse(b.func).endswith("Bounds")):
        raise TranslateError("bounds is not scipy.optimize.Bounds(...)")
    bk = {k.arg: k.value for k in b.keywords}
    pos = list(b.args)
    lb = bk.get("lb", pos[0] if pos else None)
    ub = bk.get("ub", pos[1] if len(pos) > 1 else None)
    if lb is None or ub is None:
        raise TranslateError("Bounds without lb/ub")
    out.append("Definition minimize_lb (b : bcfg) (n : nat) : list R :=\n  %s." %
               L.lst(lb, call.lineno))
    out.append("Definition minimize_ub (b : bcfg) (n : nat) : list R :=\n  %s." %
               L.lst(ub, call.lineno))
    # the statements about bounds rely on scipy's bounded Nelder-Mead (start vector and
    # every trial point clipped into the box, no coordinate-wise line searches)
    m = kw.get("method")
    if not (isinstance(m, ast.Constant) and m.value == "Nelder-Mead"):
        raise TranslateError("scipy.optimize.minimize is not called with method="
                             "\"Nelder-Mead\" (got %s)" % (ast.unparse(m) if m else None))
    # tol= / options= (initial_simplex, maxiter, xatol ...) change what the minimiser returns
    # and are not part of the model: any of them breaks the tie until reviewed
    for k in kw:
        if k not in ("args", "method", "bounds"):
            raise TranslateError("keyword %s of scipy.optimize.minimize is not part of the "
                                 "model (default bounded Nelder-Mead run is assumed)" % k)
    if len(call.args) != 2:
        raise TranslateError("scipy.optimize.minimize(fun, x0, ...) with further positional "
                             "arguments")
    # what is done with the minimiser's answer: only sol.x, unpacked by _toWallParams
    asg = [st for st in fn.body if isinstance(st, ast.Assign) and st.value is call and
           len(st.targets) == 1 and isinstance(st.targets[0], ast.Name)]
    if len(asg) != 1:
        raise TranslateError("result of scipy.optimize.minimize is not assigned to a name")
    sol = asg[0].targets[0].id
    good = set()
    for n in ast.walk(fn):
        if isinstance(n, ast.Call) and ast.unparse(n) == "self._toWallParams(%s.x)" % sol:
            good.add(id(n.args[0].value))
    for n in ast.walk(fn):
        if isinstance(n, ast.Name) and n.id == sol and isinstance(n.ctx, ast.Load) and \
                id(n) not in good:
            raise TranslateError("the minimiser's answer %s is used other than as "
                                 "self._toWallParams(%s.x) (line %d)" % (sol, sol, n.lineno))
    upd = [st for st in fn.body if isinstance(st, ast.Assign) and st.lineno > call.lineno and
           len(st.targets) == 1 and ast.unparse(st.targets[0]) == "wallParams"]
    if len(upd) != 1:
        raise TranslateError("update of wallParams after the minimisation not found")
    vu = Vec(fn, {"self._toWallParams(%s.x)" % sol: ("found", ("F",)),
                  "wallParams": ("old", ("F",)), "multiplier": ("multiplier", ())},
             allow_stores=("wallParams.widths", "wallParams.offsets"))
    val = vu.expr(upd[0].value, upd[0].lineno)
    if val.dims != ("F",):
        raise TranslateError("update of wallParams is not elementwise")
    out.append("(* new wall parameters from the minimiser's answer (WallParams arithmetic is "
               "componentwise, see below) *)")
    out.append("Definition relax_params (multiplier found old : R) : R :=\n  %s." % val.term)
    return out, v, fn


def gen_WallParams(cls, spans):
    """arithmetic of containers.WallParams: every operation acts on widths and offsets
    separately and elementwise"""
    fns = methods(cls)
    out = []
    for name, short, params in (("__add__", "add", "aw ao bw bo"), ("__sub__", "sub",
                                                                     "aw ao bw bo"),
                                ("__mul__", "mul", "aw ao k"), ("__truediv__", "div",
                                                                "aw ao k")):
        fn = fns.get(name)
        if fn is None:
            raise TranslateError("WallParams.%s not found" % name)
        ret = [s for s in ast.walk(fn) if isinstance(s, ast.Return)]
        if len(ret) != 1 or not (isinstance(ret[0].value, ast.Call) and
                                 ast.unparse(ret[0].value.func) == "WallParams"):
            raise TranslateError("WallParams.%s: `return WallParams(...)` expected" % name)
        kw = {k.arg: k.value for k in ret[0].value.keywords}
        if ret[0].value.args or set(kw) != {"widths", "offsets"}:
            raise TranslateError("WallParams.%s: WallParams(widths=, offsets=) expected" % name)
        arg = [a.arg for a in fn.args.args if a.arg != "self"]
        if len(arg) != 1:
            raise TranslateError("WallParams.%s: one operand expected" % name)
        inputs = {"self.widths": ("aw", ("F",)), "self.offsets": ("ao", ("F",))}
        if "bw" in params:
            inputs.update({arg[0] + ".widths": ("bw", ("F",)),
                           arg[0] + ".offsets": ("bo", ("F",))})
        else:
            inputs[arg[0]] = ("k", ())
        v = Vec(fn, inputs)
        for k in ("widths", "offsets"):
            val = v.expr(kw[k], ret[0].lineno)
            if val.dims != ("F",):
                raise TranslateError("WallParams.%s is not elementwise" % name)
            out.append("Definition WallParams_%s_%s (%s : R) : R :=\n  %s." % (
                short, k, params, val.term))
        spans["WallParams." + name] = (fn.lineno, fn.end_lineno, _sha(ast.unparse(fn)))
    fn = fns.get("__rmul__")
    body = [s for s in fn.body if not (isinstance(s, ast.Expr) and
                                       isinstance(s.value, ast.Constant))] if fn else []
    if len(body) != 1 or not isinstance(body[0], ast.Return) or \
            ast.unparse(body[0].value) != "self.__mul__(%s)" % fn.args.args[1].arg:
        raise TranslateError("WallParams.__rmul__ is not self.__mul__(number)")
    return out


def gen_clip(fn):
    """the in-place clipping of widths and offsets at the top of
    _intermediatePressureResults (attribute stores on wallParams, elementwise)"""
    out = []
    stores = {}
    for st in fn.body:
        if isinstance(st, ast.Assign) and len(st.targets) == 1 and \
                ast.unparse(st.targets[0]) in ("wallParams.widths", "wallParams.offsets"):
            k = ast.unparse(st.targets[0]).split(".")[1]
            if k in stores:
                raise TranslateError("wallParams.%s stored twice" % k)
            stores[k] = st
    if set(stores) != {"widths", "offsets"}:
        raise TranslateError("_intermediatePressureResults: clipping of wallParams.widths/"
                             "offsets not found")
    attrs = {k: v for k, v in BCFG.items()}
    for k, arg in (("widths", "w"), ("offsets", "d")):
        st = stores[k]
        v = Vec(fn, {"wallParams." + k: (arg, ("F",))}, attrs=attrs,
                allow_stores=("wallParams.widths", "wallParams.offsets"))
        val = v.expr(st.value, st.lineno)
        if val.dims != ("F",):
            raise TranslateError("clipping of %s is not elementwise over the fields" % k)
        out.append("Definition clip_%s (b : bcfg) (%s : R) : R :=\n  %s." % (k, arg, val.term))
    return out


def gen_dVdz(v, fn, spans, axis_consts):
    """dVdz = sum over fields of dVfull * dPhidz, and the def-use facts around it"""
    out = []
    at = fn.end_lineno + 1
    trip = {"dVdPhi": ("(fst (fst t))", ("P", "F")), "dVout": ("(snd (fst t))", ("P", "F")),
            "dPhidz": ("(snd t)", ("P", "F"))}
    vv = Vec(fn, trip, lam=("t", "ts"), allow_stores=("wallParams.widths", "wallParams.offsets"))
    a = vv.assignment("dVdz", at)
    if a is None or a[0] == "tuple":
        raise TranslateError("dVdz not found")
    val = vv.expr(a[0], a[1])
    if val.dims != ("P",):
        raise TranslateError("dVdz has axes %s, expected one value per grid point"
                             % (val.dims,))
    out.append("(* one grid point: ts = per-field triples (dVdPhi, dVout, dPhidz) *)")
    out.append("Definition dVdz_point (ts : list (R * R * R)) : R :=\n  %s." % val.term)
    # where dPhidz / fields come from: component index of self.wallProfile(...)
    comp = {}
    for st in vv.stmts:
        if st.lineno >= a[1]:
            break
        if isinstance(st, ast.Assign) and isinstance(st.targets[0], ast.Tuple) and \
                isinstance(st.value, ast.Call) and \
                ast.unparse(st.value.func) == "self.wallProfile":
            for k, e in enumerate(st.targets[0].elts):
                if isinstance(e, ast.Name):
                    comp[e.id] = k
    if "dPhidz" not in comp or "fields" not in comp:
        raise TranslateError("dVdz: dPhidz/fields are not unpacked from self.wallProfile")
    out.append("Definition dVdz_dPhidz_component : nat := %d." % comp["dPhidz"])
    out.append("Definition dVdz_fields_component : nat := %d." % comp["fields"])
    dv = vv.assignment("dVdPhi", a[1])
    if dv is None or dv[0] == "tuple" or not (
            isinstance(dv[0], ast.Call) and ast.unparse(dv[0].func).endswith("derivField")
            and ast.unparse(dv[0].args[0]) == "fields"):
        raise TranslateError("dVdPhi is not effectivePotential.derivField(fields, ...)")
    # fieldsWithEndpoints
    fw = vv.assignment("fieldsWithEndpoints", at)
    if fw is None or fw[0] == "tuple":
        raise TranslateError("fieldsWithEndpoints not found")
    n = fw[0]
    while isinstance(n, ast.Call) and isinstance(n.func, ast.Attribute) and \
            n.func.attr == "view":
        n = n.func.value
    if not (_np_call(n, ("concatenate",)) and len(n.args) == 1 and
            isinstance(n.args[0], ast.Tuple) and len(n.args[0].elts) == 3):
        raise TranslateError("fieldsWithEndpoints is not a 3-way np.concatenate")
    ax = [k.value for k in n.keywords if k.arg == "axis"]
    if len(ax) != 1:
        raise TranslateError("fieldsWithEndpoints: axis keyword expected")
    axc = const_value(ax[0])
    if axc is not None:
        axis = "%d" % int(axc)
    elif isinstance(ax[0], ast.Attribute) and ax[0].attr in axis_consts:
        axis = ax[0].attr
    else:
        raise TranslateError("fieldsWithEndpoints: axis %s" % ast.unparse(ax[0]))
    names = {"vevLowT": "lo", "fields": "M", "vevHighT": "hi"}
    parts = [ast.unparse(e) for e in n.args[0].elts]
    if sorted(parts) != sorted(names):
        raise TranslateError("fieldsWithEndpoints concatenates %s" % parts)
    out.append("Definition fieldsWithEndpoints {A : Type} (lo M hi : list (list A)) :=\n"
               "  mconcat3 %s %s." % (axis, " ".join(names[p] for p in parts)))
    spans["_intermediatePressureResults"] = (fn.lineno, fn.end_lineno,
                                             _sha(ast.unparse(fn)))
    return out


# -- class Fields -----------------------------------------------------------------------

def _peel_view(n):
    while isinstance(n, ast.Call) and isinstance(n.func, ast.Attribute) and \
            n.func.attr == "view":
        n = n.func.value
    return n


def _self_index(node, nat):
    """self[...] -> Coq term over M (rows = points)"""
    node = _peel_view(node)
    if not (isinstance(node, ast.Subscript) and isinstance(node.value, ast.Name) and
            node.value.id == "self"):
        raise TranslateError("Fields: expected an index expression on self, got %s"
                             % ast.unparse(node)[:50])
    items = node.slice.elts if isinstance(node.slice, ast.Tuple) else [node.slice]

    def full(s):
        return isinstance(s, ast.Slice) and s.lower is None and s.upper is None and \
            s.step is None

    def rng(s):
        return isinstance(s, ast.Slice) and s.lower is not None and s.upper is not None \
            and s.step is None
    if len(items) == 1 and not isinstance(items[0], ast.Slice):
        return "(mrow M %s)" % nat(items[0])
    if len(items) == 2:
        a, b = items
        if not isinstance(a, ast.Slice) and full(b):
            return "(mrow M %s)" % nat(a)
        if full(a) and not isinstance(b, ast.Slice):
            return "(mcol d M %s)" % nat(b)
        if rng(a) and full(b):
            return "(mrows_slice %s %s M)" % (nat(a.lower), nat(a.upper))
        if full(a) and rng(b):
            return "(mcols_slice %s %s M)" % (nat(b.lower), nat(b.upper))
    raise TranslateError("Fields: index %s" % ast.unparse(node)[:50])


def gen_Fields(cls, spans):
    out, consts = [], {}
    for st in cls.body:
        if isinstance(st, ast.AnnAssign) and isinstance(st.target, ast.Name) and \
                st.target.id in ("overFieldPoints", "overFieldTypes"):
            c = const_value(st.value)
            if c is None or c.denominator != 1:
                raise TranslateError("Fields.%s is not an integer literal" % st.target.id)
            consts[st.target.id] = int(c)
    if set(consts) != {"overFieldPoints", "overFieldTypes"}:
        raise TranslateError("Fields axis constants not found")
    for k in ("overFieldPoints", "overFieldTypes"):
        out.append("Definition %s : nat := %d." % (k, consts[k]))
    fns = methods(cls)

    def single_return(name):
        fn = fns.get(name)
        if fn is None:
            raise TranslateError("Fields.%s not found" % name)
        body = [s for s in fn.body if not (isinstance(s, ast.Expr) and
                                           isinstance(s.value, ast.Constant))]
        spans["Fields." + name] = (fn.lineno, fn.end_lineno, _sha(ast.unparse(fn)))
        return fn, body

    def nat_of(params):
        def nat(n):
            if isinstance(n, ast.Name) and n.id in params:
                return n.id
            c = const_value(n)
            if c is not None and c.denominator == 1 and c >= 0:
                return "%d" % int(c)
            raise TranslateError("Fields: index expression %s" % ast.unparse(n))
        return nat
    for name in ("getFieldPoint", "getField"):
        fn, body = single_return(name)
        if len(body) != 1 or not isinstance(body[0], ast.Return):
            raise TranslateError("Fields.%s: single return expected" % name)
        ps = [a.arg for a in fn.args.args if a.arg != "self"]
        out.append("Definition Fields_%s {A : Type} (d : A) (M : list (list A)) (%s : nat) "
                   ":=\n  %s." % (name, " ".join(ps), _self_index(body[0].value,
                                                                 nat_of(ps))))
    for name in ("numPoints", "numFields"):
        fn, body = single_return(name)
        n = body[0].value if len(body) == 1 and isinstance(body[0], ast.Return) else None
        if not (isinstance(n, ast.Subscript) and ast.unparse(n.value) == "self.shape" and
                const_value(n.slice) is not None):
            raise TranslateError("Fields.%s: `return self.shape[k]` expected" % name)
        out.append("Definition Fields_%s {A : Type} (M : list (list A)) : nat := "
                   "mshape M %d." % (name, int(const_value(n.slice))))
    fn, body = single_return("takeSlice")
    ps = [a.arg for a in fn.args.args if a.arg != "self"]
    if len(body) != 1 or not isinstance(body[0], ast.If) or len(body[0].body) != 1 or \
            len(body[0].orelse) != 1 or not isinstance(body[0].body[0], ast.Return) or \
            not isinstance(body[0].orelse[0], ast.Return):
        raise TranslateError("Fields.takeSlice: if/else of two returns expected")
    t = body[0].test
    if not (isinstance(t, ast.Compare) and len(t.ops) == 1 and isinstance(t.ops[0], ast.Eq)
            and isinstance(t.left, ast.Name) and t.left.id in ps and
            isinstance(t.comparators[0], ast.Attribute) and
            t.comparators[0].attr in consts):
        raise TranslateError("Fields.takeSlice: test %s" % ast.unparse(t))
    nat = nat_of(ps)
    out.append("Definition Fields_takeSlice {A : Type} (d : A) (M : list (list A)) (%s : nat)"
               " :=\n  if Nat.eqb %s %s then %s else %s." % (
                   " ".join(ps), t.left.id, t.comparators[0].attr,
                   _self_index(body[0].body[0].value, nat),
                   _self_index(body[0].orelse[0].value, nat)))
    return out, consts


HEADER = """(* generated by tools/gen_fields.py from src/WallGo/equationOfMotion.py and
   src/WallGo/fields.py -- do not edit *)
From Coq Require Import Reals List.
From WG Require Import Lib.FieldSpace.
Import ListNotations.
Local Open Scope R_scope.
"""


def generate(eom_src, fields_src, others=None):
    spans = {}
    VISITED.clear()
    eom_cls = find_class(ast.parse(eom_src), "EOM")
    eom = methods(eom_cls)
    for m in ("wallProfile", "action", "_updateGrid", "_toWallParams",
              "_intermediatePressureResults", "temperatureProfileEqLHS"):
        if m not in eom:
            raise TranslateError("EOM.%s not found" % m)
    out = [HEADER]
    fout, consts = gen_Fields(find_class(ast.parse(fields_src), "Fields"), spans)
    out += ["(** class Fields *)"] + fout
    out += ["(** EOM.wallProfile (elementwise in the field axis) *)"] + \
        gen_wallProfile(eom["wallProfile"], spans)
    out += ["(** EOM.action *)"] + gen_action(eom["action"], spans)
    out += ["(** EOM._updateGrid: arguments of grid.changePositionFalloffScale *)"] + \
        gen_updateGrid(eom["_updateGrid"], spans)
    out += ["(** EOM.temperatureProfileEqLHS (energy-momentum conservation inside the wall) *)"] \
        + gen_temperatureLHS(eom["temperatureProfileEqLHS"], spans)
    pk, v, fn = gen_packing(eom, spans)
    out += ["(** EOM._toWallParams and what scipy.optimize.minimize receives *)"] + pk
    if others and "containers.py" in others:
        out += ["(** containers.WallParams arithmetic *)"] + gen_WallParams(
            find_class(ast.parse(others["containers.py"]), "WallParams"), spans)
    else:
        raise TranslateError("containers.py not given")
    out += ["(** EOM._intermediatePressureResults: clipping of the incoming wall parameters "
            "(elementwise, every field including the pinned one) *)"] + gen_clip(fn)
    out += ["(** EOM._intermediatePressureResults: dV/dz and the Boltzmann background *)"] + \
        gen_dVdz(v, fn, spans, consts)
    sources = {"equationOfMotion.py": eom_src}
    sources.update(others or {})
    bad = unmodelled_sites(sources)
    if bad:
        raise TranslateError("field-axis data is compared / reduced / indexed by position "
                             "outside the model: " + "; ".join(bad))
    return "\n".join(out) + "\n", spans


if __name__ == "__main__":
    import sys
    import vlib
    text, spans = generate(vlib.read_src("equationOfMotion.py"), vlib.read_src("fields.py"),
                           {f: vlib.read_src(f) for f in SCAN_FILES})
    sys.stdout.write(text)
