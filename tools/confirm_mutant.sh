#!/bin/bash
# tools/confirm_mutant.sh Cxx k : in the scratch worktree /tmp/wt/Cxx confirm that seeded change k
# (a) applies, (b) leaves the 152 baseline tests passing, (c) its demo fails with it and passes without.
pid=$1; k=$2
wt=/tmp/wt/$pid; inc=/verif/seeded/_incoming/$pid
out=$inc/confirm$k.json
cd $wt || exit 2
git checkout -q -- . ; 
run() { (cd $wt && PYTHONPATH=$wt/src:$wt PYTHONHASHSEED=0 timeout 1800 /venv/bin/python -W ignore "$@"); }
run $inc/demo$k.py > $inc/demo${k}_clean.log 2>&1; d0=$?
git apply $inc/patch$k.diff || { echo "{\"applies\": false}" > $out; exit 1; }
run $inc/demo$k.py > $inc/demo${k}_mut.log 2>&1; d1=$?
run -m pytest -q -p no:cacheprovider --timeout=900 -x --deselect tests/Benchmarks/SingletSM_Z2/test_EOM.py --deselect tests/test_Boltzmann.py > $inc/tests$k.log 2>&1; t=$?
summary=$(tail -1 $inc/tests$k.log)
git checkout -q -- .
echo "{\"applies\": true, \"demo_clean_exit\": $d0, \"demo_mutant_exit\": $d1, \"tests_exit\": $t, \"tests_summary\": \"$summary\"}" > $out
cat $out
