"""Generated model of WallGo.Thermodynamics (state mode): all piecewise EOS functions and
setExtrapolate, parametric in the free-energy tables fHigh/fLow and their derivatives."""
import pyrx
from pyrx import Pattern

ATTRS = ["TMaxHighT", "TMinHighT", "TMaxLowT", "TMinLowT",
         "muMinHighT", "aMinHighT", "epsilonMinHighT",
         "muMaxHighT", "aMaxHighT", "epsilonMaxHighT",
         "muMinLowT", "aMinLowT", "epsilonMinLowT",
         "muMaxLowT", "aMaxLowT", "epsilonMaxLowT"]
METHODS = ["pHighT", "dpHighT", "ddpHighT", "eHighT", "deHighT", "wHighT", "csqHighT",
           "pLowT", "dpLowT", "ddpLowT", "eLowT", "deLowT", "wLowT", "csqLowT", "alpha"]
EXT = [
    Pattern("self.freeEnergyHigh(_0).veffValue", "fHigh", "R -> R"),
    Pattern("self.freeEnergyLow(_0).veffValue", "fLow", "R -> R"),
    Pattern("self.freeEnergyHigh.derivative(_0, order=1).veffValue", "dfHigh", "R -> R"),
    Pattern("self.freeEnergyHigh.derivative(_0, order=2).veffValue", "ddfHigh", "R -> R"),
    Pattern("self.freeEnergyLow.derivative(_0, order=1).veffValue", "dfLow", "R -> R"),
    Pattern("self.freeEnergyLow.derivative(_0, order=2).veffValue", "ddfLow", "R -> R"),
    Pattern("self.freeEnergyHigh.maxPossibleTemperature[0]", "tabMaxHigh", "R"),
    Pattern("self.freeEnergyHigh.minPossibleTemperature[0]", "tabMinHigh", "R"),
    Pattern("self.freeEnergyLow.maxPossibleTemperature[0]", "tabMaxLow", "R"),
    Pattern("self.freeEnergyLow.minPossibleTemperature[0]", "tabMinLow", "R"),
]


def generate(src):
    tr = pyrx.ClassTranslator(src, "Thermodynamics", ATTRS, EXT, METHODS, state=True)
    # keyword call patterns (order=1) are matched as externals before `call` sees them
    defs = []
    # order: callees first
    order = ["dpHighT", "ddpHighT", "pHighT", "deHighT", "eHighT", "wHighT", "csqHighT",
             "dpLowT", "ddpLowT", "pLowT", "deLowT", "eLowT", "wLowT", "csqLowT",
             "alpha", "setExtrapolate"]
    for m in order:
        if m == "setExtrapolate":
            defs.append(tr.method_steps(m))
        else:
            defs.append(tr.method(m))
    out = [pyrx.COQ_PRELUDE, "(* generated from src/WallGo/thermodynamics.py *)",
           tr.header()] + defs
    return "\n".join(out) + "\n", tr


# ---------------------------------------------------------------------------------------
# frame condition: who writes the modelled attributes, who can rebind a modelled method
# ---------------------------------------------------------------------------------------
import ast
import glob
import os
import re

ENV_ATTRS = ["freeEnergyHigh", "freeEnergyLow"]      # the tables the model is parametric in
STATE_NAMES = ATTRS + ENV_ATTRS
CLASS = "Thermodynamics"


def _targets(n):
    if isinstance(n, ast.Assign):
        return n.targets
    if isinstance(n, (ast.AugAssign, ast.AnnAssign)):
        return [n.target]
    if isinstance(n, (ast.For, ast.AsyncFor, ast.comprehension)):
        return [n.target]
    if isinstance(n, (ast.With, ast.AsyncWith)):
        return [i.optional_vars for i in n.items if i.optional_vars is not None]
    if isinstance(n, ast.Delete):
        return n.targets
    if isinstance(n, ast.NamedExpr):
        return [n.target]
    return []


def _stores(node):
    """all attribute-store targets (ast.Attribute) below `node`"""
    out = []
    for n in ast.walk(node):
        for t in _targets(n):
            for a in ast.walk(t):
                if isinstance(a, ast.Attribute) and isinstance(a.ctx, (ast.Store, ast.Del)):
                    out.append(a)
    return out


def _contexts(tree):
    """node id -> (stack of enclosing ClassDef/FunctionDef/Lambda nodes, outermost first)"""
    ctx = {}

    def walk(n, stack):
        ctx[id(n)] = stack
        inner = stack + [n] if isinstance(n, (ast.ClassDef, ast.FunctionDef,
                                              ast.AsyncFunctionDef, ast.Lambda)) else stack
        for c in ast.iter_child_nodes(n):
            walk(c, inner)
    walk(tree, [])
    return ctx


def _is_func(n):
    return isinstance(n, (ast.FunctionDef, ast.AsyncFunctionDef))


def frame_facts(repo_src_dir):
    """Facts about every file under src/WallGo, consumed by two theorems of Props/C10.v.

    The theorems are about the state right after setExtrapolate read by the 15 translated
    methods, so (a) no other method of the class, no function outside it, no subclass and no
    other module may assign one of the 16 modelled attributes or rebind the two free-energy
    members, by an attribute store on ANY base expression or by dynamic access that can reach a
    Thermodynamics object; (b) nothing may rebind a method of the class: on the instance
    (`self.csqLowT = cache(self.csqLowT)`), on the class from outside its body
    (`Thermodynamics.csqLowT = ...`), in a subclass, or through a base class other than object.

    A store `self.X = ...` inside a method of a class that is not (derived from) Thermodynamics
    is that class's own attribute and is not counted (Hydrodynamics keeps its own TMinHighT...).
    """
    import pyrx
    files = sorted(glob.glob(os.path.join(repo_src_dir, "**", "*.py"), recursive=True))
    trees = {os.path.relpath(p, repo_src_dir): ast.parse(open(p).read()) for p in files}
    # names under which the class is known anywhere in the package (import ... as, X = Thermodynamics)
    alias = {CLASS}
    for _ in range(3):
        for tree in trees.values():
            for n in ast.walk(tree):
                if isinstance(n, ast.ImportFrom):
                    alias |= {a.asname for a in n.names if a.name in alias and a.asname}
                elif isinstance(n, ast.Assign) and isinstance(n.value, (ast.Name, ast.Attribute)) \
                        and ast.unparse(n.value).split(".")[-1] in alias:
                    alias |= {t.id for t in n.targets if isinstance(t, ast.Name)}
    word = re.compile(r"\b(%s)\b" % "|".join(sorted(re.escape(a) for a in alias)))
    names_class = lambda node: bool(word.search(ast.unparse(node)))
    # classes derived (transitively, by name) from Thermodynamics
    derived = set()
    for _ in range(4):
        for tree in trees.values():
            for c in ast.walk(tree):
                if isinstance(c, ast.ClassDef) and any(
                        names_class(b) or ast.unparse(b).split(".")[-1] in derived
                        for b in c.bases):
                    derived.add(c.name)
    thermo_methods = []
    for n in trees.get("thermodynamics.py", ast.Module(body=[], type_ignores=[])).body:
        if isinstance(n, ast.ClassDef) and n.name == CLASS:
            thermo_methods = [f.name for f in n.body if _is_func(f)]
    method_names = set(thermo_methods) | set(METHODS) | {"setExtrapolate"}

    writers, env_writers = {}, {}
    foreign, dynamic, shadow, notes = [], [], [], []
    for rel, tree in trees.items():
        ctxs = _contexts(tree)
        in_thermo_file = rel == "thermodynamics.py"
        thermo_cls = None
        if in_thermo_file:
            for n in tree.body:
                if isinstance(n, ast.ClassDef) and n.name == CLASS:
                    thermo_cls = n
        where = lambda n: "%s:%d" % (rel, n.lineno)

        def owner(node):
            """('thermo', method) if `self` at `node` is an instance of the class itself seen from
            one of its own methods; ('derived', cls); ('other', cls) for a method of an unrelated
            class; ('none', None) outside any class method (module-level function, nested
            function, lambda, class body)"""
            stack = ctxs[id(node)]
            if len(stack) == 2 and isinstance(stack[0], ast.ClassDef) and _is_func(stack[1]) \
                    and stack[1] in stack[0].body and stack[1].args.args \
                    and stack[1].args.args[0].arg == "self":
                c = stack[0]
                if c is thermo_cls:
                    return "thermo", stack[1].name
                if c.name in derived or (in_thermo_file and c.name == CLASS):
                    return "derived", c.name
                return "other", c.name
            for c in stack:
                if isinstance(c, ast.ClassDef) and (c.name in derived or c is thermo_cls):
                    return "derived", c.name
            cls = [c for c in stack if isinstance(c, ast.ClassDef)]
            fns = [c for c in stack if not isinstance(c, ast.ClassDef)]
            if cls and fns and fns[0] in cls[-1].body and len(cls) == 1 and \
                    stack[0] is cls[0] and not in_thermo_file:
                # closure nested in a method of an unrelated class: `self` is still that
                # class's instance
                return "other", cls[0].name
            return "none", None

        def reaches(target, node):
            """can the object `target` (an expression) be a Thermodynamics instance/class?"""
            kind, _ = owner(node)
            if in_thermo_file or kind in ("thermo", "derived"):
                return True
            txt = ast.unparse(target) if target is not None else ""
            return bool(re.search(r"thermo", txt, re.I)) or names_class(target) \
                if target is not None else False

        # --- the class itself and its subclasses ---------------------------------------
        for c in ast.walk(tree):
            if not isinstance(c, ast.ClassDef):
                continue
            if c is thermo_cls:
                for b in c.bases:
                    if ast.unparse(b) != "object":
                        shadow.append("%s: class %s has the base class %s" % (
                            where(c), CLASS, ast.unparse(b)))
            elif c.name in derived or (in_thermo_file and c.name == CLASS):
                for f in c.body:
                    nm = [f.name] if _is_func(f) or isinstance(f, ast.ClassDef) else \
                        [t.id for t in _targets(f) if isinstance(t, ast.Name)]
                    for x in nm:
                        if x in method_names or x in pyrx.HOOK_METHODS or x in STATE_NAMES:
                            shadow.append("%s: class %s(%s) overrides %s" % (
                                where(f), c.name, ", ".join(ast.unparse(b) for b in c.bases), x))
        # --- attribute stores ---------------------------------------------------------------
        for a in _stores(tree):
            kind, who = owner(a)
            self_base = isinstance(a.value, ast.Name) and a.value.id == "self"
            own_other = self_base and kind == "other"     # another class's own attribute
            desc = "%s: %s%s" % (where(a), ast.unparse(a),
                                 " in %s.%s" % (CLASS, who) if kind == "thermo" else
                                 " in class %s" % who if who else "")
            if a.attr in STATE_NAMES and not own_other:
                if kind == "thermo" and self_base:
                    d = writers if a.attr in ATTRS else env_writers
                    d.setdefault(who, [])
                    if a.attr not in d[who]:
                        d[who].append(a.attr)
                else:
                    foreign.append(desc)
            if not own_other and (
                    (a.attr in method_names and (self_base and kind != "other" or
                                                 reaches(a.value, a)))
                    or names_class(a.value)):
                # self.<method> = ..., Thermodynamics.<anything> = ..., thermo.<method> = ...
                shadow.append(desc + " rebinds a method / patches the class")
        # --- dynamic access -----------------------------------------------------------------
        for n in ast.walk(tree):
            if isinstance(n, ast.Call):
                fn = n.func
                nm = fn.id if isinstance(fn, ast.Name) else \
                    fn.attr if isinstance(fn, ast.Attribute) else None
                lit = [x.value for x in n.args[:2] if isinstance(x, ast.Constant)
                       and isinstance(x.value, str)]
                txt = "%s: %s" % (where(n), ast.unparse(n)[:70])
                if isinstance(fn, ast.Name) and nm in ("setattr", "delattr", "vars"):
                    tgt = n.args[0] if n.args else None
                    if reaches(tgt, n) or any(x in STATE_NAMES or x in method_names for x in lit):
                        dynamic.append(txt)
                    else:
                        notes.append(txt)
                elif isinstance(fn, ast.Attribute) and nm in ("__setattr__", "__delattr__"):
                    # object.__setattr__(self, name, v) / type(x).__setattr__(x, ...)
                    tgt = n.args[0] if n.args else None
                    if reaches(tgt, n) or reaches(fn.value, n) or \
                            any(x in STATE_NAMES or x in method_names for x in lit):
                        dynamic.append(txt)
                    else:
                        notes.append(txt)
                elif isinstance(fn, ast.Name) and nm in ("exec", "eval"):
                    src = " ".join(x.value for x in ast.walk(n) if isinstance(x, ast.Constant)
                                   and isinstance(x.value, str))
                    if reaches(None, n) or re.search(r"thermo", src, re.I) or any(
                            re.search(r"\b%s\b" % re.escape(x), src)
                            for x in list(STATE_NAMES) + sorted(method_names)):
                        dynamic.append(txt)
                    else:
                        notes.append(txt)
                for k in n.keywords:
                    if k.arg in STATE_NAMES:
                        dynamic.append("%s: keyword %s= in %s" % (where(n), k.arg,
                                                                  ast.unparse(n)[:50]))
            elif isinstance(n, ast.Attribute) and n.attr == "__dict__":
                txt = "%s: %s" % (where(n), ast.unparse(n)[:70])
                (dynamic if reaches(n.value, n) else notes).append(txt)
            elif isinstance(n, ast.Constant) and isinstance(n.value, str) and \
                    n.value in STATE_NAMES:
                dynamic.append("%s: the string %r names a modelled attribute" % (where(n),
                                                                                 n.value))
    q = lambda s: '"%s"' % s.replace('"', "'")
    lst = lambda l: "[" + "; ".join(q(x) for x in l) + "]"
    pairs = lambda d: "[%s]" % "; ".join("(%s, %s)" % (q(m), lst(a)) for m, a in sorted(d.items()))
    text = "\n".join([
        "(* generated: writers of the modelled attributes of Thermodynamics in src/WallGo *)",
        "From Coq Require Import String List. Import ListNotations. Open Scope string_scope.",
        "Definition modelled_attrs : list string := %s." % lst(ATTRS),
        "Definition writers : list (string * list string) := %s." % pairs(writers),
        "Definition env_writers : list (string * list string) := %s." % pairs(env_writers),
        "Definition foreign_writers : list string := %s." % lst(sorted(set(foreign))),
        "Definition dynamic_writes : list string := %s." % lst(sorted(set(dynamic))),
        "Definition method_rebindings : list string := %s." % lst(sorted(set(shadow))),
        ""])
    return text, dict(writers=writers, env_writers=env_writers, foreign=sorted(set(foreign)),
                      dynamic=sorted(set(dynamic)), shadow=sorted(set(shadow)),
                      notes=sorted(set(notes)), files=len(files))
