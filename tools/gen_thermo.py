"""Generated model of WallGo.Thermodynamics (state mode): all piecewise EOS functions and
setExtrapolate, parametric in the free-energy tables fHigh/fLow and their derivatives."""
import pyrx
from pyrx import Pattern

ATTRS = ["TMaxHighT", "TMinHighT", "TMaxLowT", "TMinLowT",
         "muMinHighT", "aMinHighT", "epsilonMinHighT",
         "muMaxHighT", "aMaxHighT", "epsilonMaxHighT",
         "muMinLowT", "aMinLowT", "epsilonMinLowT",
         "muMaxLowT", "aMaxLowT", "epsilonMaxLowT"]
METHODS = ["pHighT", "dpHighT", "ddpHighT", "eHighT", "deHighT", "wHighT", "csqHighT",
           "pLowT", "dpLowT", "ddpLowT", "eLowT", "deLowT", "wLowT", "csqLowT", "alpha"]
EXT = [
    Pattern("self.freeEnergyHigh(_0).veffValue", "fHigh", "R -> R"),
    Pattern("self.freeEnergyLow(_0).veffValue", "fLow", "R -> R"),
    Pattern("self.freeEnergyHigh.derivative(_0, order=1).veffValue", "dfHigh", "R -> R"),
    Pattern("self.freeEnergyHigh.derivative(_0, order=2).veffValue", "ddfHigh", "R -> R"),
    Pattern("self.freeEnergyLow.derivative(_0, order=1).veffValue", "dfLow", "R -> R"),
    Pattern("self.freeEnergyLow.derivative(_0, order=2).veffValue", "ddfLow", "R -> R"),
    Pattern("self.freeEnergyHigh.maxPossibleTemperature[0]", "tabMaxHigh", "R"),
    Pattern("self.freeEnergyHigh.minPossibleTemperature[0]", "tabMinHigh", "R"),
    Pattern("self.freeEnergyLow.maxPossibleTemperature[0]", "tabMaxLow", "R"),
    Pattern("self.freeEnergyLow.minPossibleTemperature[0]", "tabMinLow", "R"),
]


def generate(src):
    tr = pyrx.ClassTranslator(src, "Thermodynamics", ATTRS, EXT, METHODS, state=True)
    # keyword call patterns (order=1) are matched as externals before `call` sees them
    defs = []
    # order: callees first
    order = ["dpHighT", "ddpHighT", "pHighT", "deHighT", "eHighT", "wHighT", "csqHighT",
             "dpLowT", "ddpLowT", "pLowT", "deLowT", "eLowT", "wLowT", "csqLowT",
             "alpha", "setExtrapolate"]
    for m in order:
        if m == "setExtrapolate":
            defs.append(tr.method_steps(m))
        else:
            defs.append(tr.method(m))
    out = [pyrx.COQ_PRELUDE, "(* generated from src/WallGo/thermodynamics.py *)",
           tr.header()] + defs
    return "\n".join(out) + "\n", tr
