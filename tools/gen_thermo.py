"""Generated model of WallGo.Thermodynamics (state mode): all piecewise EOS functions and
setExtrapolate, parametric in the free-energy tables fHigh/fLow and their derivatives."""
import pyrx
from pyrx import Pattern

ATTRS = ["TMaxHighT", "TMinHighT", "TMaxLowT", "TMinLowT",
         "muMinHighT", "aMinHighT", "epsilonMinHighT",
         "muMaxHighT", "aMaxHighT", "epsilonMaxHighT",
         "muMinLowT", "aMinLowT", "epsilonMinLowT",
         "muMaxLowT", "aMaxLowT", "epsilonMaxLowT"]
METHODS = ["pHighT", "dpHighT", "ddpHighT", "eHighT", "deHighT", "wHighT", "csqHighT",
           "pLowT", "dpLowT", "ddpLowT", "eLowT", "deLowT", "wLowT", "csqLowT", "alpha"]
EXT = [
    Pattern("self.freeEnergyHigh(_0).veffValue", "fHigh", "R -> R"),
    Pattern("self.freeEnergyLow(_0).veffValue", "fLow", "R -> R"),
    Pattern("self.freeEnergyHigh.derivative(_0, order=1).veffValue", "dfHigh", "R -> R"),
    Pattern("self.freeEnergyHigh.derivative(_0, order=2).veffValue", "ddfHigh", "R -> R"),
    Pattern("self.freeEnergyLow.derivative(_0, order=1).veffValue", "dfLow", "R -> R"),
    Pattern("self.freeEnergyLow.derivative(_0, order=2).veffValue", "ddfLow", "R -> R"),
    Pattern("self.freeEnergyHigh.maxPossibleTemperature[0]", "tabMaxHigh", "R"),
    Pattern("self.freeEnergyHigh.minPossibleTemperature[0]", "tabMinHigh", "R"),
    Pattern("self.freeEnergyLow.maxPossibleTemperature[0]", "tabMaxLow", "R"),
    Pattern("self.freeEnergyLow.minPossibleTemperature[0]", "tabMinLow", "R"),
]


def generate(src):
    tr = pyrx.ClassTranslator(src, "Thermodynamics", ATTRS, EXT, METHODS, state=True)
    # keyword call patterns (order=1) are matched as externals before `call` sees them
    defs = []
    # order: callees first
    order = ["dpHighT", "ddpHighT", "pHighT", "deHighT", "eHighT", "wHighT", "csqHighT",
             "dpLowT", "ddpLowT", "pLowT", "deLowT", "eLowT", "wLowT", "csqLowT",
             "alpha", "setExtrapolate"]
    for m in order:
        if m == "setExtrapolate":
            defs.append(tr.method_steps(m))
        else:
            defs.append(tr.method(m))
    out = [pyrx.COQ_PRELUDE, "(* generated from src/WallGo/thermodynamics.py *)",
           tr.header()] + defs
    return "\n".join(out) + "\n", tr


# ---------------------------------------------------------------------------------------
# frame condition: who writes the modelled attributes
# ---------------------------------------------------------------------------------------
import ast
import glob
import os


def _stores(node):
    """all attribute-store targets (ast.Attribute) below `node`"""
    out = []
    for n in ast.walk(node):
        tg = []
        if isinstance(n, ast.Assign):
            tg = n.targets
        elif isinstance(n, (ast.AugAssign, ast.AnnAssign)):
            tg = [n.target]
        elif isinstance(n, (ast.For, ast.AsyncFor)):
            tg = [n.target]
        elif isinstance(n, (ast.With, ast.AsyncWith)):
            tg = [i.optional_vars for i in n.items if i.optional_vars is not None]
        elif isinstance(n, ast.Delete):
            tg = n.targets
        for t in tg:
            for a in ast.walk(t):
                if isinstance(a, ast.Attribute) and isinstance(a.ctx, (ast.Store, ast.Del)):
                    out.append(a)
    return out


def frame_facts(repo_src_dir):
    """Facts about every writer of the 16 modelled attributes in src/WallGo: the theorems are
    about the state right after setExtrapolate, so no other method of the class, no subclass
    and no other module may assign them."""
    writers = {}
    foreign, dynamic = [], []
    files = sorted(glob.glob(os.path.join(repo_src_dir, "**", "*.py"), recursive=True))
    for path in files:
        rel = os.path.relpath(path, repo_src_dir)
        tree = ast.parse(open(path).read())
        for n in ast.walk(tree):
            if isinstance(n, ast.Call) and isinstance(n.func, ast.Name) and \
                    n.func.id in ("setattr", "delattr", "vars", "exec", "eval"):
                dynamic.append("%s:%d: %s" % (rel, n.lineno, ast.unparse(n)[:60]))
            if isinstance(n, ast.Attribute) and n.attr == "__dict__":
                dynamic.append("%s:%d: %s" % (rel, n.lineno, ast.unparse(n)[:60]))
        for cls in [c for c in ast.walk(tree) if isinstance(c, ast.ClassDef)]:
            is_thermo = rel == "thermodynamics.py" and cls.name == "Thermodynamics"
            derives = any("Thermodynamics" in ast.unparse(b) for b in cls.bases)
            for f in cls.body:
                if not isinstance(f, (ast.FunctionDef, ast.AsyncFunctionDef)):
                    continue
                for a in _stores(f):
                    if a.attr in ATTRS and isinstance(a.value, ast.Name) and a.value.id == "self":
                        if is_thermo:
                            writers.setdefault(f.name, [])
                            if a.attr not in writers[f.name]:
                                writers[f.name].append(a.attr)
                        elif derives:
                            foreign.append("%s:%d: %s.%s writes self.%s" % (
                                rel, a.lineno, cls.name, f.name, a.attr))
        for a in _stores(tree):
            if a.attr in ATTRS and not (isinstance(a.value, ast.Name) and a.value.id == "self"):
                foreign.append("%s:%d: %s" % (rel, a.lineno, ast.unparse(a)))
    q = lambda s: '"%s"' % s.replace('"', "'")
    lst = lambda l: "[" + "; ".join(q(x) for x in l) + "]"
    text = "\n".join([
        "(* generated: writers of the modelled attributes of Thermodynamics in src/WallGo *)",
        "From Coq Require Import String List. Import ListNotations. Open Scope string_scope.",
        "Definition modelled_attrs : list string := %s." % lst(ATTRS),
        "Definition writers : list (string * list string) := [%s]." % "; ".join(
            "(%s, %s)" % (q(m), lst(a)) for m, a in sorted(writers.items())),
        "Definition foreign_writers : list string := %s." % lst(sorted(set(foreign))),
        "Definition dynamic_writes : list string := %s." % lst(sorted(set(dynamic))),
        ""])
    return text, dict(writers=writers, foreign=foreign, dynamic=dynamic, files=len(files))
