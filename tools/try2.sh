#!/bin/bash
# tools/try2.sh Cxx : try round-2 seeded changes 1..3 against ./check Cxx (sequentially), summary to stdout
pid=$1; inc=/verif/seeded/${INC:-_incoming2}/$pid
for k in 1 2 3; do
  [ -f $inc/patch$k.diff ] || continue
  /verif/tools/try_mutant.sh $pid $inc/patch$k.diff > $inc/try$k.log 2>&1
  echo "== $pid patch$k: $(grep -E '^rc=' $inc/try$k.log) | $(grep -E 'failed at|translator|FAILING' $inc/try$k.log | head -2 | cut -c1-170 | tr '\n' '|')"
done
