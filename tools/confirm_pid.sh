#!/bin/bash
for k in 1 2; do /verif/tools/confirm_mutant.sh $1 $k; done
