"""Fact extractor for property C01 (tie F of DESIGN.md section 2.1).

From the CURRENT source of equationOfMotion.py and manager.py (ast only, fail closed) it emits
a Coq module `EomFacts` with

  * the scalar expressions of `EOM.solveWall` that the model is parametrised by, translated
    to Coq functions over Q:  the tolerance handed to the root finder (`gen_xtol`), the
    reported minimum velocity error (`gen_velErr`), the two values of `pressAbsErrTol`
    (`gen_atol0`, `gen_atol2`), the two guards of the closure `pressureWrapper`
    (`gen_guardMin`, `gen_guardMax`), the root finder's method and bracket;
  * the def-use table of `results.set*`: for every exit of `solveWall` (all paths are
    enumerated; loops unrolled 0/1/2 times) which evaluation -- at the upper end, at the
    (possibly doubled) lower end, or at the root returned by the root finder -- each object
    handed to a setter comes from, and from which position of wallPressure's return tuple;
  * the provenance of the solver objects in `WallGoManager`: what `setupWallSolver`,
    `buildGrid`, `buildEOM` return on every path (constructor call made during this call /
    attribute of self / something stored), and where `solveWall` / `solveWallDetonation`
    take the EOM from.

Anything outside the understood subset raises TranslateError (the check then reports the
tie as broken)."""
from __future__ import annotations

import ast
from fractions import Fraction


class TranslateError(Exception):
    pass


def src_of(node, src):
    return ast.get_source_segment(src, node) or ast.dump(node)


# ---------------------------------------------------------------------------------------
# scalar expressions -> Coq (Q)

def qlit(fr):
    fr = Fraction(fr)
    if fr.denominator == 1:
        return "(%d # 1)" % fr.numerator if fr.numerator >= 0 else "(- (%d # 1))" % -fr.numerator
    if fr.numerator < 0:
        return "(- (%d # %d))" % (-fr.numerator, fr.denominator)
    return "(%d # %d)" % (fr.numerator, fr.denominator)


class Expr:
    """Translate a Python scalar / boolean expression to a Coq term.  `env` maps Python
    names (and dotted names like 'self.errTol') to Coq variable names; `defs` maps local
    names to the AST of their (single, straight-line) definition, which is inlined."""

    FUN1 = {"abs": "Qabs", "np.abs": "Qabs", "np.fabs": "Qabs", "float": ""}
    FUN2 = {"min": "Qmin", "np.minimum": "Qmin", "max": "Qmax", "np.maximum": "Qmax"}

    def __init__(self, src, env, defs=None):
        self.src, self.env, self.defs = src, env, defs or {}
        self.used = set()

    def dotted(self, node):
        if isinstance(node, ast.Name):
            return node.id
        if isinstance(node, ast.Attribute):
            b = self.dotted(node.value)
            return None if b is None else b + "." + node.attr
        return None

    def num(self, node):
        d = self.dotted(node)
        if d is not None and d in self.env:
            self.used.add(d)
            return self.env[d]
        if isinstance(node, ast.Name) and node.id in self.defs:
            return self.num(self.defs[node.id])
        if isinstance(node, ast.Constant) and isinstance(node.value, (int, float)) \
                and not isinstance(node.value, bool):
            text = ast.get_source_segment(self.src, node)
            try:
                return qlit(Fraction(text.replace("_", "")))
            except (ValueError, AttributeError):
                return qlit(Fraction(node.value))
        if isinstance(node, ast.UnaryOp) and isinstance(node.op, ast.USub):
            return "(- %s)" % self.num(node.operand)
        if isinstance(node, ast.UnaryOp) and isinstance(node.op, ast.UAdd):
            return self.num(node.operand)
        if isinstance(node, ast.BinOp):
            ops = {ast.Add: "+", ast.Sub: "-", ast.Mult: "*", ast.Div: "/"}
            if type(node.op) in ops:
                return "(%s %s %s)" % (self.num(node.left), ops[type(node.op)],
                                       self.num(node.right))
        if isinstance(node, ast.Call) and not node.keywords:
            f = self.dotted(node.func)
            if f in self.FUN1 and len(node.args) == 1:
                a = self.num(node.args[0])
                return "(%s %s)" % (self.FUN1[f], a) if self.FUN1[f] else a
            if f in self.FUN2 and len(node.args) == 2:
                return "(%s %s %s)" % (self.FUN2[f], self.num(node.args[0]),
                                       self.num(node.args[1]))
        raise TranslateError("scalar expression outside the subset: %s" % src_of(node, self.src))

    def boolean(self, node):
        if isinstance(node, ast.BoolOp):
            op = "||" if isinstance(node.op, ast.Or) else "&&"
            return "(" + (" %s " % op).join(self.boolean(v) for v in node.values) + ")"
        if isinstance(node, ast.UnaryOp) and isinstance(node.op, ast.Not):
            return "(negb %s)" % self.boolean(node.operand)
        if isinstance(node, ast.Compare) and len(node.ops) == 1:
            a, b = self.num(node.left), self.num(node.comparators[0])
            op = node.ops[0]
            if isinstance(op, ast.Lt):
                return "(Qltb %s %s)" % (a, b)
            if isinstance(op, ast.Gt):
                return "(Qltb %s %s)" % (b, a)
            if isinstance(op, ast.LtE):
                return "(Qle_bool %s %s)" % (a, b)
            if isinstance(op, ast.GtE):
                return "(Qle_bool %s %s)" % (b, a)
        raise TranslateError("boolean expression outside the subset: %s" % src_of(node, self.src))


# ---------------------------------------------------------------------------------------
# helpers on the class / method level

def find_class(tree, name):
    for n in tree.body:
        if isinstance(n, ast.ClassDef) and n.name == name:
            return n
    raise TranslateError("class %s not found" % name)


def find_method(cls, name):
    for n in cls.body:
        if isinstance(n, ast.FunctionDef) and n.name == name:
            return n
    raise TranslateError("method %s.%s not found" % (cls.name, name))


def is_self_call(node, meth=None):
    return (isinstance(node, ast.Call) and isinstance(node.func, ast.Attribute)
            and isinstance(node.func.value, ast.Name) and node.func.value.id == "self"
            and (meth is None or node.func.attr == meth))


def strip_doc(body):
    if body and isinstance(body[0], ast.Expr) and isinstance(body[0].value, ast.Constant) \
            and isinstance(body[0].value.value, str):
        return body[1:]
    return body


# ---------------------------------------------------------------------------------------
# path enumeration of EOM.solveWall (def-use of results.set*)

class Dead(Exception):
    pass


# every call made by solveWall (also in assignments, tests and in its closure) must be one of
# these; anything else could act on `results` or on the object behind the model's back
ALLOWED_CALLS = {"self.wallPressure", "self.hydrodynamics.findvwLTE",
                 "self.getBoltzmannFiniteDifference", "WallGoResults", "abs", "max", "min",
                 "float", "scipy.optimize.root_scalar"}
ALLOWED_PREFIXES = ("np.", "logging.", "warnings.", "results.set")


def check_allowed_call(f, src, node):
    if f in ALLOWED_CALLS or f.startswith(ALLOWED_PREFIXES):
        return
    raise TranslateError("call outside the subset in solveWall: %s (line %s)"
                         % (f, getattr(node, "lineno", "?")))


class PathWalker:
    """Enumerates the paths of a method body (if: both arms; while: 0, 1 or 2 iterations) and
    tracks, per path, an abstract value for every local name."""

    LOG_CALLS = ("logging.", "warnings.", "print")

    def __init__(self, src, fn):
        self.src, self.fn = src, fn
        self.params = [a.arg for a in fn.args.args if a.arg != "self"]
        if len(self.params) < 5:
            raise TranslateError("solveWall: expected (lower, upper, guess, tupleAtLower, "
                                 "tupleAtUpper)")
        # roles by POSITION, so that renaming a parameter is harmless
        self.p_lo, self.p_hi, self.p_glo, self.p_ghi = (self.params[0], self.params[1],
                                                        self.params[3], self.params[4])
        self.atol_stores = {}
        self.attr_stores = set()   # every attribute store (results.x = ..., self.x = ...)
        self.exits = []      # list of dict(sets=[(setter, [vals])], env, after_root, line)
        self.closures = {}   # name -> (FunctionDef, env snapshot) of the last path that saw it
        self.rootcall = None

    # abstract values are tuples
    def val(self, node, st):
        env = st["env"]
        if isinstance(node, ast.Name):
            return env.get(node.id, ("free", node.id))
        if isinstance(node, ast.Constant):
            return ("const", repr(node.value))
        if isinstance(node, ast.Attribute):
            b = self.val(node.value, st)
            return ("attr", b, node.attr)
        if isinstance(node, ast.Subscript):
            b = self.val(node.value, st)
            if isinstance(node.slice, ast.Constant) and isinstance(node.slice.value, int):
                return self.elem(b, node.slice.value)
            return ("expr", src_of(node, self.src))
        if isinstance(node, ast.Call):
            if is_self_call(node, "wallPressure"):
                if not node.args:
                    raise TranslateError("wallPressure called without a velocity")
                v = self.val(node.args[0], st)
                site = self.site_of_velocity(v)
                st["evals"].append(site)
                return ("evaltuple", site, len(st["evals"]))
            f = src_of(node.func, self.src)
            if f == "scipy.optimize.root_scalar" or f.endswith("root_scalar"):
                st["after_root"] = True
                self.rootcall = (node, dict(env))
                return ("rootresult",)
            check_allowed_call(f, self.src, node)
            return ("call", f, tuple(self.val(a, st) for a in node.args))
        return ("expr", src_of(node, self.src))

    def site_of_velocity(self, v):
        if v == ("param", self.p_hi):
            return "AtMax"
        if v == ("param", self.p_lo):
            return "AtMin"
        if v == ("attr", ("rootresult",), "root"):
            return "AtRoot"
        return "Unknown"

    def elem(self, b, i):
        if b[0] == "evaltuple":
            return ("evalelem", b[1], b[2], i)
        if b[0] == "param" and b[1] == self.p_ghi:
            return ("evalelem", "AtMax", 0, i)
        if b[0] == "param" and b[1] == self.p_glo:
            return ("evalelem", "AtMin", 0, i)
        return ("elem", b, i)

    def assign(self, target, value, st):
        env = st["env"]
        if isinstance(target, ast.Name):
            env[target.id] = value
        elif isinstance(target, (ast.Tuple, ast.List)):
            for i, t in enumerate(target.elts):
                self.assign(t, self.elem(value, i), st)
        elif isinstance(target, ast.Attribute):
            st["stores"].append((src_of(target, self.src), value))
            self.attr_stores.add(src_of(target, self.src))
        else:
            raise TranslateError("assignment target outside the subset: %s"
                                 % src_of(target, self.src))

    def run(self):
        st = dict(env={p: ("param", p) for p in self.params}, sets=[], evals=[],
                  after_root=False, stores=[], state=None)
        self.block(strip_doc(self.fn.body), st, lambda s: self.exit(s, None))

    def exit(self, st, node):
        self.exits.append(dict(sets=list(st["sets"]), after_root=st["after_root"],
                               state=st["state"], evals=list(st["evals"]),
                               line=getattr(node, "lineno", None)))

    @staticmethod
    def fork(st):
        return dict(env=dict(st["env"]), sets=list(st["sets"]), evals=list(st["evals"]),
                    after_root=st["after_root"], stores=list(st["stores"]),
                    state=st["state"])

    def block(self, stmts, st, cont):
        """continuation-passing walk so that every path is followed to its exit"""
        if not stmts:
            return cont(st)
        s, rest = stmts[0], stmts[1:]
        nxt = lambda st2: self.block(rest, st2, cont)
        if isinstance(s, ast.Return):
            if s.value is not None and not (isinstance(s.value, ast.Name)
                                            and s.value.id == "results"):
                raise TranslateError("solveWall returns something else than `results`")
            return self.exit(st, s)
        if isinstance(s, ast.If):
            a, b = self.fork(st), self.fork(st)
            self.val(s.test, a)
            self.block(s.body, a, nxt)
            self.block(s.orelse, b, nxt)
            return None
        if isinstance(s, ast.While):
            # 0, 1, 2 iterations
            def unroll(st0, n):
                done = self.fork(st0)
                nxt(done)
                if n > 0:
                    it = self.fork(st0)
                    self.block(s.body, it, lambda st3: unroll(st3, n - 1))
            return unroll(st, 2)
        if isinstance(s, ast.FunctionDef):
            for n in ast.walk(s):
                if isinstance(n, ast.Call):
                    check_allowed_call(src_of(n.func, self.src), self.src, n)
                elif isinstance(n, (ast.Attribute, ast.Subscript)) and \
                        isinstance(n.ctx, (ast.Store, ast.Del)):
                    raise TranslateError("store inside the closure %s: %s"
                                         % (s.name, src_of(n, self.src)))
                elif isinstance(n, (ast.Global, ast.Nonlocal)):
                    raise TranslateError("global/nonlocal inside the closure %s" % s.name)
            self.closures[s.name] = (s, dict(st["env"]))
            st["env"][s.name] = ("closure", s.name)
            return nxt(st)
        if isinstance(s, ast.Assign):
            if any(src_of(t, self.src) == "self.pressAbsErrTol" for t in s.targets):
                self.atol_stores.setdefault(s.lineno, []).append((s, dict(st["env"])))
            v = self.val(s.value, st)
            for t in s.targets:
                self.assign(t, v, st)
            return nxt(st)
        if isinstance(s, ast.AnnAssign):
            if s.value is not None:
                self.assign(s.target, self.val(s.value, st), st)
            return nxt(st)
        if isinstance(s, ast.AugAssign):
            # x *= 2 on a parameter keeps the identity "current value of that parameter"
            if isinstance(s.target, ast.Name):
                old = st["env"].get(s.target.id)
                if not (old and old[0] == "param"):
                    st["env"][s.target.id] = ("expr", src_of(s, self.src))
            else:
                st["stores"].append((src_of(s.target, self.src), ("expr", src_of(s, self.src))))
                self.attr_stores.add(src_of(s.target, self.src))
            return nxt(st)
        if isinstance(s, ast.Expr):
            c = s.value
            if isinstance(c, ast.Constant):
                return nxt(st)
            if isinstance(c, ast.Call):
                f = src_of(c.func, self.src)
                if f.startswith("results.set"):
                    vals = [self.val(a, st) for a in c.args] + \
                           [(k.arg, self.val(k.value, st)) for k in c.keywords]
                    if f == "results.setSuccessState":
                        if len(c.args) < 2:
                            raise TranslateError("setSuccessState needs positional "
                                                 "(success, solutionType, ...)")
                        sv, tv = self.val(c.args[0], st), self.val(c.args[1], st)
                        if sv[0] != "const" or sv[1] not in ("True", "False"):
                            raise TranslateError("success flag is not a literal: %s"
                                                 % src_of(c.args[0], self.src))
                        if not (tv[0] == "attr" and tv[1] == ("free", "ESolutionType")):
                            raise TranslateError("solution type is not an ESolutionType "
                                                 "member: %s" % src_of(c.args[1], self.src))
                        st["state"] = (sv[1], tv[2])
                    else:
                        st["sets"].append((f[len("results."):], vals))
                    return nxt(st)
                if f.startswith(self.LOG_CALLS):
                    return nxt(st)
            # any other expression statement could act on `results` or on the object behind
            # our back (e.g. self._post(results)): not understood, fail closed
            raise TranslateError("expression statement outside the subset in solveWall: %s"
                                 % src_of(s, self.src).splitlines()[0])
        if isinstance(s, (ast.Pass, ast.Assert)):
            return nxt(st)
        raise TranslateError("statement outside the subset in solveWall: %s"
                             % src_of(s, self.src).splitlines()[0])


def origin_of(v):
    """(site, index) of an abstract value that is an element of a wallPressure tuple"""
    if isinstance(v, tuple) and v and v[0] == "evalelem":
        return v[1], v[3]
    return None


def solvewall_facts(src):
    tree = ast.parse(src)
    eom = find_class(tree, "EOM")
    fn = find_method(eom, "solveWall")
    wp = find_method(eom, "wallPressure")
    # names of wallPressure's return tuple
    rets = [n for n in ast.walk(wp) if isinstance(n, ast.Return) and n.value is not None]
    if len(rets) != 1 or not isinstance(rets[0].value, ast.Tuple) or not all(
            isinstance(e, ast.Name) for e in rets[0].value.elts):
        raise TranslateError("wallPressure must end in one `return (name, ...)`")
    ret_names = [e.id for e in rets[0].value.elts]

    w = PathWalker(src, fn)
    w.run()
    if not w.exits:
        raise TranslateError("no exit found in solveWall")
    # --- def-use table -----------------------------------------------------------------
    table = {}   # (label) -> setter -> set of origins
    exits_seen = {}
    for ex in w.exits:
        if ex["state"] is None:
            raise TranslateError("an exit of solveWall (line %s) does not call "
                                 "results.setSuccessState" % ex["line"])
        succ, typ = ex["state"]
        typ = typ.split(".")[-1]
        label = "%s@%s" % (typ, "root" if ex["after_root"] else "bracket")
        exits_seen.setdefault(label, set()).add(succ)
        last = {}
        for setter, vals in ex["sets"]:
            last[setter] = vals
        # is the last evaluation of the path the one at the root?
        for setter, vals in last.items():
            if setter == "setWallVelocities":
                continue
            if len(vals) != 1:
                raise TranslateError("results.%s called with %d arguments" % (setter, len(vals)))
            o = origin_of(vals[0])
            if setter == "setFiniteDifferenceBoltzmannResults":
                # in equilibrium mode the same object as setBoltzmannResults; off-eq: a
                # recomputation.  Not part of the table.
                continue
            table.setdefault(label, {}).setdefault(setter, set()).add(
                o if o is not None else ("Unknown", 99))
        # velocities
        vel = last.get("setWallVelocities")
        if vel is None:
            raise TranslateError("an exit of solveWall does not call results.setWallVelocities")
        named = {}
        pos = ["wallVelocity", "wallVelocityError", "wallVelocityLTE"]
        for i, v in enumerate(vel):
            if isinstance(v, tuple) and len(v) == 2 and isinstance(v[0], str) and v[0] in pos:
                named[v[0]] = v[1]
            else:
                named[pos[i]] = v
        vv = named.get("wallVelocity")
        if vv == ("const", "None"):
            kind = "VNone"
        elif vv == ("attr", ("rootresult",), "root"):
            kind = "VRoot"
        else:
            kind = "VOther"
        table.setdefault(label, {}).setdefault("velocity", set()).add(kind)
        lte = named.get("wallVelocityLTE")
        table[label].setdefault("lte", set()).add(
            "LteHydro" if (isinstance(lte, tuple) and lte[0] == "call"
                           and lte[1] == "self.hydrodynamics.findvwLTE") else "LteOther")
        # the final evaluation is the last wallPressure call on the path
        if ex["after_root"]:
            table[label].setdefault("lastEval", set()).add(ex["evals"][-1] if ex["evals"] else "none")
    # --- scalar expressions --------------------------------------------------------------
    if w.rootcall is None:
        raise TranslateError("no root_scalar call in solveWall")
    call, env_at_root = w.rootcall
    kw = {k.arg: k.value for k in call.keywords}
    if "xtol" not in kw:
        raise TranslateError("root_scalar is called without xtol")
    alldefs = {}
    for s_ in ast.walk(fn):
        if isinstance(s_, ast.Assign) and len(s_.targets) == 1 and \
                isinstance(s_.targets[0], ast.Name):
            alldefs.setdefault(s_.targets[0].id, []).append(s_.value)
    # locals with exactly one (scalar) definition may be inlined; tuple unpacking, loop
    # variables and re-assigned names never are
    tainted = set()
    for s_ in ast.walk(fn):
        tg = []
        if isinstance(s_, ast.Assign):
            tg = [t for t in s_.targets if not isinstance(t, ast.Name)] + \
                 (list(s_.targets) if len(s_.targets) > 1 else [])
        elif isinstance(s_, (ast.AugAssign, ast.AnnAssign, ast.For, ast.NamedExpr)):
            tg = [s_.target]
        elif isinstance(s_, ast.With):
            tg = [i.optional_vars for i in s_.items if i.optional_vars is not None]
        elif isinstance(s_, (ast.FunctionDef, ast.Lambda)):
            tainted.update(a.arg for a in s_.args.args)
        for t in tg:
            tainted.update(n.id for n in ast.walk(t) if isinstance(n, ast.Name))
    single = {nm: ds[0] for nm, ds in alldefs.items() if len(ds) == 1 and nm not in tainted}
    ex_x = Expr(src, {"self.errTol": "errTol"}, single)
    xtol = ex_x.num(kw["xtol"])
    extra_kw = sorted(k for k in kw if k not in ("method", "bracket", "xtol"))
    method = kw.get("method")
    method = method.value if isinstance(method, ast.Constant) else "?"
    br = kw.get("bracket")
    bracket = []
    if isinstance(br, (ast.List, ast.Tuple)):
        for e in br.elts:
            v = env_at_root.get(e.id) if isinstance(e, ast.Name) else None
            bracket.append(w.params.index(v[1]) if v and v[0] == "param" else 99)
    fobj = call.args[0].id if call.args and isinstance(call.args[0], ast.Name) else "?"
    # velocity error: the argument of results.setWallVelocities at the exits behind the root
    # finder, resolved through its definitions (equilibrium branch: a plain expression of
    # errTol and the root; off-equilibrium branch: max(that, ...))
    defs = {}
    for s in ast.walk(fn):
        if isinstance(s, ast.Assign) and len(s.targets) == 1 and isinstance(s.targets[0], ast.Name):
            defs.setdefault(s.targets[0].id, []).append(s.value)
    errargs = []
    for n in ast.walk(fn):
        if isinstance(n, ast.Call) and src_of(n.func, src) == "results.setWallVelocities":
            a = {k.arg: k.value for k in n.keywords}
            for i, nm in enumerate(["wallVelocity", "wallVelocityError", "wallVelocityLTE"]):
                if i < len(n.args):
                    a[nm] = n.args[i]
            e = a.get("wallVelocityError")
            if e is not None and not (isinstance(e, ast.Constant) and e.value is None):
                errargs.append(e)
    if len(errargs) != 1 or not isinstance(errargs[0], ast.Name):
        raise TranslateError("expected one setWallVelocities call with a named velocity error")
    edefs = defs.get(errargs[0].id, [])
    eq_def = [d for d in edefs if isinstance(d, ast.Name)]
    off = [d for d in edefs if not isinstance(d, ast.Name)]
    if len(eq_def) != 1 or len(defs.get(eq_def[0].id, [])) != 1:
        raise TranslateError("equilibrium branch must set the velocity error to one named "
                             "minimum error")
    minname = eq_def[0].id
    rootnames = {"optimizeResult.root": "root"}
    for nm, ds in defs.items():
        if len(ds) == 1 and src_of(ds[0], src).endswith(".root"):
            rootnames[nm] = "root"
            rootnames[src_of(ds[0], src)] = "root"
    ex_v = Expr(src, dict({"self.errTol": "errTol"}, **rootnames), single)
    velerr = ex_v.num(defs[minname][0])
    # off-equilibrium branch: max(minError, ...) -- bounded below by minError
    off_ok = all(isinstance(d, ast.Call) and src_of(d.func, src) == "max" and any(
        isinstance(a, ast.Name) and a.id == minname for a in d.args)
        for d in off)
    # pressAbsErrTol
    body = strip_doc(fn.body)
    stores = [(i, s) for i, s in enumerate(body) if isinstance(s, ast.Assign)
              and any(src_of(t, src) == "self.pressAbsErrTol" for t in s.targets)]
    if len(stores) != 2:
        raise TranslateError("expected two top-level assignments of self.pressAbsErrTol "
                             "in solveWall, found %d" % len(stores))
    first_eval = min((i for i, s in enumerate(body)
                      if any(is_self_call(n, "wallPressure") for n in ast.walk(s))),
                     default=None)
    atol0 = Expr(src, {}).num(stores[0][1].value)
    atol0_first = first_eval is not None and stores[0][0] < first_eval
    snaps = w.atol_stores.get(stores[1][1].lineno, [])
    if not snaps:
        raise TranslateError("second pressAbsErrTol store is not on any path")
    aenv = {"self.errTol": "errTol", "self.pressRelErrTol": "rel"}
    for n in ast.walk(stores[1][1].value):
        if isinstance(n, ast.Name) and n.id not in ("np", "abs", "min", "max", "self"):
            roles = {origin_of(env.get(n.id)) for _, env in snaps}
            if roles == {("AtMin", 0)}:
                aenv[n.id] = "pMin"
            elif roles == {("AtMax", 0)}:
                aenv[n.id] = "pMax"
            else:
                raise TranslateError("pressAbsErrTol depends on %s, which is not the "
                                     "pressure at an end of the bracket" % n.id)
    atol2 = Expr(src, aenv, single).num(stores[1][1].value)
    # the second store must come after the doubling loop and before the root finder
    idx_while = [i for i, s in enumerate(body) if isinstance(s, ast.While)]
    idx_root = [i for i, s in enumerate(body)
                if any(isinstance(n, ast.Call) and src_of(n.func, src).endswith("root_scalar")
                       for n in ast.walk(s)) and not isinstance(s, ast.FunctionDef)]
    atol2_placed = bool(idx_while and idx_root and
                        idx_while[-1] < stores[1][0] < idx_root[0])
    # pressureWrapper guards
    if fobj not in w.closures:
        raise TranslateError("the function handed to root_scalar is not a local def")
    wdef, wenv = w.closures[fobj]
    wparam = wdef.args.args[0].arg
    wbody = strip_doc(wdef.body)
    guards = []
    k = 0
    while k < len(wbody) and isinstance(wbody[k], ast.If) and len(wbody[k].body) == 1 and \
            isinstance(wbody[k].body[0], ast.Return) and not wbody[k].orelse:
        r = wbody[k].body[0].value
        o = origin_of(wenv.get(r.id)) if isinstance(r, ast.Name) else None
        guards.append((wbody[k].test, o))
        k += 1
    if len(guards) != 2 or guards[0][1] is None or guards[1][1] is None:
        raise TranslateError("pressureWrapper: expected two cached-value guards")
    lastret = wbody[-1]
    inner_ok = (isinstance(lastret, ast.Return) and isinstance(lastret.value, ast.Subscript)
                and is_self_call(lastret.value.value, "wallPressure")
                and isinstance(lastret.value.value.args[0], ast.Name)
                and lastret.value.value.args[0].id == wparam
                and isinstance(lastret.value.slice, ast.Constant)
                and ret_names[lastret.value.slice.value] == "pressure")
    # no wallPressure call between the guards and the final return other than the final one
    ncalls = sum(1 for n in ast.walk(wdef) if is_self_call(n, "wallPressure"))
    genv = {wparam: "x", w.p_lo: "vmin", w.p_hi: "vmax"}
    gmin = Expr(src, genv).boolean(guards[0][0])
    gmax = Expr(src, genv).boolean(guards[1][0])
    return dict(ret_names=ret_names, table=table, exits=exits_seen, xtol=xtol,
                velerr=velerr, off_ok=off_ok, method=method, bracket=bracket,
                extra_kw=extra_kw, atol0=atol0, atol0_first=atol0_first, atol2=atol2,
                atol2_placed=atol2_placed, gmin=gmin, gmax=gmax,
                gret=[guards[0][1], guards[1][1]], inner_ok=inner_ok and ncalls == 1,
                npaths=len(w.exits), attr_stores=sorted(w.attr_stores),
                messages=message_facts(src, fn),
                wploop=wallpressure_loop_facts(src, eom), init=eom_init_facts(src, eom),
                deton=detonation_facts(src, eom), bounds=bounds_facts(src, eom),
                deflag=deflag_facts(src, eom))


# ---------------------------------------------------------------------------------------
# WallGoManager: provenance of the solver objects

# ---------------------------------------------------------------------------------------
# messages of solveWall: which exit says what (used by the harness to classify an observed
# message without relying on its wording)

def parents(fn):
    par = {}
    for n in ast.walk(fn):
        for c in ast.iter_child_nodes(n):
            par[c] = n
    return par


def mentions(node, *names):
    found = set()
    for n in ast.walk(node):
        if isinstance(n, ast.Attribute):
            found.add(n.attr)
        elif isinstance(n, ast.Name):
            found.add(n.id)
    return any(x in found for x in names)


def message_facts(src, fn):
    par = parents(fn)
    out = []
    for n in ast.walk(fn):
        if not (isinstance(n, ast.Call) and src_of(n.func, src) == "results.setSuccessState"):
            continue
        if len(n.args) < 3:
            raise TranslateError("setSuccessState without a positional message")
        # statement, its block owner and branch
        stmt = n
        while not isinstance(stmt, ast.stmt):
            stmt = par[stmt]
        owner = par[stmt]
        in_while = False
        a = stmt
        while a is not fn:
            a = par[a]
            if isinstance(a, ast.While):
                in_while = True
        if isinstance(owner, ast.If) and stmt in owner.body:
            t = owner.test
            if in_while:
                kind = "MsgPositiveAtZero"
            elif mentions(t, "successTemperatureProfile"):
                kind = "MsgTemperatureProfile"
            elif mentions(t, "temperatureMinus"):
                kind = "MsgTminusRange"
            elif mentions(t, "temperaturePlus"):
                kind = "MsgTplusRange"
            elif mentions(t, "successWallPressure"):
                kind = "MsgPressureNotConverged"
            elif mentions(t, "converged"):
                kind = "MsgRootFinder"
            elif mentions(t, "wallThicknessBounds", "wallOffsetBounds"):
                kind = "MsgSaturated"
            elif isinstance(t, ast.Compare) and len(t.ops) == 1 and \
                    isinstance(t.ops[0], ast.Lt) and isinstance(t.comparators[0], ast.Constant) \
                    and t.comparators[0].value == 0:
                kind = "MsgRunaway"
            else:
                raise TranslateError("cannot tell which exit this message belongs to: if %s"
                                     % src_of(t, src))
        elif isinstance(owner, ast.If) and stmt in owner.orelse:
            kind = "MsgFound"
        else:
            raise TranslateError("setSuccessState outside an if/else")
        m = n.args[2]
        if isinstance(m, ast.Constant) and isinstance(m.value, str):
            out.append((kind, "exact", m.value))
        elif isinstance(m, ast.JoinedStr):
            head = ""
            for v in m.values:
                if isinstance(v, ast.Constant):
                    head += v.value
                else:
                    break
            out.append((kind, "prefix", head))
        elif isinstance(m, ast.Attribute) and m.attr == "flag":
            out.append((kind, "flag", ""))
        else:
            raise TranslateError("message outside the subset: %s" % src_of(m, src))
    return out


# ---------------------------------------------------------------------------------------
# the iteration of wallPressure: every way out of the loop other than the convergence test
# must lower successWallPressure

def wallpressure_loop_facts(src, cls):
    fn = find_method(cls, "wallPressure")
    par = parents(fn)
    body = strip_doc(fn.body)
    loops = [s for s in ast.walk(fn) if isinstance(s, (ast.While, ast.For))]
    toploops = [s for s in body if isinstance(s, (ast.While, ast.For))]
    if len(loops) != 1 or len(toploops) != 1:
        raise TranslateError("wallPressure: expected exactly one loop, at top level "
                             "(found %d)" % len(loops))
    loop = loops[0]
    kind = "while_true" if (isinstance(loop, ast.While) and isinstance(loop.test, ast.Constant)
                            and loop.test.value is True and not loop.orelse) else "other"
    is_store = lambda s, val: (isinstance(s, ast.Assign) and len(s.targets) == 1 and
                               src_of(s.targets[0], src) == "self.successWallPressure" and
                               isinstance(s.value, ast.Constant) and s.value.value is val)
    li = body.index(loop)
    set_true_before = any(is_store(s, True) for s in body[:li])
    breaks = []
    for n in ast.walk(loop):
        if isinstance(n, (ast.Return, ast.Continue)):
            raise TranslateError("wallPressure: return/continue inside the iteration")
        if not isinstance(n, ast.Break):
            continue
        owner = par[n]
        block = owner.body if n in owner.body else owner.orelse
        stores_false = any(is_store(s, False) for s in block[:block.index(n)])
        # the outermost `if` of the loop body that contains this break
        a, top_if, chain = n, None, []
        while a is not loop:
            p_ = par[a]
            if isinstance(p_, ast.If):
                chain.append((p_, a in p_.body))
                top_if = p_
            a = p_
        lt_guard = top_if is not None and any(
            isinstance(c, ast.Compare) and any(isinstance(o, ast.Lt) for o in c.ops)
            for c in ast.walk(top_if.test))
        # the break itself sits in the if-branch (not an elif) of the convergence test
        in_first_branch = all(inbody for _, inbody in chain[-1:])
        maxit = any(mentions(i.test, "maxIterations") for i, inbody in chain if inbody)
        breaks.append((stores_false, lt_guard and in_first_branch, maxit))
    # every store of the flag anywhere in the class
    writers = {}
    for m in cls.body:
        if isinstance(m, ast.FunctionDef):
            for n in ast.walk(m):
                if isinstance(n, (ast.Assign, ast.AugAssign, ast.AnnAssign)):
                    targets = n.targets if isinstance(n, ast.Assign) else [n.target]
                    for t in targets:
                        for e in ast.walk(t):
                            if isinstance(e, ast.Attribute) and e.attr in (
                                    "successWallPressure", "successTemperatureProfile"):
                                v = getattr(n, "value", None)
                                lit = repr(v.value) if isinstance(v, ast.Constant) else "?"
                                writers.setdefault(e.attr, set()).add("%s=%s" % (m.name, lit))
    return dict(kind=kind, set_true_before=set_true_before, breaks=breaks,
                writers={k: sorted(v) for k, v in writers.items()})


# ---------------------------------------------------------------------------------------
# EOM.__init__: the settings reach the attributes solveWall reads

SETTING_ATTRS = ["errTol", "maxIterations", "pressRelErrTol", "thermo", "hydrodynamics", "grid",
                 "boltzmannSolver", "forceEnergyConservation", "wallThicknessBounds",
                 "wallOffsetBounds", "nbrFields"]


def eom_init_facts(src, cls):
    init = find_method(cls, "__init__")
    params = [a.arg for a in init.args.args]
    wiring = []
    for s in strip_doc(init.body):
        if isinstance(s, ast.Assign) and len(s.targets) == 1:
            t = s.targets[0]
            if isinstance(t, ast.Attribute) and isinstance(t.value, ast.Name) and \
                    t.value.id == "self" and t.attr in SETTING_ATTRS:
                wiring.append((t.attr, s.value.id if isinstance(s.value, ast.Name)
                               and s.value.id in params else "?"))
    for s in ast.walk(init):
        if isinstance(s, (ast.If, ast.While, ast.For, ast.Try)):
            raise TranslateError("EOM.__init__ is expected to be straight-line code")
    others = []
    for m in cls.body:
        if isinstance(m, ast.FunctionDef) and m.name != "__init__":
            for n in ast.walk(m):
                if isinstance(n, (ast.Assign, ast.AugAssign, ast.AnnAssign)):
                    targets = n.targets if isinstance(n, ast.Assign) else [n.target]
                    for t in targets:
                        for e in ast.walk(t):
                            if isinstance(e, ast.Attribute) and isinstance(e.value, ast.Name) \
                                    and e.value.id == "self" and e.attr in SETTING_ATTRS \
                                    and e is t:
                                others.append("%s: self.%s" % (m.name, e.attr))
                elif isinstance(n, ast.Call) and isinstance(n.func, ast.Name) and \
                        n.func.id in ("setattr", "delattr"):
                    others.append("%s: %s" % (m.name, n.func.id))
    return dict(wiring=wiring, others=sorted(set(others)))


# ---------------------------------------------------------------------------------------
# findWallVelocityDetonation: the tuples handed to solveWall belong to the bracket ends handed
# to it.  Symbolic run of the scan loop (two iterations): every name holds a symbol; a tuple
# returned by self.wallPressure(v, ...) remembers the symbol of v; `a = b` and
# copy.deepcopy(b) copy symbols; anything else makes a fresh symbol.

def detonation_facts(src, cls):
    fn = find_method(cls, "findWallVelocityDetonation")
    counter = [0]

    def fresh():
        counter[0] += 1
        return ("sym", counter[0])

    env = {a.arg: fresh() for a in fn.args.args}
    checks = []
    calls = [0]

    def val(node):
        if isinstance(node, ast.Name):
            return env.setdefault(node.id, fresh())
        if isinstance(node, ast.Call):
            f = src_of(node.func, src)
            if is_self_call(node, "wallPressure") and node.args:
                return ("tuple_at", val(node.args[0]))
            if f in ("copy.deepcopy", "deepcopy", "copy.copy") and len(node.args) == 1:
                return val(node.args[0])
        if isinstance(node, ast.Subscript) and isinstance(node.slice, ast.Constant):
            return ("elem", val(node.value), node.slice.value)
        return fresh()

    def assign(t, v):
        if isinstance(t, ast.Name):
            env[t.id] = v
        elif isinstance(t, (ast.Tuple, ast.List)):
            for i, e in enumerate(t.elts):
                assign(e, ("elem", v, i))

    def check_call(node, guards):
        calls[0] += 1
        a = node.args
        if len(a) < 5:
            checks.append((False, False))
            return
        lo, hi, tlo, thi = val(a[0]), val(a[1]), val(a[3]), val(a[4])
        pairing = tlo == ("tuple_at", lo) and thi == ("tuple_at", hi)
        # guard: pressure(hi) >= 0 >= pressure(lo)
        g_ok = False
        for g in guards:
            if isinstance(g, ast.Compare) and len(g.ops) == 2 and \
                    all(isinstance(o, ast.GtE) for o in g.ops) and \
                    isinstance(g.comparators[0], ast.Constant) and g.comparators[0].value == 0:
                if val(g.left) == ("elem", ("tuple_at", hi), 0) and \
                        val(g.comparators[1]) == ("elem", ("tuple_at", lo), 0):
                    g_ok = True
        checks.append((pairing, g_ok))

    def run(stmts, guards):
        for s in stmts:
            for n in ast.walk(s) if not isinstance(s, (ast.If, ast.While, ast.For)) else []:
                if is_self_call(n, "solveWall"):
                    check_call(n, guards)
            if isinstance(s, ast.Assign):
                v = val(s.value)
                for t in s.targets:
                    assign(t, v)
            elif isinstance(s, ast.AnnAssign) and s.value is not None:
                assign(s.target, val(s.value))
            elif isinstance(s, ast.AugAssign) and isinstance(s.target, ast.Name):
                env[s.target.id] = fresh()
            elif isinstance(s, ast.If):
                run(s.body, guards + [s.test])
                run(s.orelse, guards)
            elif isinstance(s, ast.While):
                run(s.body, guards)
                run(s.body, guards)
            elif isinstance(s, (ast.For, ast.Try, ast.With, ast.AsyncWith, ast.Match)
                            if hasattr(ast, "Match") else (ast.For, ast.Try, ast.With)):
                raise TranslateError("findWallVelocityDetonation: %s statement outside the "
                                     "subset" % type(s).__name__)

    run(strip_doc(fn.body), [])
    if not checks:
        raise TranslateError("findWallVelocityDetonation does not call self.solveWall")
    # the window handed over by the manager
    return dict(checks=checks)



# ---------------------------------------------------------------------------------------
# helpers: single-definition locals and inlining

def single_defs(fn):
    alldefs, tainted = {}, set()
    for s_ in ast.walk(fn):
        if isinstance(s_, ast.Assign) and len(s_.targets) == 1 and \
                isinstance(s_.targets[0], ast.Name):
            alldefs.setdefault(s_.targets[0].id, []).append(s_.value)
        elif isinstance(s_, ast.AnnAssign) and isinstance(s_.target, ast.Name) and \
                s_.value is not None:
            alldefs.setdefault(s_.target.id, []).append(s_.value)
        tg = []
        if isinstance(s_, ast.Assign):
            tg = [t for t in s_.targets if not isinstance(t, ast.Name)] + \
                 (list(s_.targets) if len(s_.targets) > 1 else [])
        elif isinstance(s_, ast.AnnAssign) and not isinstance(s_.target, ast.Name):
            tg = [s_.target]
        elif isinstance(s_, (ast.AugAssign, ast.For, ast.NamedExpr)):
            tg = [s_.target]
        elif isinstance(s_, ast.With):
            tg = [i.optional_vars for i in s_.items if i.optional_vars is not None]
        elif isinstance(s_, (ast.FunctionDef, ast.Lambda)):
            tainted.update(a.arg for a in s_.args.args)
        for t in tg:
            tainted.update(n.id for n in ast.walk(t) if isinstance(n, ast.Name))
    return {nm: ds[0] for nm, ds in alldefs.items() if len(ds) == 1 and nm not in tainted}


def inline(node, single, depth=0):
    import copy as _copy

    class T(ast.NodeTransformer):
        def visit_Name(self, n):
            if isinstance(n.ctx, ast.Load) and n.id in single and depth < 12:
                return inline(_copy.deepcopy(single[n.id]), single, depth + 1)
            return n
    return T().visit(_copy.deepcopy(node))


def canon(node, single):
    return ast.unparse(inline(node, single))


# ---------------------------------------------------------------------------------------
# the saturation guard of solveWall tests the returned wall parameters against the SAME
# expressions that bound the minimiser in _intermediatePressureResults

def bounds_facts(src, cls):
    sw = find_method(cls, "solveWall")
    ip = find_method(cls, "_intermediatePressureResults")
    s_sw, s_ip = single_defs(sw), single_defs(ip)
    guard = []
    for n in ast.walk(sw):
        if isinstance(n, ast.If) and mentions(n.test, "wallThicknessBounds", "wallOffsetBounds"):
            for c in ast.walk(n.test):
                if isinstance(c, ast.Compare):
                    if len(c.ops) != 1 or not isinstance(c.ops[0], ast.Eq):
                        raise TranslateError("saturation guard: comparison other than ==")
                    guard.append(canon(c.comparators[0], s_sw))
    if len(guard) != 4:
        raise TranslateError("saturation guard: expected 4 equality tests, found %d" % len(guard))
    mini = []
    calls = [n for n in ast.walk(ip) if isinstance(n, ast.Call)
             and src_of(n.func, src).endswith("Bounds")]
    if len(calls) != 1:
        raise TranslateError("_intermediatePressureResults: expected one Bounds(...) call")
    kw = {k.arg: k.value for k in calls[0].keywords}
    args = list(calls[0].args)
    lb = kw.get("lb", args[0] if args else None)
    ub = kw.get("ub", args[1] if len(args) > 1 else None)
    if lb is None or ub is None:
        raise TranslateError("Bounds(...) without lb/ub")
    for b in (lb, ub):
        e = inline(b, s_ip)
        lists = [n for n in ast.walk(e) if isinstance(n, ast.List) and len(n.elts) == 1]
        if len(lists) != 2:
            raise TranslateError("minimiser bounds: expected [width bound] and [offset bound]")
        mini += [ast.unparse(l.elts[0]) for l in lists]
    # the minimiser must be handed these bounds
    mins = [n for n in ast.walk(ip) if isinstance(n, ast.Call)
            and src_of(n.func, src).endswith("optimize.minimize")]
    handed = len(mins) == 1 and any(
        k.arg == "bounds" and canon(k.value, s_ip) == canon(calls[0], s_ip)
        for k in mins[0].keywords)
    return dict(guard=sorted(guard), mini=sorted(mini), handed=handed)


# ---------------------------------------------------------------------------------------
# findWallVelocityDeflagrationHybrid

def deflag_facts(src, cls):
    fn = find_method(cls, "findWallVelocityDeflagrationHybrid")
    single = single_defs(fn)
    params = [a.arg for a in fn.args.args if a.arg != "self"]
    rets = [n for n in ast.walk(fn) if isinstance(n, ast.Return)]
    if len(rets) != 1 or not is_self_call(rets[0].value, "solveWall"):
        raise TranslateError("findWallVelocityDeflagrationHybrid must end in one "
                             "`return self.solveWall(...)`")
    call = rets[0].value
    if len(call.args) != 3 or call.keywords:
        raise TranslateError("findWallVelocityDeflagrationHybrid: solveWall(lower, upper, guess)")
    lower = canon(call.args[0], single)
    up = inline(call.args[1], single)
    upper_ok = (isinstance(up, ast.Call) and ast.unparse(up.func) == "min" and len(up.args) == 2
                and not up.keywords and sorted(ast.unparse(a) for a in up.args) ==
                ["self.hydrodynamics.fastestDeflag()", "self.hydrodynamics.vJ"])
    g = inline(call.args[2], single)
    guess_ok = False
    if isinstance(g, ast.Call) and ast.unparse(g.func) == "WallParams" and not g.args:
        kw = {k.arg: ast.unparse(k.value) for k in g.keywords}
        p0 = params[0] if params else "?"
        guess_ok = (kw.get("widths") in ("%s * np.ones(self.nbrFields)" % p0,
                                         "np.ones(self.nbrFields) * %s" % p0)
                    and kw.get("offsets") == "np.zeros(self.nbrFields)" and len(kw) == 2)
    # the default thickness
    default_ok = False
    for n in ast.walk(fn):
        if isinstance(n, ast.If) and isinstance(n.test, ast.Compare) and \
                ast.unparse(n.test) == "%s is None" % (params[0] if params else "?") and \
                len(n.body) == 1 and isinstance(n.body[0], ast.Assign) and not n.orelse:
            default_ok = ast.unparse(n.body[0]) == "%s = 5 / self.thermo.Tnucl" % params[0]
    stores = sorted({ast.unparse(n) for n in ast.walk(fn)
                     if isinstance(n, (ast.Attribute, ast.Subscript))
                     and isinstance(n.ctx, (ast.Store, ast.Del))})
    allowed = {"self.solveWall", "self.hydrodynamics.fastestDeflag", "min", "WallParams",
               "np.ones", "np.zeros", "logging.warning"}
    others = sorted({ast.unparse(n.func) for n in ast.walk(fn) if isinstance(n, ast.Call)}
                    - allowed)
    return dict(lower=lower, upper_ok=upper_ok, guess_ok=guess_ok, default_ok=default_ok,
                stores=stores, others=others)


# ---------------------------------------------------------------------------------------
# the manager's entry points must not store anything (config, settings, solver)

def manager_entry_stores(src, cls, names=("solveWall", "solveWallDetonation", "wallSpeedLTE")):
    out = []
    for nm in names:
        fn = find_method(cls, nm)
        for n in ast.walk(fn):
            if isinstance(n, (ast.Attribute, ast.Subscript)) and \
                    isinstance(n.ctx, (ast.Store, ast.Del)):
                out.append("%s: %s" % (nm, ast.unparse(n)))
            elif isinstance(n, ast.Call) and isinstance(n.func, ast.Name) and \
                    n.func.id in ("setattr", "delattr", "exec", "eval"):
                out.append("%s: %s(...)" % (nm, n.func.id))
            elif isinstance(n, ast.Call) and isinstance(n.func, ast.Attribute) and \
                    n.func.attr in ("__setattr__", "update", "setdefault", "pop", "clear",
                                    "append", "extend", "insert", "remove"):
                out.append("%s: %s(...)" % (nm, ast.unparse(n.func)))
            elif isinstance(n, (ast.Global, ast.Nonlocal)):
                out.append("%s: global" % nm)
    return sorted(set(out))



def prov_coq(p):
    k = p[0]
    q = lambda t: '"%s"' % str(t).replace('"', "'").replace("\n", " ")[:80]
    if k == "new":
        return "(PNew %s [%s])" % (q(p[1]), "; ".join("(%s, %s)" % (q(n), prov_coq(a))
                                                         for n, a in p[2]))
    if k == "call":
        return "(PCall %s [%s])" % (q(p[1]), "; ".join(prov_coq(a) for a in p[2]))
    if k == "self":
        return "(PSelf %s)" % q(p[1])
    if k == "param":
        return "(PParam %s)" % q(p[1])
    if k == "field":
        return "(PField %s %s)" % (prov_coq(p[1]), q(p[2]))
    if k == "stored":
        return "(PStored %s)" % q(p[1])
    if k == "phi":
        return "(PPhi [%s])" % "; ".join(prov_coq(a) for a in p[1])
    return "(POther %s)" % q(p[1])


def phi(ps):
    uniq = []
    for x in ps:
        if x not in uniq:
            uniq.append(x)
    uniq.sort(key=repr)
    return uniq[0] if len(uniq) == 1 else ("phi", tuple(uniq))


class Prov:
    """provenance of the value returned by a method of WallGoManager, per return statement.
    Constructor calls keep their argument NAMES (positional arguments are named after the
    constructor's signature when it is known, see `signatures`)."""

    def __init__(self, src, cls, signatures=None):
        self.src, self.cls = src, cls
        self.signatures = signatures or {}
        self.stack = []
        self.self_stores = []      # every store on self made by the methods walked
        self.local_stores = []     # (local.attr, provenance) for attribute stores on locals

    def method_returns(self, name, bindings=None):
        bindings = bindings or {}
        if name in self.stack:
            raise TranslateError("recursive manager method %s" % name)
        fn = find_method(self.cls, name)
        self.stack.append(name)
        try:
            assigns = {}
            for n in ast.walk(fn):
                if isinstance(n, (ast.Assign, ast.AnnAssign)):
                    targets = n.targets if isinstance(n, ast.Assign) else [n.target]
                    if n.value is None:
                        continue
                    for t in targets:
                        if isinstance(t, ast.Name):
                            assigns.setdefault(t.id, []).append(n.value)
                        elif isinstance(t, (ast.Tuple, ast.List)):
                            for e in ast.walk(t):
                                if isinstance(e, ast.Name):
                                    assigns.setdefault(e.id, []).append(None)
                elif isinstance(n, (ast.AugAssign, ast.NamedExpr, ast.For, ast.With)):
                    tgt = getattr(n, "target", None)
                    if isinstance(tgt, ast.Name):
                        assigns.setdefault(tgt.id, []).append(None)
            params = {a.arg: bindings.get(a.arg) for a in fn.args.args}
            outs = []
            for n in ast.walk(fn):
                if isinstance(n, ast.Return):
                    outs.append(self.prov(n.value, assigns, params, 0))
            if not outs:
                outs.append(("other", "no return"))
            for n in ast.walk(fn):
                if isinstance(n, (ast.Assign, ast.AugAssign, ast.AnnAssign)):
                    targets = n.targets if isinstance(n, ast.Assign) else [n.target]
                    for t in targets:
                        if not isinstance(t, (ast.Subscript, ast.Attribute)):
                            continue
                        base = t
                        while isinstance(base, (ast.Subscript, ast.Attribute)):
                            base = base.value
                        if isinstance(base, ast.Name) and base.id == "self":
                            self.self_stores.append("%s: %s" % (name, src_of(t, self.src)))
                        else:
                            val = getattr(n, "value", None)
                            pv = self.prov(val, assigns, params, 0) \
                                if isinstance(n, ast.Assign) else ("stored", "augmented")
                            self.local_stores.append(
                                (t.attr if isinstance(t, ast.Attribute) else "<item>", pv))
                elif isinstance(n, ast.Call) and isinstance(n.func, ast.Name) and \
                        n.func.id == "setattr":
                    self.self_stores.append("%s: setattr" % name)
            return outs
        finally:
            self.stack.pop()

    def prov(self, node, assigns, params, depth):
        rec = lambda x: self.prov(x, assigns, params, depth + 1)
        if depth > 16:
            return ("stored", "too deep")
        if node is None:
            return ("stored", "loop/unpacked/augmented value")
        if isinstance(node, ast.Name):
            if node.id in assigns:
                return phi([rec(v) for v in assigns[node.id]])
            if node.id in params:
                return params[node.id] or ("param", node.id)
            if node.id in ("True", "False", "None"):
                return ("other", "const")
            return ("stored", "global %s" % node.id)
        if isinstance(node, ast.Constant):
            return ("other", "const")
        if isinstance(node, ast.Call):
            f = node.func
            if isinstance(f, ast.Name) and f.id[:1].isupper():
                sig = self.signatures.get(f.id, [])
                args = []
                for i, a in enumerate(node.args):
                    if isinstance(a, ast.Starred):
                        args.append(("*", rec(a.value)))
                    else:
                        args.append((sig[i] if i < len(sig) else "#%d" % i, rec(a)))
                for k in node.keywords:
                    args.append((k.arg or "**", rec(k.value)))
                return ("new", f.id, tuple(args))
            if is_self_call(node):
                callee = find_method(self.cls, f.attr)
                names = [a.arg for a in callee.args.args if a.arg != "self"]
                bind = {}
                for nm, a in zip(names, node.args):
                    bind[nm] = rec(a)
                for k in node.keywords:
                    if k.arg:
                        bind[k.arg] = rec(k.value)
                return phi(self.method_returns(f.attr, bind))
            fname = src_of(f, self.src)
            return ("call", fname, tuple([rec(a.value if isinstance(a, ast.Starred) else a)
                                          for a in node.args] +
                                         [rec(k.value) for k in node.keywords]))
        if isinstance(node, ast.Attribute):
            if isinstance(node.value, ast.Name) and node.value.id == "self":
                return ("self", node.attr)
            return ("field", rec(node.value), node.attr)
        if isinstance(node, ast.BinOp):
            return ("call", "<op>", (rec(node.left), rec(node.right)))
        if isinstance(node, ast.UnaryOp):
            return ("call", "<op>", (rec(node.operand),))
        if isinstance(node, ast.Compare):
            return ("call", "<op>", tuple([rec(node.left)] + [rec(c) for c in node.comparators]))
        if isinstance(node, ast.BoolOp):
            return ("call", "<op>", tuple(rec(v) for v in node.values))
        if isinstance(node, ast.IfExp):
            return phi([rec(node.body), rec(node.orelse)])
        if isinstance(node, (ast.Tuple, ast.List)):
            return ("call", "<tuple>", tuple(rec(e) for e in node.elts))
        return ("stored", src_of(node, self.src)[:60])


def init_signature(src, clsname):
    cls = find_class(ast.parse(src), clsname)
    fn = find_method(cls, "__init__")
    return [a.arg for a in fn.args.args if a.arg != "self"]


def manager_facts(src, signatures=None):
    tree = ast.parse(src)
    cls = find_class(tree, "WallGoManager")
    pv = Prov(src, cls, signatures)
    out = {}
    rets = pv.method_returns("setupWallSolver")
    out["setup_returns"] = rets
    out["setup_stores"] = sorted(set(pv.self_stores))
    out["local_stores"] = pv.local_stores
    out["entry_stores"] = manager_entry_stores(src, cls)
    # receivers of the EOM calls in solveWall / solveWallDetonation
    for m, callee in (("solveWall", "findWallVelocityDeflagrationHybrid"),
                      ("solveWallDetonation", "findWallVelocityDetonation")):
        fn = find_method(cls, m)
        assigns = {}
        for n in ast.walk(fn):
            if isinstance(n, (ast.Assign, ast.AnnAssign)) and n.value is not None:
                targets = n.targets if isinstance(n, ast.Assign) else [n.target]
                for t in targets:
                    if isinstance(t, ast.Name):
                        assigns.setdefault(t.id, []).append(n.value)
        recv = []
        for n in ast.walk(fn):
            if isinstance(n, ast.Call) and isinstance(n.func, ast.Attribute) and \
                    n.func.attr == callee:
                recv.append(n.func.value)
        if len(recv) != 1:
            raise TranslateError("%s must call %s exactly once" % (m, callee))
        # receiver: <solver>.eom with <solver> assigned from self.setupWallSolver(...)
        r = recv[0]
        ok = False
        if isinstance(r, ast.Attribute) and r.attr == "eom" and isinstance(r.value, ast.Name):
            ds = assigns.get(r.value.id, [])
            ok = len(ds) == 1 and is_self_call(ds[0], "setupWallSolver")
        elif isinstance(r, ast.Attribute) and r.attr == "eom" and \
                is_self_call(r.value, "setupWallSolver"):
            ok = True
        out["recv_" + m] = ok
        # and every return of the method is that call (or derived from it)
        rr = [n for n in ast.walk(fn) if isinstance(n, ast.Return)]
        out["ret_" + m] = all(
            isinstance(x.value, ast.Call) and isinstance(x.value.func, ast.Attribute)
            and x.value.func.attr == callee for x in rr) and len(rr) >= 1
    return out


# ---------------------------------------------------------------------------------------

def coq_bool(b):
    return "true" if b else "false"


def coq_str_list(xs):
    return "[" + "; ".join('"%s"' % x for x in xs) + "]"


def generate(eom_src, mgr_src):
    f = solvewall_facts(eom_src)
    m = manager_facts(mgr_src, {"EOM": init_signature(eom_src, "EOM")})
    L = []
    L.append("(* GENERATED by tools/gen_eom_facts.py from src/WallGo/equationOfMotion.py and "
             "src/WallGo/manager.py -- do not edit *)")
    L.append("From Coq Require Import QArith Qabs Qminmax List Bool String.")
    L.append("From WG Require Import Model.SolveWall.")
    L.append("Import ListNotations.")
    L.append("Local Open Scope Q_scope.")
    L.append("Local Open Scope string_scope.")
    L.append("")
    L.append("(** scalar expressions of EOM.solveWall *)")
    L.append("Definition gen_xtol (errTol : Q) : Q := %s." % f["xtol"])
    L.append("Definition gen_velErr (errTol root : Q) : Q := %s." % f["velerr"])
    L.append("Definition gen_velErr_offEq_bounded_below : bool := %s." % coq_bool(f["off_ok"]))
    L.append("Definition gen_atol0 : Q := %s." % f["atol0"])
    L.append("Definition gen_atol0_before_first_eval : bool := %s." % coq_bool(f["atol0_first"]))
    L.append("Definition gen_atol2 (errTol rel pMin pMax : Q) : Q := %s." % f["atol2"])
    L.append("Definition gen_atol2_between_loop_and_rootfinder : bool := %s."
             % coq_bool(f["atol2_placed"]))
    L.append("Definition gen_guardMin (x vmin vmax : Q) : bool := %s." % f["gmin"])
    L.append("Definition gen_guardMax (x vmin vmax : Q) : bool := %s." % f["gmax"])
    L.append("Definition gen_rootfinder_method : string := \"%s\"." % f["method"])
    L.append("(* positions, among solveWall's parameters, of the two ends of the bracket *)")
    L.append("Definition gen_rootfinder_bracket : list nat := [%s]."
             % "; ".join("%d%%nat" % b for b in f["bracket"]))
    L.append("Definition gen_rootfinder_extra_keywords : list string := %s."
             % coq_str_list(f["extra_kw"]))
    L.append("Definition gen_wrapper_calls_wallPressure_once_at_its_argument : bool := %s."
             % coq_bool(f["inner_ok"]))
    L.append("")
    L.append("(** def-use facts *)")
    L.append("Inductive site := AtMax | AtMin | AtRoot | Unknown.")
    L.append("Inductive velKind := VNone | VRoot | VOther.")
    L.append("Definition gen_wallPressure_returns : list string := %s."
             % coq_str_list(f["ret_names"]))
    L.append("Definition gen_wrapper_cached : list (site * nat) := [%s]." % "; ".join(
        "(%s, %d%%nat)" % (o[0], o[1]) for o in f["gret"]))
    L.append("Definition gen_paths_enumerated : nat := %d." % f["npaths"])
    rows = []
    vel = []
    lte = []
    last = []
    for label in sorted(f["table"]):
        for setter in sorted(f["table"][label]):
            vals = f["table"][label][setter]
            if setter == "velocity":
                vel.append('("%s", [%s])' % (label, "; ".join(sorted(vals))))
            elif setter == "lte":
                lte.append('("%s", %s)' % (label, coq_bool(vals == {"LteHydro"})))
            elif setter == "lastEval":
                last.append('("%s", [%s])' % (label, "; ".join(sorted(vals))))
            else:
                rows.append('("%s", "%s", [%s])' % (label, setter, "; ".join(
                    "(%s, %d%%nat)" % (o[0], o[1]) for o in sorted(vals))))
    L.append("(* exit label, setter, every (site, tuple position) that can reach it *)")
    L.append("Definition gen_setters : list (string * string * list (site * nat)) :=\n  [%s]."
             % ";\n   ".join(rows))
    L.append("Definition gen_velocity : list (string * list velKind) :=\n  [%s]."
             % ";\n   ".join(vel))
    L.append("Definition gen_lte_from_hydrodynamics : list (string * bool) :=\n  [%s]."
             % ";\n   ".join(lte))
    L.append("(* site of the LAST wallPressure call on every path that reaches the root finder *)")
    L.append("Definition gen_last_eval : list (string * list site) :=\n  [%s]."
             % ";\n   ".join(last))
    L.append("Definition gen_exit_success : list (string * list string) :=\n  [%s]." % ";\n   ".join(
        '("%s", %s)' % (k, coq_str_list(sorted(v))) for k, v in sorted(f["exits"].items())))
    L.append("")
    L.append("(** attribute stores made directly by solveWall (everything else goes through the "
             "setters of results) *)")
    L.append("Definition gen_solveWall_attribute_stores : list string := %s."
             % coq_str_list(f["attr_stores"]))
    L.append("(** exits of solveWall and the kind of message each one carries (AST order) *)")
    L.append("Definition gen_message_kinds : list msgKind := [%s]."
             % "; ".join(k for k, _, _ in f["messages"]))
    L.append("")
    L.append("(** the iteration of wallPressure *)")
    wl = f["wploop"]
    L.append("Definition gen_wp_loop_kind : string := \"%s\"." % wl["kind"])
    L.append("Definition gen_wp_flag_raised_before_loop : bool := %s."
             % coq_bool(wl["set_true_before"]))
    L.append("(* one entry per `break`: lowers successWallPressure first / sits in the branch of "
             "a `<` test at loop level / guarded by maxIterations *)")
    L.append("Definition gen_wp_breaks : list (bool * bool * bool) := [%s]." % "; ".join(
        "(%s, %s, %s)" % tuple(coq_bool(x) for x in b) for b in wl["breaks"]))
    L.append("Definition gen_flag_writers : list (string * list string) := [%s]." % "; ".join(
        '("%s", %s)' % (k, coq_str_list(v)) for k, v in sorted(wl["writers"].items())))
    L.append("")
    L.append("(** EOM.__init__: attribute <- constructor parameter; stores of these attributes "
             "elsewhere in the class *)")
    L.append("Definition gen_eom_init_wiring : list (string * string) := [%s]." % "; ".join(
        '("%s", "%s")' % w for w in f["init"]["wiring"]))
    L.append("Definition gen_eom_setting_stores_elsewhere : list string := %s."
             % coq_str_list(f["init"]["others"]))
    L.append("")
    L.append("(** findWallVelocityDetonation -> solveWall call sites (symbolic run, two scan "
             "iterations): tuples belong to the ends / guard is p(hi) >= 0 >= p(lo) *)")
    L.append("Definition gen_deton_callsites : list (bool * bool) := [%s]." % "; ".join(
        "(%s, %s)" % (coq_bool(a), coq_bool(b)) for a, b in f["deton"]["checks"]))
    L.append("")
    b = f["bounds"]
    L.append("(** saturation guard of solveWall vs. bounds of the minimiser in "
             "_intermediatePressureResults (canonical source text, locals inlined) *)")
    L.append("Definition gen_guard_bound_exprs : list string := %s." % coq_str_list(b["guard"]))
    L.append("Definition gen_minimiser_bound_exprs : list string := %s."
             % coq_str_list(b["mini"]))
    L.append("Definition gen_minimiser_gets_these_bounds : bool := %s." % coq_bool(b["handed"]))
    d = f["deflag"]
    L.append("")
    L.append("(** findWallVelocityDeflagrationHybrid *)")
    L.append("Definition gen_deflag_lower : string := \"%s\"." % d["lower"].replace('"', "'"))
    L.append("Definition gen_deflag_upper_is_min_vJ_fastestDeflag : bool := %s."
             % coq_bool(d["upper_ok"]))
    L.append("Definition gen_deflag_guess_is_uniform : bool := %s." % coq_bool(d["guess_ok"]))
    L.append("Definition gen_deflag_default_thickness_is_5_over_Tnucl : bool := %s."
             % coq_bool(d["default_ok"]))
    L.append("Definition gen_deflag_stores : list string := %s." % coq_str_list(d["stores"]))
    L.append("Definition gen_deflag_other_calls : list string := %s."
             % coq_str_list(d["others"]))
    L.append("")
    L.append("(** stores (attribute / item / mutating calls) in WallGoManager.solveWall, "
             "solveWallDetonation, wallSpeedLTE *)")
    L.append("Definition gen_manager_entry_stores : list string := %s."
             % coq_str_list(x.replace('"', "'") for x in m["entry_stores"]))
    L.append("")
    L.append("(** WallGoManager: provenance of what setupWallSolver returns *)")
    L.append("Inductive prov :=\n  | PNew (cls : string) (args : list (string * prov))"
             "\n  | PCall (f : string) (args : list prov)\n  | PSelf (attr : string)"
             "\n  | PParam (name : string)\n  | PField (p : prov) (attr : string)"
             "\n  | PStored (what : string)\n  | PPhi (alts : list prov)\n  | POther (what : string).")
    L.append("Definition gen_setupWallSolver_returns : list prov :=\n  [%s]."
             % ";\n   ".join(prov_coq(r) for r in m["setup_returns"]))
    L.append("(* every store on self made by setupWallSolver or a manager method it calls *)")
    L.append("Definition gen_setupWallSolver_stores_on_self : list string := %s."
             % coq_str_list(s.replace('"', "'") for s in m["setup_stores"]))
    L.append("(* attribute stores on local objects in those methods, with the provenance of "
             "the value *)")
    L.append("Definition gen_setupWallSolver_local_stores : list (string * prov) := [%s]."
             % "; ".join('("%s", %s)' % (n.replace('"', "'"), prov_coq(v))
                         for n, v in m["local_stores"]))
    for k in ("solveWall", "solveWallDetonation"):
        L.append("Definition gen_%s_uses_fresh_setup : bool := %s."
                 % (k, coq_bool(m["recv_" + k] and m["ret_" + k])))
    L.append("")
    L.append("(** any configuration, with the literals and expressions of solveWall taken from "
             "the source\n    (atolFactor and endTol are the model's; Props/C01.v proves that "
             "the generated tolerance\n    formula and wrapper guards coincide with them) *)")
    L.append("Definition atolFactor : Q := 1 # 400.")
    L.append("Definition endTol : Q := 1 # 10000000000.")
    L.append("Definition cfg (b : config) : config :=\n"
             "  mkConfig (c_errTol b) (c_pressRelErrTol b) (c_vJ b) (c_vLTE b)\n"
             "           (c_TMinLow b) (c_TMaxLow b) (c_TMinHigh b) (c_TMaxHigh b)\n"
             "           (c_widthLo b) (c_widthHi b) (c_offLo b) (c_offHi b)\n"
             "           gen_atol0 atolFactor endTol (gen_xtol (c_errTol b)) "
             "(gen_velErr (c_errTol b)).")
    return "\n".join(L) + "\n", dict(facts=f, manager=m)


if __name__ == "__main__":
    import sys
    import vlib
    text, _ = generate(vlib.read_src("equationOfMotion.py"), vlib.read_src("manager.py"))
    sys.stdout.write(text)
