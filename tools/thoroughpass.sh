#!/bin/bash
pid=$1
( time /verif/check $pid --tier thorough ) > /tmp/thorough_$pid.log 2>&1; rc=$?
echo "$pid thorough rc=$rc $(grep -E 'obligations' /tmp/thorough_$pid.log | sed 's/.*\] //') $(grep -c VIOLATION /tmp/thorough_$pid.log) viol $(grep '^real' /tmp/thorough_$pid.log)"
