#!/bin/bash
# tools/integrate.sh Cxx : run the check on /repo, then both seeded patches; summary lines only
pid=$1
cd /verif
( time ./check $pid ) > /tmp/int_$pid.log 2>&1; rc=$?
echo "== $pid on /repo rc=$rc  $(grep -E '^real' /tmp/int_$pid.log)"
grep -E "VIOLATION|KNOWN-FINDING|obligations" /tmp/int_$pid.log | cut -c1-220
for k in 1 2; do
  echo "-- patch$k:"; tools/try_mutant.sh $pid /verif/seeded/_incoming/$pid/patch$k.diff | grep -E "FAILING|failed at|translator|obligations|rc=" | cut -c1-260 | head -5
done
