"""C07 generators.

(a) `generate_formulas(sources)` : pyrx translation of the closed-form functions whose
    behaviour under a change of units is proved in coq/Props/C07.v
      helpers.py            gammaSq, boostVelocity                     (module level)
      hydrodynamics.py      vpvmAndvpovm, shockDE (both waves), _mappingT, _inverseMappingT
      equationOfMotion.py   wallProfile, plasmaVelocity, temperatureProfileEqLHS
                            (one scalar field, scalar position: documented specialisation)
      grid3Scales.py        _updateParameters (state transformer: aIn, aOut, lengths)
    Thermodynamics comes from tools/gen_thermo.py unchanged.
(b) `tolerance_sites(sources)` : a small dimensional analysis ("unit type checker") over the
    AST of the modules the property names.  Every identifier gets a mass dimension from a
    reviewed naming table (DIMS); expressions get dimensions by the usual rules; a *site*
    is recorded wherever a pure number meets a dimensionful quantity:
      cmp     comparison  dimensionful  <op>  pure number (other than 0)
      add     dimensionful +/- pure number (other than 0)
      assign  pure number (other than 0) stored into a dimensionful name/attribute, or
              a stored expression whose dimension differs from the declared one
      xtol    absolute tolerance keyword (xtol/atol/tol/options{xtol}) that is a pure number
              while the unknown of the solver call is dimensionful (or cannot be shown
              dimensionless: dimension `None`)
      bounds  lower/upper bounds (or start vector and bounds) of different dimensions
      branch  two branches of a conditional expression / min / max of different dimensions
    The sites are emitted as Coq data (Sites.v); Props/C07.v proves that the list equals the
    reviewed list, so ANY new absolute dimensionful tolerance or lost unit conversion in
    the analysed modules breaks that obligation.
"""
from __future__ import annotations

import ast
import re
from fractions import Fraction

import pyrx
from pyrx import Pattern, TranslateError


# =====================================================================================
# (a) formulas
# =====================================================================================

class UT(pyrx.ClassTranslator):
    """pyrx with the few extra idioms of the functions translated here (all fail closed):
    module-level functions, `if c: raise` (recorded as an assertion), `with ...:` (body
    inlined), boolean parameters fixed at translation time, calls to translated module
    level functions, and the numpy wrappers that are the identity on one scalar field."""

    def __init__(self, src, cls, attrs, externals, methods, state=False, prefix="",
                 module_funcs=(), fixed=None, ident_calls=(), funcs_of=None):
        if cls is None:
            # module-level functions: wrap them as if they were methods
            self.tree = ast.parse(src)
            self.src = src
            self.cls = None
            self.fn = {f.name: f for f in self.tree.body if isinstance(f, ast.FunctionDef)}
            self.attrs = list(attrs)
            self.externals = externals
            self.methods = list(methods)
            self.state = state
            self.prefix = prefix
            self.used_ext = []
            self.asserts = []
            self.fresh = 0
            self.spans = {}
            self.svar = "s"
        else:
            super().__init__(src, cls, attrs, externals, methods, state=state,
                             prefix=prefix)
        self.module_funcs = dict(module_funcs)   # python name -> coq term (applied to args)
        self.fixed = dict(fixed or {})           # name -> bool
        self.ident_calls = set(ident_calls)      # unparse()d callee texts that are identity

    # ---- expressions
    def expr(self, node, env):
        if isinstance(node, ast.Call):
            f = node.func
            txt = ast.unparse(f)
            if txt in self.ident_calls and len(node.args) == 1 and not node.keywords:
                return self.expr(node.args[0], env)
            if isinstance(f, ast.Name) and f.id in self.module_funcs and not node.keywords:
                return "(%s %s)" % (self.module_funcs[f.id],
                                    " ".join(self.expr(a, env) for a in node.args))
            # x.view(np.ndarray) : identity on the value
            if isinstance(f, ast.Attribute) and f.attr == "view" and len(node.args) == 1 \
                    and ast.unparse(node.args[0]) in ("np.ndarray", "Fields"):
                return self.expr(f.value, env)
        return super().expr(node, env)

    # ---- statements
    def block(self, stmts, env, k):
        if stmts:
            st, rest = stmts[0], stmts[1:]
            if isinstance(st, ast.If):
                # `if cond: raise ...` : precondition, recorded
                if len(st.body) == 1 and isinstance(st.body[0], ast.Raise) and not st.orelse:
                    self.asserts.append("not (%s)" % ast.unparse(st.test))
                    return self.block(rest, env, k)
                t = st.test
                key = ast.unparse(t)
                if key in self.fixed:
                    chosen = st.body if self.fixed[key] else st.orelse
                    return self.block(list(chosen) + rest, env, k)
                if ".shape" in key:
                    return self.shape_dispatch(stmts, env)
            if isinstance(st, ast.With):
                return self.block(list(st.body) + rest, env, k)
            if isinstance(st, ast.Assign) and len(st.targets) == 1 and \
                    isinstance(st.targets[0], ast.Name) and \
                    isinstance(st.value, ast.Call) and \
                    ast.unparse(st.value.func) in ("np.asarray", "np.array") and \
                    len(st.value.args) == 1 and \
                    ast.unparse(st.value.args[0]) == st.targets[0].id:
                return self.block(rest, env, k)         # x = np.asarray(x)
        return super().block(stmts, env, k)

    def shape_dispatch(self, stmts, env):
        """if x.shape == (1,) ...: return float(x[0]) / if x.shape == (): return float(x) /
        raise TypeError  --  returns the scalar x whatever its array wrapping"""
        names = set()
        for st in stmts:
            if isinstance(st, ast.Raise):
                continue
            if not (isinstance(st, ast.If) and ".shape" in ast.unparse(st.test) and
                    len(st.body) == 1 and isinstance(st.body[0], ast.Return) and
                    not st.orelse):
                raise TranslateError("shape dispatch: unexpected statement (line %d)" %
                                     st.lineno)
            v = st.body[0].value
            m = re.fullmatch(r"float\((\w+)(\[0\])?\)", ast.unparse(v))
            if not m:
                raise TranslateError("shape dispatch: return %s (line %d)" % (
                    ast.unparse(v), st.lineno))
            names.add(m.group(1))
        if len(names) != 1:
            raise TranslateError("shape dispatch over several values")
        nm = names.pop()
        if nm not in env.v:
            raise TranslateError("shape dispatch: unbound %s" % nm)
        return env.v[nm]


HELPERS = ["gammaSq", "boostVelocity"]

HYDRO_ATTRS = ["TMaxHydro", "TMinHydro"]
HYDRO_EXT = [
    Pattern("self.thermodynamics.pHighT(_0)", "th_pHighT", "R -> R"),
    Pattern("self.thermodynamics.pLowT(_0)", "th_pLowT", "R -> R"),
    Pattern("self.thermodynamics.eHighT(_0)", "th_eHighT", "R -> R"),
    Pattern("self.thermodynamics.eLowT(_0)", "th_eLowT", "R -> R"),
    Pattern("self.thermodynamics.csqHighT(_0)", "th_csqHighT", "R -> R"),
    Pattern("self.thermodynamics.csqLowT(_0)", "th_csqLowT", "R -> R"),
]

EOM_EXT = [
    Pattern("wallParams.widths", "wp_widths", "R"),
    Pattern("wallParams.offsets", "wp_offsets", "R"),
    Pattern("self.thermo.effectivePotential.derivT(_0, _1)", "veff_dT", "R -> R -> R"),
    Pattern("self.thermo.effectivePotential.evaluate(_0, _1)", "veff", "R -> R -> R"),
]

GRID_ATTRS = ["tailLengthInside", "tailLengthOutside", "wallThickness", "ratioPointsWall",
              "smoothing", "wallCenter", "aIn", "aOut"]


def generate_formulas(src):
    """src: dict file name -> source text.  Returns (coq text, spans dict, asserts)."""
    out = [pyrx.COQ_PRELUDE, "(* generated by tools/gen_units.py from helpers.py, "
           "hydrodynamics.py, equationOfMotion.py, grid3Scales.py *)"]
    spans, asserts = {}, {}
    # -- helpers (module level)
    hp = UT(src["helpers.py"], None, [], [], [], prefix="hp_")
    out.append(hp.header(extra_vars=[("hp_unit", "unit")]))
    out.append("Definition hp_e0 : hp_env := mk_hp_env tt.")
    for f in HELPERS:
        out.append(hp.method(f))
    spans.update({k: ("helpers.py",) + tuple(v) for k, v in hp.spans.items()})
    mf = {f: "hp_%s hp_e0" % f for f in HELPERS}
    # -- hydrodynamics
    hy = UT(src["hydrodynamics.py"], "Hydrodynamics", HYDRO_ATTRS, HYDRO_EXT, [],
            prefix="hy_", module_funcs=mf)
    defs = [hy.method("vpvmAndvpovm")]
    hy.fixed = {"shockWave": True}
    defs.append(hy.method("shockDE", types={"xiAndT": "R * R", "shockWave": "bool"},
                          coq_name="hy_shockDE_shock"))
    hy.fixed = {"shockWave": False}
    defs.append(hy.method("shockDE", types={"xiAndT": "R * R", "shockWave": "bool"},
                          coq_name="hy_shockDE_rarefaction"))
    hy.fixed = {}
    defs.append(hy.method("_mappingT", types={"TpTm": "R * R"}, coq_name="hy_mappingT"))
    defs.append(hy.method("_inverseMappingT", types={"mappedTpTm": "R * R"},
                          coq_name="hy_inverseMappingT"))
    out.append(hy.header())
    out += defs
    spans.update({k: ("hydrodynamics.py",) + tuple(v) for k, v in hy.spans.items()})
    asserts["hydrodynamics"] = hy.asserts
    # -- EOM (one scalar field, scalar z)
    eo = UT(src["equationOfMotion.py"], "EOM", [], EOM_EXT, [], prefix="eom_",
            fixed={"np.isscalar(z)": True},
            ident_calls=["Fields.castFromNumpy", "np.sum", "float"])
    defs = [eo.method("wallProfile"), eo.method("plasmaVelocity"),
            eo.method("temperatureProfileEqLHS")]
    out.append(eo.header())
    out += defs
    spans.update({k: ("equationOfMotion.py",) + tuple(v) for k, v in eo.spans.items()})
    # -- Grid3Scales parameters
    gr = UT(src["grid3Scales.py"], "Grid3Scales", GRID_ATTRS, [], [], state=True,
            prefix="gr_")
    d = gr.method("_updateParameters", coq_name="gr_updateParameters")
    out.append(gr.header(extra_vars=[("gr_unit", "unit")]))
    out.append(d)
    spans.update({k: ("grid3Scales.py",) + tuple(v) for k, v in gr.spans.items()})
    asserts["grid3Scales"] = gr.asserts
    return "\n".join(out) + "\n", spans, asserts
