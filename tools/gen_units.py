"""C07 generators.

(a) `generate_formulas(sources)` : pyrx translation of the closed-form functions whose
    behaviour under a change of units is proved in coq/Props/C07.v
      helpers.py            gammaSq, boostVelocity                     (module level)
      hydrodynamics.py      vpvmAndvpovm, shockDE (both waves), _mappingT, _inverseMappingT
      equationOfMotion.py   wallProfile, plasmaVelocity, temperatureProfileEqLHS
                            (one scalar field, scalar position: documented specialisation)
      grid3Scales.py        _updateParameters (state transformer: aIn, aOut, lengths)
    Thermodynamics comes from tools/gen_thermo.py unchanged.
(b) `tolerance_sites(sources)` : a small dimensional analysis ("unit type checker") over the
    AST of the modules the property names.  Every identifier gets a mass dimension from a
    reviewed naming table (DIMS); expressions get dimensions by the usual rules; a *site*
    is recorded wherever a pure number meets a dimensionful quantity:
      cmp     comparison  dimensionful  <op>  pure number (other than 0)
      add     dimensionful +/- pure number (other than 0)
      assign  pure number (other than 0) stored into a dimensionful name/attribute, or
              a stored expression whose dimension differs from the declared one
      xtol    absolute tolerance keyword (xtol/atol/tol/options{xtol}) that is a pure number
              while the unknown of the solver call is dimensionful (or cannot be shown
              dimensionless: dimension `None`)
      bounds  lower/upper bounds (or start vector and bounds) of different dimensions
      branch  two branches of a conditional expression / min / max of different dimensions
    The sites are emitted as Coq data (Sites.v); Props/C07.v proves that the list equals the
    reviewed list, so ANY new absolute dimensionful tolerance or lost unit conversion in
    the analysed modules breaks that obligation.
"""
from __future__ import annotations

import ast
import re
from fractions import Fraction

import pyrx
from pyrx import Pattern, TranslateError


# =====================================================================================
# (a) formulas
# =====================================================================================

class UT(pyrx.ClassTranslator):
    """pyrx with the few extra idioms of the functions translated here (all fail closed):
    module-level functions, `if c: raise` (recorded as an assertion), `with ...:` (body
    inlined), boolean parameters fixed at translation time, calls to translated module
    level functions, and the numpy wrappers that are the identity on one scalar field."""

    def __init__(self, src, cls, attrs, externals, methods, state=False, prefix="",
                 module_funcs=(), fixed=None, ident_calls=(), funcs_of=None):
        if cls is None:
            # module-level functions: wrap them as if they were methods
            self.tree = ast.parse(src)
            self.src = src
            self.cls = None
            self.fn = {f.name: f for f in self.tree.body if isinstance(f, ast.FunctionDef)}
            self.attrs = list(attrs)
            self.externals = externals
            self.methods = list(methods)
            self.state = state
            self.prefix = prefix
            self.used_ext = []
            self.asserts = []
            self.fresh = 0
            self.spans = {}
            self.svar = "s"
        else:
            super().__init__(src, cls, attrs, externals, methods, state=state,
                             prefix=prefix)
        self.module_funcs = dict(module_funcs)   # python name -> coq term (applied to args)
        self.fixed = dict(fixed or {})           # name -> bool
        self.ident_calls = set(ident_calls)      # unparse()d callee texts that are identity
        self.closure_map = {}                    # nested def name -> coq term (applied to args)

    # ---- expressions
    def expr(self, node, env):
        # (x + 0j).real : real part of the complex function (Lib/NumpySem.atanh_R)
        if isinstance(node, ast.Attribute) and node.attr == "real":
            return self.expr(node.value, env)
        if isinstance(node, ast.BinOp) and isinstance(node.op, ast.Add) and \
                isinstance(node.right, ast.Constant) and \
                isinstance(node.right.value, complex) and node.right.value == 0:
            return self.expr(node.left, env)
        if isinstance(node, ast.Call):
            f = node.func
            txt = ast.unparse(f)
            if isinstance(f, ast.Name) and f.id in self.closure_map and not node.keywords:
                return "(%s %s)" % (self.closure_map[f.id],
                                    " ".join(self.expr(a, env) for a in node.args))
            if txt in self.ident_calls and len(node.args) == 1 and not node.keywords:
                return self.expr(node.args[0], env)
            if isinstance(f, ast.Name) and f.id in self.module_funcs and not node.keywords:
                return "(%s %s)" % (self.module_funcs[f.id],
                                    " ".join(self.expr(a, env) for a in node.args))
            # x.view(np.ndarray) : identity on the value
            if isinstance(f, ast.Attribute) and f.attr == "view" and len(node.args) == 1 \
                    and ast.unparse(node.args[0]) in ("np.ndarray", "Fields"):
                return self.expr(f.value, env)
        return super().expr(node, env)

    # ---- statements
    def block(self, stmts, env, k):
        if stmts:
            st, rest = stmts[0], stmts[1:]
            if isinstance(st, ast.If):
                # `if cond: raise ...` : precondition, recorded
                if len(st.body) == 1 and isinstance(st.body[0], ast.Raise) and not st.orelse:
                    self.asserts.append("not (%s)" % ast.unparse(st.test))
                    return self.block(rest, env, k)
                t = st.test
                key = ast.unparse(t)
                if key in self.fixed:
                    chosen = st.body if self.fixed[key] else st.orelse
                    return self.block(list(chosen) + rest, env, k)
                if ".shape" in key:
                    return self.shape_dispatch(stmts, env)
            if isinstance(st, ast.With):
                return self.block(list(st.body) + rest, env, k)
            if isinstance(st, ast.Assign) and len(st.targets) == 1 and \
                    isinstance(st.targets[0], ast.Name) and \
                    isinstance(st.value, ast.Call) and \
                    ast.unparse(st.value.func) in ("np.asarray", "np.array") and \
                    len(st.value.args) == 1 and \
                    ast.unparse(st.value.args[0]) == st.targets[0].id:
                return self.block(rest, env, k)         # x = np.asarray(x)
        return super().block(stmts, env, k)

    def shape_dispatch(self, stmts, env):
        """if x.shape == (1,) ...: return float(x[0]) / if x.shape == (): return float(x) /
        raise TypeError  --  returns the scalar x whatever its array wrapping"""
        names = set()
        for st in stmts:
            if isinstance(st, ast.Raise):
                continue
            if not (isinstance(st, ast.If) and ".shape" in ast.unparse(st.test) and
                    len(st.body) == 1 and isinstance(st.body[0], ast.Return) and
                    not st.orelse):
                raise TranslateError("shape dispatch: unexpected statement (line %d)" %
                                     st.lineno)
            v = st.body[0].value
            m = re.fullmatch(r"float\((\w+)(\[0\])?\)", ast.unparse(v))
            if not m:
                raise TranslateError("shape dispatch: return %s (line %d)" % (
                    ast.unparse(v), st.lineno))
            names.add(m.group(1))
        if len(names) != 1:
            raise TranslateError("shape dispatch over several values")
        nm = names.pop()
        if nm not in env.v:
            raise TranslateError("shape dispatch: unbound %s" % nm)
        return env.v[nm]


HELPERS = ["gammaSq", "boostVelocity"]

HYDRO_ATTRS = ["TMaxHydro", "TMinHydro", "Tnucl"]
HYDRO_EXT = [
    Pattern("self.thermodynamics.pHighT(_0)", "th_pHighT", "R -> R"),
    Pattern("self.thermodynamics.pLowT(_0)", "th_pLowT", "R -> R"),
    Pattern("self.thermodynamics.eHighT(_0)", "th_eHighT", "R -> R"),
    Pattern("self.thermodynamics.eLowT(_0)", "th_eLowT", "R -> R"),
    Pattern("self.thermodynamics.dpLowT(_0)", "th_dpLowT", "R -> R"),
    Pattern("self.thermodynamics.deLowT(_0)", "th_deLowT", "R -> R"),
    Pattern("self.thermodynamics.csqHighT(_0)", "th_csqHighT", "R -> R"),
    Pattern("self.thermodynamics.csqLowT(_0)", "th_csqLowT", "R -> R"),
]

EOM_EXT = [
    Pattern("wallParams.widths", "wp_widths", "R"),
    Pattern("wallParams.offsets", "wp_offsets", "R"),
    Pattern("self.thermo.effectivePotential.derivT(_0, _1)", "veff_dT", "R -> R -> R"),
    Pattern("self.thermo.effectivePotential.evaluate(_0, _1)", "veff", "R -> R -> R"),
]

GRID_ATTRS = ["tailLengthInside", "tailLengthOutside", "wallThickness", "ratioPointsWall",
              "smoothing", "wallCenter", "aIn", "aOut", "momentumFalloffT"]


def generate_formulas(src):
    """src: dict file name -> source text.  Returns (coq text, spans dict, asserts)."""
    out = [pyrx.COQ_PRELUDE, "(* generated by tools/gen_units.py from helpers.py, "
           "hydrodynamics.py, equationOfMotion.py, grid3Scales.py *)"]
    spans, asserts = {}, {}
    # -- helpers (module level)
    hp = UT(src["helpers.py"], None, [], [], [], prefix="hp_")
    out.append(hp.header(extra_vars=[("hp_unit", "unit")]))
    out.append("Definition hp_e0 : hp_env := mk_hp_env tt.")
    for f in HELPERS:
        out.append(hp.method(f))
    spans.update({k: ("helpers.py",) + tuple(v) for k, v in hp.spans.items()})
    mf = {f: "hp_%s hp_e0" % f for f in HELPERS}
    # -- hydrodynamics
    hy = UT(src["hydrodynamics.py"], "Hydrodynamics", HYDRO_ATTRS, HYDRO_EXT, [],
            prefix="hy_", module_funcs=mf)
    defs = [hy.method("vpvmAndvpovm")]
    hy.fixed = {"shockWave": True}
    defs.append(hy.method("shockDE", types={"xiAndT": "R * R", "shockWave": "bool"},
                          coq_name="hy_shockDE_shock"))
    hy.fixed = {"shockWave": False}
    defs.append(hy.method("shockDE", types={"xiAndT": "R * R", "shockWave": "bool"},
                          coq_name="hy_shockDE_rarefaction"))
    hy.fixed = {}
    defs.append(hy.method("_mappingT", types={"TpTm": "R * R"}, coq_name="hy_mappingT"))
    defs.append(hy.method("_inverseMappingT", types={"mappedTpTm": "R * R"},
                          coq_name="hy_inverseMappingT"))
    # the function whose root is the Jouguet point (closure of findJouguetVelocity)
    d, used = hy.closure("findJouguetVelocity", "vpDerivNum", "hy_vpDerivNum")
    defs.append(d)
    out.append(hy.header())
    out += defs
    spans.update({k: ("hydrodynamics.py",) + tuple(v) for k, v in hy.spans.items()})
    asserts["hydrodynamics"] = hy.asserts
    # -- EOM (one scalar field, scalar z)
    eo = UT(src["equationOfMotion.py"], "EOM", [], EOM_EXT, [], prefix="eom_",
            fixed={"np.isscalar(z)": True},
            ident_calls=["Fields.castFromNumpy", "np.sum", "float"])
    defs = [eo.method("wallProfile"), eo.method("plasmaVelocity"),
            eo.method("temperatureProfileEqLHS")]
    out.append(eo.header())
    out += defs
    spans.update({k: ("equationOfMotion.py",) + tuple(v) for k, v in eo.spans.items()})
    # -- Grid3Scales parameters
    gr = UT(src["grid3Scales.py"], "Grid3Scales", GRID_ATTRS, [], [], state=True,
            prefix="gr_")
    d = gr.method("_updateParameters", coq_name="gr_updateParameters")
    out.append(gr.header(extra_vars=[("gr_unit", "unit")]))
    out.append(d)
    # the position / momentum maps: nested closures term1..term5, totalMapping, then the body
    for k in range(1, 6):
        d, _ = gr.closure("decompactify", "term%d" % k, "gr_term%d" % k)
        out.append(d)
        gr.closure_map["term%d" % k] = "gr_term%d e s" % k
    d, _ = gr.closure("decompactify", "totalMapping", "gr_totalMapping")
    out.append(d)
    gr.closure_map["totalMapping"] = "gr_totalMapping e s"
    out.append(gr.method("decompactify", coq_name="gr_decompactify"))
    spans.update({k: ("grid3Scales.py",) + tuple(v) for k, v in gr.spans.items()})
    asserts["grid3Scales"] = gr.asserts
    return "\n".join(out) + "\n", spans, asserts


# =====================================================================================
# (b) tolerance sites: dimensional analysis of the AST
# =====================================================================================

SITE_FILES = ["equationOfMotion.py", "hydrodynamics.py", "hydrodynamicsTemplateModel.py",
              "thermodynamics.py", "freeEnergy.py", "effectivePotential.py", "manager.py"]
SITE_FILES += ["helpers.py", "config.py", "grid.py", "grid3Scales.py", "boltzmann.py",
               "interpolatableFunction.py"]
SIG_FILES = SITE_FILES + ["results.py"]
# helpers.py is generic in the variable it differentiates with respect to: its position,
# step and scale carry the pseudo-dimension XDIM (they must stay proportional to each other)
XDIM = 1000

# Reviewed naming table: identifier (variable, parameter, attribute or method name; the LAST
# component of a dotted name) -> mass dimension.  First matching regex wins; per-file
# entries come before the common ones.  Names that match nothing have unknown dimension
# and never produce a site on their own.
T1 = 1      # temperatures, field values
DIMS = {
    "equationOfMotion.py": [
        (r"meanFreePathScale$|wallThicknessIni$", -1),   # converted by the manager (/ Tnucl)
        (r"wallThicknessBounds$|wallOffsetBounds$", 0),   # config, in units of 1/Tnucl / widths
        (r"pressAbsErrTol$", 4),
        (r"\.errTol$", 0),                       # the attribute: dimensionless configuration
        (r"^(atol|errTol)$", None),              # locals of wallPressure (inferred)
        (r"pressRelErrTol$|rtol$", 0),
    ],
    "manager.py": [
        (r"initialWallThickness$", -1),          # WallSolver field: physical units
        (r"meanFreePathScale$|wallThickness(Ini|Guess)?$", 0),   # user input in units of 1/Tnucl
        (r"tailLength$", -1),
        (r"(initial|grid)MomentumFalloffScale$", 1),
    ],
    "hydrodynamics.py": [(r"atol$|rtol$", 0), (r"_mappingT$", 0)],
    # the template model works with enthalpies normalised to w(Tn): dimensionless
    "hydrodynamicsTemplateModel.py": [(r"atol$|rtol$", 0), (r"^w[pm]?$|^wN$|wFromAlpha$", None),
                                      (r"(lower|upper)Limit$", 0)],
    "effectivePotential.py": [(r"^tol$", 0), (r"[gG]uess$", 1)],
    "freeEnergy.py": [(r"tolAbsolute$", 1), (r"(rTol|extraTol)$", 0),
                      # eigenvalues of the Hessian of Veff: masses squared
                      (r"spinodalEvent$|^eigs\w*$|^d2V$|deriv2Field2$|^ddV\w*$", 2)],
    "helpers.py": [(r"^x$|^scale$|^dx\w*$|^temp$|^bounds$", XDIM), (r"^epsilon$|pressureTol$", 0),
                   # nextStepDeton works in pressure units such that |pressure2| = 1
                   (r"^pressure\d$|^pos\w*$", None)],
    "grid.py": [(r"^(z|pz|pp|chi|rz|rp)Compact$", 0), (r"^p[pz]$|^pz\w*$|^pp\w*$|momentumFalloffT$", 1), (r"positionFalloff$", -1)],
    "boltzmann.py": [(r"^(z|pz|pp|chi|rz|rp)Compact$", 0), (r"^p[pz]$|^pz\w*$|^pp\w*$|momentumFalloffT$", 1)],
    "grid3Scales.py": [(r"^(z|pz|pp|chi|rz|rp)Compact$", 0), (r"^p[pz]$|^pz\w*$|^pp\w*$", 1),(r"(tailLength(Inside|Outside)|wallThickness|wallCenter)$", -1),
                       (r"momentumFalloffT$", 1)],
    "*": [
        # dimensionless by name although they start like a temperature / pressure
        (r"phaseTracerFirstStep$|effectivePotentialError$", 0),   # in units of dT / relative
        (r"TMultiplier$|multiplier$|success|^i$|index$|nbrFields$|^n$|^N$|^M$|^tmin$|^tmax$|"
         r"pressRelErrTol$", 0),
        # energy-momentum tensor components, pressures, energy densities, potential
        (r"^Tout3[03]$|^T3[03]$|^c[12]$|^s[12]$|[pP]ressure\w*$|^press\w*$|enthalpy$|"
         r"^veff\w*$|^[pew](High|Low)T$|^(p|e|w)(Low|High)$|kineticTerm$|^[pew][pm]$|"
         r"^(evaluate|veffValue)$", 4),
        (r"^d[pe](High|Low)T$|derivT$", 3),
        (r"^dd[pe](High|Low)T$", 2),
        # temperatures and fields
        (r"^T$|^T[pmn]$|^T[npm0-9]?[A-Z_]\w*$|^T(plus|minus|nucl|min|max|mid)\w*$|"
         r"[tT]emperature\w*$|[tT]emp(At\w*)?$|^testTemp$|^dT$|^T0$|^Tm0$|^Tp0$|"
         r"^t[nm]$", T1),
        (r"^TM(in|ax)\w*$|^T(Low|High)T\w*$|^Tc$|^Tspin\w*$", T1),
        (r"^fields?$|^phi\w*$|^vev\w*$|phase(0|Location\d?)$|fieldsAtMinimum$", T1),
        (r"^dPhidz$|^dfieldsdz$", 2),
        # lengths
        (r"^widths?$|wallThickness(Grid)?$|wallCenter(Grid)?$|^tail(Inside|Outside)$|"
         r"^wallWidths?$|^z$|^xiValues$|tailLength\w*$", -1),
        # dimensionless: velocities, ratios, strengths, similarity coordinate, offsets
        (r"^v$|^v[wpmJ]\w*$|^vmin$|^vmax$|^vMin$|^vMax$|^vBracket\w*$|[vV]elocity\w*$|^xi$|"
         r"^offsets?$|^al\w*$|^alpha$|^csq\w*$|^cs2$|^cb2$|^mu$|^nu$|^psiN$|^gamma\w*$|"
         r"[rR][tT]ol$|^smoothing$|^ratioPointsWall$|^wallOffsets?$", 0),
    ],
}

# keywords (of solver calls, of their `options` dictionaries and of dictionaries later passed
# as **kwargs) that are ABSOLUTE tolerances / steps in the units of the solver's unknown
TOL_KW = ("xtol", "atol", "tol", "abstol", "absTol", "abs_tol", "xatol", "fatol", "gtol", "ftol", "eps",
          "first_step", "max_step", "min_step", "initial_step", "h0", "hmax", "hmin")
REDUCE0 = {"exp", "log", "tanh", "cosh", "sinh", "arctanh", "arctan", "tan", "sign", "cos",
           "sin", "isscalar", "isnan", "isfinite", "len", "all", "any", "allclose"}
SAME = {"abs", "float", "asarray", "array", "absolute", "squeeze", "real", "copy", "min",
        "max", "minimum", "maximum", "fmin", "fmax", "sum", "mean", "atleast_1d", "sort",
        "amax", "amin"}


class _Unknown:
    def __repr__(self):
        return "?"


class DimCheck:
    def __init__(self, sources):
        self.src = sources
        self.sites = {}
        self.order = []
        self.sigs = {}
        for f in SIG_FILES:
            if f not in sources:
                continue
            tree = ast.parse(sources[f])
            for n in tree.body:
                if isinstance(n, ast.ClassDef):
                    has_init = False
                    for m in n.body:
                        if isinstance(m, ast.FunctionDef):
                            ps = [a.arg for a in m.args.args if a.arg != "self"]
                            if m.name == "__init__":
                                has_init = True
                                self.sigs.setdefault(n.name, []).append((f, ps))
                            self.sigs.setdefault(m.name, []).append((f, ps))
                    if not has_init and any("dataclass" in ast.unparse(d)
                                            for d in n.decorator_list):
                        # dataclass: the annotated fields are the constructor's parameters
                        ps = [m.target.id for m in n.body if isinstance(m, ast.AnnAssign)
                              and isinstance(m.target, ast.Name)]
                        self.sigs.setdefault(n.name, []).append((f, ps))
                elif isinstance(n, ast.FunctionDef):
                    ps = [a.arg for a in n.args.args]
                    self.sigs.setdefault(n.name, []).append((f, ps))
        self.handled_dicts = set()
        # parameters that have a default, per callable name; module-level float constants
        self.defaulted, self.consts = {}, {}
        for f in SIG_FILES:
            if f not in sources:
                continue
            tree = ast.parse(sources[f])
            self.consts[f] = {
                t.id for st in tree.body if isinstance(st, ast.Assign)
                and is_float_literal(st.value) for t in st.targets if isinstance(t, ast.Name)}
            for n in ast.walk(tree):
                if isinstance(n, ast.FunctionDef):
                    a = n.args.args
                    d = {x.arg for x, dv in zip(a[len(a) - len(n.args.defaults):],
                                                n.args.defaults) if numeric_default(dv)} | {
                        x.arg for x, dv in zip(n.args.kwonlyargs, n.args.kw_defaults)
                        if dv is not None and numeric_default(dv)}
                    self.defaulted.setdefault(n.name, set()).update(d)
                elif isinstance(n, ast.ClassDef):
                    d = {m.target.id for m in n.body if isinstance(m, ast.AnnAssign)
                         and m.value is not None and isinstance(m.target, ast.Name)
                         and numeric_default(m.value)}
                    for m in n.body:
                        if isinstance(m, ast.FunctionDef) and m.name == "__init__":
                            a = m.args.args
                            d = {x.arg for x, dv in zip(a[len(a) - len(m.args.defaults):],
                                                        m.args.defaults) if numeric_default(dv)}
                    self.defaulted.setdefault(n.name, set()).update(d)

    # ---- table
    def table(self, file, name, attr=False):
        """`attr`: the name is the last component of a dotted name; a regex may ask for
        that with a leading `\\.`"""
        for key in (file, "*"):
            for rx, d in DIMS.get(key, []):
                if (attr and re.search(rx, "." + name)) or re.search(rx, name):
                    return d
        return None

    def site(self, kind, text, dim):
        text = " ".join(text.split())
        if len(text) > 70:
            text = text[:67] + "..."
        if isinstance(dim, tuple):
            dim = None
        if isinstance(dim, Fraction):
            dim = int(dim) if dim.denominator == 1 else None
        key = (self.file, self.fun, kind, text, dim)
        if key not in self.sites:
            self.sites[key] = 0
            self.order.append(key)
        self.sites[key] += 1

    # ---- driver
    def run(self):
        for f in SITE_FILES:
            self.file = f
            tree = ast.parse(self.src[f])
            for n in tree.body:
                if isinstance(n, ast.ClassDef):
                    for m in n.body:
                        if isinstance(m, ast.FunctionDef):
                            self.function(m, n.name + "." + m.name, {})
                        elif isinstance(m, (ast.AnnAssign, ast.Assign)) and \
                                getattr(m, "value", None) is not None:
                            # class-level default (dataclass field, class constant)
                            self.fun = n.name
                            self.stmt(m, {}, n.name)
                elif isinstance(n, ast.FunctionDef):
                    self.function(n, n.name, {})
        return [k + (self.sites[k],) for k in self.order]

    def function(self, fn, qual, outer):
        saved = getattr(self, "fun", None)
        self.fun = qual
        env = dict(outer)
        for a in fn.args.args + fn.args.kwonlyargs:
            env.pop(a.arg, None)
        # default values: a literal default of a dimensionful parameter is a site
        ps = fn.args.args
        for a, d in zip(ps[len(ps) - len(fn.args.defaults):], fn.args.defaults):
            dd = self.table(self.file, a.arg)
            dv = self.dim(d, env)
            if dd not in (None, 0) and dv == 0 and not is_zero(d):
                self.site("default", "%s=%s" % (a.arg, ast.unparse(d)), dd)
        self.stmts(fn.body, env, qual)
        self.fun = saved

    def stmts(self, body, env, qual):
        for st in body:
            self.stmt(st, env, qual)

    def stmt(self, st, env, qual):
        if isinstance(st, ast.FunctionDef):
            self.function(st, qual + "." + st.name, env)
        elif isinstance(st, (ast.Assign, ast.AnnAssign)):
            if st.value is None:
                return
            targets = st.targets if isinstance(st, ast.Assign) else [st.target]
            dv = self.dim(st.value, env)
            for tg in targets:
                self.assign(tg, st.value, dv, env)
        elif isinstance(st, ast.AugAssign):
            dt = self.dim(_as_load(st.target), env)
            dv = self.dim(st.value, env)
            if isinstance(st.op, (ast.Add, ast.Sub)):
                self.agree("add", dt, dv, st.target, st.value)
        elif isinstance(st, (ast.If, ast.While)):
            self.dim(st.test, env)
            self.stmts(st.body, env, qual)
            self.stmts(st.orelse, env, qual)
        elif isinstance(st, ast.For):
            self.dim(st.iter, env)
            self.stmts(st.body, env, qual)
            self.stmts(st.orelse, env, qual)
        elif isinstance(st, ast.With):
            self.stmts(st.body, env, qual)
        elif isinstance(st, ast.Try):
            self.stmts(st.body, env, qual)
            for h in st.handlers:
                self.stmts(h.body, env, qual)
            self.stmts(st.orelse, env, qual)
            self.stmts(st.finalbody, env, qual)
        elif isinstance(st, (ast.Return, ast.Expr)):
            if st.value is not None:
                self.dim(st.value, env)
        elif isinstance(st, ast.Assert):
            self.dim(st.test, env)

    def assign(self, tg, value, dv, env):
        if isinstance(tg, (ast.Tuple, ast.List)):
            if isinstance(value, (ast.Tuple, ast.List)) and len(value.elts) == len(tg.elts):
                for t, v in zip(tg.elts, value.elts):
                    self.assign(t, v, self.dim(v, env), env)
            else:
                for t in tg.elts:
                    if isinstance(t, ast.Name):
                        env.pop(t.id, None)
            return
        name = tg.id if isinstance(tg, ast.Name) else tg.attr if isinstance(
            tg, ast.Attribute) else None
        if name is None:
            return
        if is_zero(value):
            dv = None           # the literal 0 has every dimension
        declared = self.table(self.file, name, attr=isinstance(tg, ast.Attribute))
        if declared is not None and dv is not None and not isinstance(dv, tuple) \
                and dv != declared and not is_zero(value):
            self.site("assign", "%s = %s" % (name, ast.unparse(value)), declared)
        if isinstance(tg, ast.Name):
            if declared is not None:
                env[tg.id] = declared
            elif dv is not None:
                env[tg.id] = dv
            else:
                env.pop(tg.id, None)

    def agree(self, kind, da, db, na, nb):
        """both known and different -> site; returns the common dimension"""
        za, zb = is_zero(na), is_zero(nb)
        if za:
            return db
        if zb:
            return da
        # fail closed: a float literal (a tolerance, a floor, an offset) against something
        # whose dimension the naming table cannot tell is recorded too (kind + "?")
        if (da is None) != (db is None) and kind in ("cmp", "add"):
            lit, other = (nb, na) if da is None else (na, nb)
            if is_float_literal(lit) or (isinstance(lit, ast.Name) and lit.id in
                                         self.consts.get(self.file, ())):
                self.site(kind + "?", "%s ~ %s" % (ast.unparse(lit), ast.unparse(other)), None)
        if da is None:
            return db
        if db is None:
            return da
        if da != db:
            if db == 0:
                self.site(kind, ast.unparse(nb), da)
            elif da == 0:
                self.site(kind, ast.unparse(na), db)
            else:
                self.site(kind, "%s ~ %s" % (ast.unparse(na), ast.unparse(nb)), None)
            return None
        return da

    # ---- expressions
    def dim(self, n, env):
        if isinstance(n, ast.Constant):
            return 0 if isinstance(n.value, (int, float)) and not isinstance(
                n.value, bool) else None
        if isinstance(n, ast.Name):
            if n.id in env:
                return env[n.id]
            return self.table(self.file, n.id)
        if isinstance(n, ast.Attribute):
            self.dim(n.value, env) if isinstance(n.value, ast.Call) else None
            if n.attr in ("x", "root", "fun", "real", "T", "y", "t"):
                return None
            return self.table(self.file, n.attr, attr=True)
        if isinstance(n, ast.UnaryOp):
            return self.dim(n.operand, env)
        if isinstance(n, ast.BinOp):
            if isinstance(n.op, ast.Mult) and isinstance(n.left, ast.List):
                self.dim(n.right, env)
                return self.dim(n.left, env)
            if isinstance(n.op, ast.Mult) and isinstance(n.right, ast.List):
                self.dim(n.left, env)
                return self.dim(n.right, env)
            a, b = self.dim(n.left, env), self.dim(n.right, env)
            if isinstance(a, tuple) or isinstance(b, tuple):
                return None
            if isinstance(n.op, (ast.Add, ast.Sub)):
                return self.agree("add", a, b, n.left, n.right)
            if isinstance(n.op, ast.Mult):
                if is_zero(n.left) or is_zero(n.right):
                    return 0
                return None if a is None or b is None else a + b
            if isinstance(n.op, ast.Div):
                return None if a is None or b is None else a - b
            if isinstance(n.op, ast.Pow):
                c = pyrx.const_value(n.right)
                if a is None:
                    return None
                if c is not None:
                    return a * c
                return 0 if a == 0 else None
            return None
        if isinstance(n, ast.BoolOp):
            for v in n.values:
                self.dim(v, env)
            return 0
        if isinstance(n, ast.Compare):
            left = n.left
            dl = self.dim(left, env)
            for c in n.comparators:
                dc = self.dim(c, env)
                if not isinstance(dl, tuple) and not isinstance(dc, tuple):
                    self.agree("cmp", dl, dc, left, c)
                left, dl = c, dc
            return 0
        if isinstance(n, ast.IfExp):
            self.dim(n.test, env)
            a, b = self.dim(n.body, env), self.dim(n.orelse, env)
            if isinstance(a, tuple) or isinstance(b, tuple):
                return None
            return self.agree("branch", a, b, n.body, n.orelse)
        if isinstance(n, (ast.List, ast.Tuple)):
            ds = [None if is_zero(e) else self.dim(e, env) for e in n.elts]
            return vec(ds)
        if isinstance(n, ast.Subscript):
            d = self.dim(n.value, env)
            self.dim(n.slice, env) if not isinstance(n.slice, ast.Slice) else None
            if isinstance(d, tuple):
                c = pyrx.const_value(n.slice)
                if c is not None and c.denominator == 1 and -len(d) <= int(c) < len(d):
                    return d[int(c)]
                return None
            return d
        if isinstance(n, ast.Lambda):
            e2 = dict(env)
            for a in n.args.args:
                e2.pop(a.arg, None)
            self.dim(n.body, e2)
            return None
        if isinstance(n, ast.Call):
            return self.call(n, env)
        if isinstance(n, ast.Dict):
            for kk, v in zip(n.keys, n.values):
                d = self.dim(v, env)
                if id(n) in self.handled_dicts or not isinstance(kk, ast.Constant) or \
                        kk.value not in TOL_KW or is_zero(v):
                    continue
                # a dictionary of solver keywords (passed on as **kwargs): an absolute
                # tolerance / step that is a pure number or of unknown dimension is a site
                if d == 0:
                    self.site("xtol", "{%r: %s}" % (kk.value, ast.unparse(v)), None)
                elif d is None and not (isinstance(v, ast.Constant) and v.value is None):
                    self.site("xtol?", "{%r: %s}" % (kk.value, ast.unparse(v)), None)
            return None
        if isinstance(n, (ast.ListComp, ast.GeneratorExp, ast.SetComp)):
            e2 = dict(env)
            for g in n.generators:
                self.dim(g.iter, e2)
                for t in ast.walk(g.target):
                    if isinstance(t, ast.Name):
                        e2.pop(t.id, None)
                for c in g.ifs:
                    self.dim(c, e2)
            self.dim(n.elt, e2)
            return None
        if isinstance(n, ast.JoinedStr):
            return None
        if isinstance(n, ast.Starred):
            return self.dim(n.value, env)
        return None

    def call(self, n, env):
        f = n.func
        fname = f.id if isinstance(f, ast.Name) else f.attr if isinstance(
            f, ast.Attribute) else None
        if isinstance(f, ast.Attribute):
            self.dim(f.value, env) if isinstance(f.value, ast.Call) else None
        for k in n.keywords:
            if k.arg == "options" and isinstance(k.value, ast.Dict):
                self.handled_dicts.add(id(k.value))     # judged below, with the unknown
        argd = [self.dim(a, env) for a in n.args]
        kwd = {k.arg: (k.value, self.dim(k.value, env)) for k in n.keywords if k.arg}
        # -- absolute tolerance keywords
        tol = [(k, v) for k, v in kwd.items() if k in TOL_KW]
        opt = kwd.get("options")
        if opt and isinstance(opt[0], ast.Dict):
            for kk, vv in zip(opt[0].keys, opt[0].values):
                if isinstance(kk, ast.Constant) and kk.value in TOL_KW:
                    tol.append((kk.value, (vv, self.dim(vv, env))))
        # -- solver calls that leave scipy's ABSOLUTE default in force
        SOLVERS = {"minimize_scalar": 1, "solve_ivp": 2, "isclose": 0, "allclose": 0,
                   "RK45": 2, "minimize": 1}
        if fname in SOLVERS and fname not in self.sigs and not tol and \
                not any(k.arg is None for k in n.keywords):
            nm = ast.unparse(kwd["method"][0]) if "method" in kwd else ""
            if fname != "minimize" or "Nelder" in nm or "Powell" in nm:
                k = SOLVERS[fname]
                ud0 = kwd["bounds"][1] if "bounds" in kwd and kwd["bounds"][1] is not None \
                    else (argd[k] if len(argd) > k else None)
                if ud0 != 0:
                    self.site("notol", "%s(%s) without an absolute tolerance keyword" % (
                        fname, nm), None if isinstance(ud0, tuple) else ud0)
        if fname == "round" and len(n.args) == 2 and argd[0] != 0:
            self.site("round", ast.unparse(n), argd[0] if not isinstance(argd[0], tuple)
                      else None)
        if fname in ("isclose", "allclose") and len(n.args) >= 4 and not is_zero(n.args[3]) \
                and argd[0] != 0:
            self.site("xtol", "%s(positional atol=%s)" % (fname, ast.unparse(n.args[3])),
                      argd[0] if not isinstance(argd[0], tuple) else None)
        # -- finite-difference helpers must be given the scale of their variable
        if fname in ("derivative", "gradient", "hessian") and "scale" not in kwd and \
                (isinstance(f, ast.Name) or "super()" in ast.unparse(f)) and len(n.args) < 6:
            self.site("noscale", "%s(...) without scale=" % ast.unparse(f), None)
        if tol:
            ud = _Unknown
            for key in ("bracket", "x0", "x1", "bounds"):
                if key in kwd and kwd[key][1] is not None:
                    ud = kwd[key][1]
                    break
            else:
                if fname in ("solve_ivp",) and len(argd) >= 3:
                    ud = argd[2]
                elif fname in ("minimize", "root", "fsolve", "minimize_scalar") and \
                        len(argd) >= 2:
                    ud = argd[1]
                elif fname in ("allclose", "isclose") and argd:
                    ud = argd[0]
            if ud is _Unknown:
                ud = None
            for k, (vn, vd) in tol:
                # calls of WallGo's own functions only pass the tolerance on (their
                # parameters are checked against the naming table below)
                if is_zero(vn) or fname in self.sigs:
                    continue
                if vd is None:
                    # fail closed: an absolute tolerance whose dimension cannot be told
                    if not (isinstance(vn, ast.Constant) and vn.value is None):
                        self.site("xtol?", "%s(%s=%s)" % (fname, k, ast.unparse(vn)), None)
                    continue
                if isinstance(ud, tuple) or ud is None or ud != vd:
                    self.site("xtol", "%s(%s=%s)" % (fname, k, ast.unparse(vn)),
                              None if isinstance(ud, tuple) else ud)
        # -- bounds / start vector
        if fname == "Bounds":
            lb = kwd.get("lb", (None, argd[0] if argd else None))[1]
            ub = kwd.get("ub", (None, argd[1] if len(argd) > 1 else None))[1]
            if lb is not None and ub is not None and lb != ub:
                self.site("bounds", "Bounds(lb~%s, ub~%s)" % (fmt(lb), fmt(ub)), None)
            return lb if lb is not None else ub
        if "bounds" in kwd and len(argd) >= 2 and fname in ("minimize",):
            b, x0 = kwd["bounds"][1], argd[1]
            if b is not None and x0 is not None and b != x0:
                self.site("bounds", "%s(x0~%s, bounds~%s)" % (fname, fmt(x0), fmt(b)), None)
        # -- arguments against the callee's declared parameter dimensions
        sig = self.sigs.get(fname)
        if sig and len(sig) == 1:
            cfile, ps = sig[0]
            pairs = list(zip(ps, zip(n.args, argd)))
            pairs += [(k, v) for k, v in kwd.items() if k in ps]
            for p, (an, ad) in pairs:
                if isinstance(an, ast.Starred):
                    break
                pd = self.table(cfile, p)
                if pd is not None and ad is not None and not isinstance(ad, tuple) and \
                        pd != ad and not is_zero(an):
                    self.site("arg", "%s(%s=%s)" % (fname, p, ast.unparse(an)), pd)
            # a DIMENSIONFUL parameter of the callee that is not passed: left to a default,
            # which is a pure number
            if not any(isinstance(a, ast.Starred) for a in n.args) and \
                    not any(k.arg is None for k in n.keywords):
                given = set(ps[:len(n.args)]) | set(kwd)
                for p_ in ps:
                    pd = self.table(cfile, p_)
                    if p_ not in given and p_ in self.defaulted.get(fname, ()) and \
                            pd not in (None, 0):
                        self.site("absent", "%s(%s left to its default)" % (fname, p_), pd)
        # -- result dimension
        if fname in ("concatenate", "hstack") and n.args and isinstance(
                n.args[0], (ast.Tuple, ast.List)):
            out = []
            for e in n.args[0].elts:
                d = self.dim(e, env) if False else None
            parts = argd[0] if isinstance(argd[0], tuple) else (argd[0],)
            return vec(list(parts))
        if fname in REDUCE0:
            return 0
        if fname == "sqrt" and argd:
            return None if argd[0] is None or isinstance(argd[0], tuple) else \
                Fraction(argd[0]) / 2
        if fname in ("clip",) and len(argd) == 3:
            for i in (1, 2):
                if not isinstance(argd[0], tuple) and not isinstance(argd[i], tuple):
                    self.agree("branch", argd[0], argd[i], n.args[0], n.args[i])
            return argd[0]
        if fname in SAME and argd:
            d = argd[0]
            if fname in ("min", "max", "minimum", "maximum", "fmin", "fmax") and \
                    len(argd) == 2 and not isinstance(argd[0], tuple) and \
                    not isinstance(argd[1], tuple):
                return self.agree("branch", argd[0], argd[1], n.args[0], n.args[1])
            return d
        if fname in ("zeros", "ones", "linspace", "range", "arange", "empty"):
            return None
        if fname is not None:
            return self.table(self.file, fname)
        return None


def vec(ds):
    flat = []
    for d in ds:
        flat.extend(d if isinstance(d, tuple) else [d])
    known = [d for d in flat if d is not None]
    if not known:
        return None
    if all(d == known[0] for d in known):
        return known[0]
    return tuple(flat)


def fmt(d):
    return str(list(d)) if isinstance(d, tuple) else str(d)


def numeric_default(n):
    """a default that is a non-zero number (None / 0 / strings / booleans do not count)"""
    c = pyrx.const_value(n)
    return c is not None and c != 0 and not (
        isinstance(n, ast.Constant) and isinstance(n.value, bool))


def is_float_literal(n):
    """a non-zero literal of type float (possibly signed): 1e-6, 0.01, 1.2 ... (integers such
    as loop bounds and array sizes are not tolerances)"""
    if isinstance(n, ast.UnaryOp) and isinstance(n.op, (ast.USub, ast.UAdd)):
        n = n.operand
    return isinstance(n, ast.Constant) and isinstance(n.value, float) and n.value != 0.0


def is_zero(n):
    c = pyrx.const_value(n) if isinstance(n, ast.AST) else None
    return c is not None and c == 0


def _as_load(t):
    return ast.parse(ast.unparse(t), mode="eval").body


def tolerance_sites(sources):
    """list of (file, function, kind, text, dim|None, count), in order of appearance"""
    return DimCheck(sources).run()


def coq_string(s):
    return '"' + s.replace('"', '""') + '"'


# -------------------------------------------------------------------------------------
# (c) input flow: does every input of the manager's entry points reach a consumer on EVERY
#     call?  (an input consumed only under a condition on earlier state makes the result
#     depend on the history of calls: e.g. unit-carrying scales kept from a previous setup)

FLOW_CLASS = ("manager.py", "WallGoManager")


def input_flows(sources):
    """for each method of WallGoManager and each of its parameters: (method, parameter,
    used unconditionally?, used under a condition?).  A use is a load of the parameter
    outside assert/logging/docstrings; `unconditional` = not nested in if/while/for/try/
    conditional expression/boolean short-circuit/nested function of the method body."""
    fname, cname = FLOW_CLASS
    tree = ast.parse(sources[fname])
    cls = [n for n in tree.body if isinstance(n, ast.ClassDef) and n.name == cname]
    if not cls:
        raise TranslateError("class %s not found in %s" % (cname, fname))
    out = []
    for m in cls[0].body:
        if not isinstance(m, ast.FunctionDef):
            continue
        params = [a.arg for a in m.args.args + m.args.kwonlyargs if a.arg != "self"]
        if not params:
            continue
        uses = {p: [False, False] for p in params}

        def walk(node, cond):
            if isinstance(node, (ast.Assert,)):
                return
            if isinstance(node, ast.Expr) and isinstance(node.value, ast.Call) and re.match(
                    r"(print|warnings\.warn|(logging|logger)\.(debug|info|warning|error|"
                    r"critical|exception|log))$", ast.unparse(node.value.func)):
                return
            if isinstance(node, ast.Name) and isinstance(node.ctx, ast.Load) and \
                    node.id in uses:
                uses[node.id][1 if cond else 0] = True
                return
            if isinstance(node, (ast.If, ast.While)):
                # the test is a condition (e.g. a cache test), not a consumer of the input
                for c in node.body + node.orelse:
                    walk(c, True)
                return
            if isinstance(node, ast.IfExp):
                walk(node.test, cond)
                walk(node.body, True)
                walk(node.orelse, True)
                return
            if isinstance(node, ast.BoolOp):
                walk(node.values[0], cond)
                for v in node.values[1:]:
                    walk(v, True)
                return
            if isinstance(node, ast.For):
                walk(node.iter, cond)
                for c in node.body + node.orelse:
                    walk(c, True)
                return
            if isinstance(node, ast.Try):
                for c in node.body:
                    walk(c, cond)
                for h in node.handlers:
                    for c in h.body:
                        walk(c, True)
                for c in node.orelse + node.finalbody:
                    walk(c, True)
                return
            if isinstance(node, (ast.FunctionDef, ast.Lambda)):
                body = node.body if isinstance(node.body, list) else [node.body]
                for c in body:
                    walk(c, True)
                return
            for c in ast.iter_child_nodes(node):
                walk(c, cond)
        cond = False
        for st in m.body:
            walk(st, cond)
            # everything after `if c: ... return ...` only runs when c is false
            if isinstance(st, ast.If) and any(
                    isinstance(x, ast.Return) for b in (st.body, st.orelse) for x in b):
                cond = True
        for p in params:
            out.append((m.name, p, uses[p][0], uses[p][1]))
    return out


SETUP_ROOTS = ["setupThermodynamicsHydrodynamics"]
SOLVER_ROOTS = ["setupWallSolver", "solveWall", "solveWallDetonation", "wallSpeedLTE",
                "buildGrid", "buildEOM"]


def cached_attributes(sources):
    """Cache-invalidation facts for WallGoManager: for every attribute `self.A` that is
    ASSIGNED inside the wall-solving entry points (or the methods they call) -- i.e. state
    created by solving -- : (A, also assigned by setupThermodynamicsHydrodynamics or a method
    it calls?, read by the solving entry points?).  An attribute that solving creates and
    reads but a new set-up does not rebuild survives a change of the inputs."""
    fname, cname = FLOW_CLASS
    tree = ast.parse(sources[fname])
    cls = [n for n in tree.body if isinstance(n, ast.ClassDef) and n.name == cname][0]
    meth = {m.name: m for m in cls.body if isinstance(m, ast.FunctionDef)}

    def closure(roots):
        missing = [r for r in roots if r not in meth]
        if missing:
            raise TranslateError("WallGoManager entry point(s) %s not found: the closures of "
                                 "the cache-invalidation fact are unknown" % missing)
        seen, todo = set(), list(roots)
        while todo:
            r = todo.pop()
            if r in seen:
                continue
            seen.add(r)
            for n in ast.walk(meth[r]):
                if isinstance(n, ast.Call) and isinstance(n.func, ast.Attribute) and \
                        isinstance(n.func.value, ast.Name) and n.func.value.id == "self" \
                        and n.func.attr in meth:
                    todo.append(n.func.attr)
        return seen

    MUTATORS = {"append", "update", "add", "setdefault", "extend", "insert", "pop", "clear",
                "remove", "__setitem__"}

    def top(node):
        """name of the attribute of `self` at the root of a.b[c].d ... , else None"""
        while isinstance(node, (ast.Attribute, ast.Subscript)):
            if isinstance(node, ast.Attribute) and isinstance(node.value, ast.Name) and \
                    node.value.id == "self":
                return node.attr
            node = node.value
        return None

    def attrs(names, store):
        out = set()
        for r in names:
            for n in ast.walk(meth[r]):
                if store:
                    if isinstance(n, (ast.Attribute, ast.Subscript)) and isinstance(
                            n.ctx, (ast.Store, ast.Del)) and top(n):
                        out.add(top(n))         # self.A = , self.A[k] = , self.A.b =
                    if isinstance(n, ast.Call) and isinstance(n.func, ast.Attribute) and \
                            n.func.attr in MUTATORS and top(n.func.value):
                        out.add(top(n.func.value))      # self.A.append(..), self.A.update(..)
                    if isinstance(n, ast.Call) and isinstance(n.func, ast.Name) and \
                            n.func.id in ("setattr", "delattr") and n.args and \
                            isinstance(n.args[0], ast.Name) and n.args[0].id == "self":
                        out.add("<setattr %s>" % ast.unparse(n.args[1]) if len(n.args) > 1
                                else "<setattr>")
                elif isinstance(n, ast.Attribute) and isinstance(n.value, ast.Name) and \
                        n.value.id == "self" and isinstance(n.ctx, ast.Load):
                    out.add(n.attr)
        return out
    setup, solver = closure(SETUP_ROOTS), closure(SOLVER_ROOTS)
    if not setup or not solver:
        raise TranslateError("WallGoManager entry points not found")
    made, rebuilt, read = attrs(solver, True), attrs(setup, True), attrs(solver, False)
    rows = [(a, a in rebuilt, a in read or a.startswith("<")) for a in sorted(made)]
    return rows, sorted(setup), sorted(solver)


def default_values(sources):
    """numeric defaults that carry (or hide) a unit: every field of the config.py dataclasses
    and every defaulted parameter named like a tolerance / step / scale in the analysed
    modules, as (where, name, literal text)"""
    out = []
    rx = re.compile(r"(?i)tol$|^eps|epsilon$|step|scale$|falloff|^dx$|^dT$|bounds$|^tm(in|ax)$")
    for f in SIG_FILES:
        if f not in sources:
            continue
        tree = ast.parse(sources[f])
        for n in ast.walk(tree):
            if isinstance(n, ast.ClassDef) and f == "config.py":
                for m in n.body:
                    if isinstance(m, ast.AnnAssign) and m.value is not None and \
                            isinstance(m.target, ast.Name):
                        out.append(("config.py:" + n.name, m.target.id,
                                    " ".join(ast.unparse(m.value).split())[:60]))
            elif isinstance(n, ast.FunctionDef):
                a = n.args.args
                for x, d in list(zip(a[len(a) - len(n.args.defaults):], n.args.defaults)) + [
                        (x, d) for x, d in zip(n.args.kwonlyargs, n.args.kw_defaults)
                        if d is not None]:
                    if rx.search(x.arg) and not (isinstance(d, ast.Constant)
                                                 and d.value is None):
                        out.append(("%s:%s" % (f, n.name), x.arg,
                                    " ".join(ast.unparse(d).split())[:60]))
    return out


def manager_methods(sources):
    fname, cname = FLOW_CLASS
    tree = ast.parse(sources[fname])
    cls = [n for n in tree.body if isinstance(n, ast.ClassDef) and n.name == cname][0]
    return [m.name for m in cls.body if isinstance(m, ast.FunctionDef)]


def extra_coq(defaults, methods):
    q = coq_string
    return ("Definition default_values : list (string * (string * string)) := [\n" + ";\n".join(
        "  (%s, (%s, %s))" % (q(a), q(b), q(c)) for a, b, c in defaults) + "\n].\n"
        "Definition manager_methods : list string := [" + "; ".join(q(m) for m in methods)
        + "].\n")


def attrs_coq(rows):
    return ("Definition solver_state : list cached := [\n" + ";\n".join(
        "  mk_cached %s %s %s" % (coq_string(a), "true" if b else "false",
                                  "true" if c else "false") for a, b, c in rows) + "\n].\n")


def flows_coq(flows):
    rows = ["  mk_flow %s %s %s %s" % (coq_string(f), coq_string(p),
                                       "true" if a else "false", "true" if c else "false")
            for f, p, a, c in flows]
    return ("Definition flows : list flow := [\n" + ";\n".join(rows) + "\n].\n")


def sites_coq(sites):
    rows = []
    for f, fn, kind, text, dim, cnt in sites:
        d = "None" if dim is None else "(Some (%d)%%Z)" % dim
        rows.append("  mk_site %s %s %s %s %s %d" % (
            coq_string(f), coq_string(fn), coq_string(kind), coq_string(text), d, cnt))
    return ("From Coq Require Import List String ZArith.\n"
            "From WG Require Import Lib.Units.\nImport ListNotations.\n"
            "Local Open Scope string_scope.\n"
            "(* generated by tools/gen_units.py (dimensional analysis of the AST) *)\n"
            "Definition sites : list site := [\n" + ";\n".join(rows) + "\n].\n")


def facts_coq(sites, flows, cached=(), defaults=(), methods=()):
    return sites_coq(sites) + flows_coq(flows) + attrs_coq(cached) + \
        extra_coq(defaults, methods)
