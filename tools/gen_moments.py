"""Fail-closed translator for property C13 (out-of-equilibrium moments).

From the CURRENT sources it regenerates one Coq module (text) containing

  grid.py        Grid.decompactify / compactificationDerivatives (pyrx, real formulas),
                 the cached-coordinate state machine (_cacheCoordinates,
                 changeMomentumFalloffScale, changePositionFalloffScale, the tail of
                 __init__) with arrays modelled as functions of the compact node, the
                 Gauss-Lobatto node formulas of __init__, and the frame fact "only these
                 methods write the cached attributes";
  polynomial.py  the nodal quadrature weight of Polynomial.integrate per direction
                 (the AugAssign/If block interpreted symbolically) and its basis rule
                 (integrated axes -> Cardinal, the others untouched);
  boltzmann.py   the integrand weights of BoltzmannSolver.getDeltas as scalar formulas,
                 which grid array feeds which argument on which axis (def-use), the
                 Polynomial operations applied to deltaF in order (construct /
                 changeBasis / integrate), the keyword mapping into BoltzmannDeltas, and
                 the assembled double sums  gd_moment_<field>;
  equationOfMotion.py / helpers.py
                 the per-particle summands of EOM.deltaToTmunu and gammaSq.

Anything outside the recognised shapes raises pyrx.TranslateError.
"""
import ast
import textwrap

import pyrx
from pyrx import TranslateError, Pattern

SCALARS = ["momentumFalloffT", "positionFalloff"]
COMPACT = ["chiValues", "rzValues", "rpValues"]
ARRAYS = ["xiValues", "pzValues", "ppValues", "dxidchi", "dpzdrz", "dppdrp"]
MAPS = ["decompactify", "compactificationDerivatives"]
STATE_METHODS = ["_cacheCoordinates", "changeMomentumFalloffScale",
                 "changePositionFalloffScale"]
DIR_NODE = {"z": "chi", "pz": "rz", "pp": "rp"}


def _class(tree, name):
    for n in tree.body:
        if isinstance(n, ast.ClassDef) and n.name == name:
            return n
    raise TranslateError("class %s not found" % name)


def _method(cls, name):
    for f in cls.body:
        if isinstance(f, ast.FunctionDef) and f.name == name:
            return f
    raise TranslateError("method %s.%s not found" % (cls.name, name))


def _is_self_attr(node, names=None):
    return isinstance(node, ast.Attribute) and isinstance(node.value, ast.Name) and \
        node.value.id == "self" and (names is None or node.attr in names)


def _is_doc(st):
    return isinstance(st, ast.Expr) and isinstance(st.value, ast.Constant) and \
        isinstance(st.value.value, str)


class _SelfToName(ast.NodeTransformer):
    """self.N, self.M, self.grid.N, self.grid.M -> N, M"""

    def visit_Attribute(self, node):
        self.generic_visit(node)
        if node.attr in ("N", "M"):
            v = node.value
            if (isinstance(v, ast.Name) and v.id == "self") or _is_self_attr(v, ["grid"]):
                return ast.copy_location(ast.Name(id=node.attr, ctx=ast.Load()), node)
        return node


def _natexpr(node):
    if isinstance(node, ast.Constant) and isinstance(node.value, int) and \
            not isinstance(node.value, bool) and node.value >= 0:
        return "%d" % node.value
    if isinstance(node, ast.Name) and node.id in ("N", "M"):
        return node.id
    if isinstance(node, ast.BinOp) and isinstance(node.op, (ast.Add, ast.Sub)):
        return "(%s %s %s)" % (_natexpr(node.left),
                               "+" if isinstance(node.op, ast.Add) else "-",
                               _natexpr(node.right))
    raise TranslateError("index expression %s" % ast.unparse(node))


# ------------------------------------------------------------------------------------
# grid.py

def gen_grid(src):
    tree = ast.parse(src)
    cls = _class(tree, "Grid")
    tr = pyrx.ClassTranslator(src, "Grid", SCALARS, [], [], state=False, prefix="g_")
    out = ["(* ---- generated from src/WallGo/grid.py ---- *)", tr.header()]
    for m in MAPS:
        fn = _method(cls, m)
        if [a.arg for a in fn.args.args] != ["self", "zCompact", "pzCompact", "ppCompact"]:
            raise TranslateError("%s: unexpected parameters" % m)
        out.append(tr.method(m))
    envof = "(mk_g_env %s)" % " ".join("(s_%s s)" % a for a in SCALARS)

    # state record
    fields = ["s_%s : R" % a for a in SCALARS] + ["s_%s : R -> R" % a for a in ARRAYS]
    allf = SCALARS + ARRAYS
    out.append("Record gst := mk_gst { %s }." % ";\n  ".join(fields))
    for a in allf:
        ty = "R" if a in SCALARS else "R -> R"
        out.append("Definition set_s_%s (v : %s) (s : gst) : gst :=\n  {| %s |}." % (
            a, ty, "; ".join("s_%s := %s" % (b, "v" if b == a else "s_%s s" % b)
                             for b in allf)))

    def state_body(fn, params, init=False):
        """sequence of updates of `s`; returns list of 'let s := ... in' lines"""
        env = pyrx.Env()
        for p in params:
            env.v[p] = p
        lines = []
        seen_cache = False
        k = 0
        for st in fn.body:
            if _is_doc(st):
                continue
            if isinstance(st, ast.Assign) and len(st.targets) == 1 and \
                    _is_self_attr(st.targets[0], SCALARS):
                if init and seen_cache:
                    raise TranslateError("__init__ stores a scale after caching (line %d)"
                                         % st.lineno)
                lines.append("let s := set_s_%s %s s in" % (st.targets[0].attr,
                                                            tr.expr(st.value, env)))
                continue
            if isinstance(st, ast.Assign) and len(st.targets) == 1 and \
                    isinstance(st.targets[0], ast.Tuple) and \
                    isinstance(st.value, ast.Call) and _is_self_attr(st.value.func, MAPS):
                args = st.value.args
                if st.value.keywords or len(args) != 3 or not all(
                        _is_self_attr(a, [COMPACT[i]]) for i, a in enumerate(args)):
                    raise TranslateError("%s: map not applied to the node arrays (line %d)"
                                         % (fn.name, st.lineno))
                tg = st.targets[0].elts
                if len(tg) != 3:
                    raise TranslateError("unpack arity (line %d)" % st.lineno)
                k += 1
                lines.append("let m_%d := (fun r : R => g_%s %s r r r) in" % (
                    k, st.value.func.attr, envof))
                for i, t in enumerate(tg):
                    if isinstance(t, ast.Name):
                        continue            # discarded component
                    if not _is_self_attr(t, ARRAYS):
                        raise TranslateError("store target %s (line %d)" % (
                            ast.unparse(t), st.lineno))
                    lines.append("let s := set_s_%s (fun r : R => %s) s in" % (
                        t.attr, pyrx.proj("(m_%d r)" % k, i, 3)))
                continue
            if isinstance(st, ast.Expr) and isinstance(st.value, ast.Call) and \
                    _is_self_attr(st.value.func, STATE_METHODS) and \
                    not st.value.args and not st.value.keywords:
                lines.append("let s := %s s in" % st.value.func.attr.lstrip("_"))
                seen_cache = True
                continue
            if init:
                for n in ast.walk(st):
                    if isinstance(n, ast.Attribute) and isinstance(n.ctx, ast.Store) and \
                            _is_self_attr(n, SCALARS + ARRAYS):
                        raise TranslateError("__init__: unrecognised store to %s (line %d)"
                                             % (n.attr, n.lineno))
                continue
            raise TranslateError("%s: statement outside the subset (line %d): %s" % (
                fn.name, st.lineno, ast.unparse(st)[:60]))
        if init and not seen_cache:
            raise TranslateError("__init__ does not cache the coordinates")
        return lines

    for m in STATE_METHODS:
        fn = _method(cls, m)
        ps = [a.arg for a in fn.args.args if a.arg != "self"]
        lines = state_body(fn, ps)
        out.append("Definition %s %s(s : gst) : gst :=\n  %s\n  s." % (
            m.lstrip("_"), "".join("(%s : R) " % p for p in ps), "\n  ".join(lines)))
        tr.spans[m.lstrip("_")] = (fn.lineno, fn.end_lineno, pyrx._sha(ast.unparse(fn)))
    init = _method(cls, "__init__")
    lines = state_body(init, ["positionFalloff", "momentumFalloffT"], init=True)
    out.append("Definition grid_init (positionFalloff momentumFalloffT : R) (s : gst) : gst"
               " :=\n  %s\n  s." % "\n  ".join(lines))

    # frame: which methods write the cached attributes
    writers = {}
    for f in cls.body:
        if not isinstance(f, ast.FunctionDef):
            continue
        for n in ast.walk(f):
            if isinstance(n, ast.Attribute) and isinstance(n.ctx, ast.Store) and \
                    _is_self_attr(n, SCALARS + ARRAYS + COMPACT):
                writers.setdefault(f.name, set()).add(n.attr)
    allowed = set(STATE_METHODS) | {"__init__"}
    extra = set(writers) - allowed
    if extra:
        raise TranslateError("methods outside the model write cached grid attributes: %s"
                             % sorted(extra))
    for m, ws in writers.items():
        if m != "__init__" and ws & set(COMPACT):
            raise TranslateError("%s rewrites the compact node arrays" % m)

    # node formulas (Spectral spacing)
    nodes = {}
    for st in init.body:
        if isinstance(st, ast.If) and "Spectral" in ast.unparse(st.test) and \
                "spacing" in ast.unparse(st.test):
            for a in st.body:
                if isinstance(a, ast.Assign) and _is_self_attr(a.targets[0], COMPACT):
                    nodes[a.targets[0].attr] = a.value
    for arr in COMPACT:
        if arr not in nodes:
            raise TranslateError("node formula of %s not found" % arr)
        val = _SelfToName().visit(ast.parse(ast.unparse(nodes[arr]), mode="eval").body)
        ar = [n for n in ast.walk(val) if isinstance(n, ast.Call) and
              isinstance(n.func, ast.Attribute) and n.func.attr == "arange"]
        if len(ar) != 1 or len(ar[0].args) != 2 or ar[0].keywords:
            raise TranslateError("node formula of %s: expected one np.arange(a, b)" % arr)
        lo, hi = _natexpr(ar[0].args[0]), _natexpr(ar[0].args[1])

        class Sub(ast.NodeTransformer):
            def visit_Call(self, node):
                if node is ar[0]:
                    return ast.Name(id="idx__", ctx=ast.Load())
                self.generic_visit(node)
                return node
        val = Sub().visit(val)
        env = pyrx.Env()
        env.v.update({"idx__": "(INR i)", "N": "N", "M": "M"})
        body = tr.expr(val, env)
        nm = arr.replace("Values", "")
        size = "N" if pyrx._mentions_word(body, "N") else "M"
        if pyrx._mentions_word(body, "N") and pyrx._mentions_word(body, "M"):
            raise TranslateError("node formula of %s mixes M and N" % arr)
        out.append("Definition %sNode (%s : R) (i : nat) : R := %s." % (nm, size, body))
        out.append("Definition %s_lo : nat := %s." % (nm, lo))
        out.append("Definition %s_hi (%s : nat) : nat := %s." % (nm, size, hi))

    # getters used by getDeltas / integrate
    gcd = _method(cls, "getCompactificationDerivatives")
    ret = gcd.body[-1]
    if not (isinstance(ret, ast.Return) and isinstance(ret.value, ast.Tuple) and
            all(_is_self_attr(e, ARRAYS) for e in ret.value.elts)):
        raise TranslateError("getCompactificationDerivatives: unexpected final return")
    getters = {"getCompactificationDerivatives": [e.attr for e in ret.value.elts]}
    gcc = ast.unparse(_method(cls, "getCompactCoordinates"))
    want = "chi, rz, rp = (self.chiValues, self.rzValues, self.rpValues)"
    if want not in gcc:
        raise TranslateError("getCompactCoordinates: node arrays are not returned as is")
    for d, v in DIR_NODE.items():
        if "if direction == '%s':\n        return %s" % (d, v) not in gcc:
            raise TranslateError("getCompactCoordinates: direction %s" % d)
    return "\n".join(out), tr, getters


# ------------------------------------------------------------------------------------
# polynomial.py : Polynomial.integrate

def gen_integrate(src):
    tree = ast.parse(src)
    cls = _class(tree, "Polynomial")
    fn = _method(cls, "integrate")
    tr = pyrx.ClassTranslator(src, "Polynomial", [], [], [])
    loops = [st for st in fn.body if isinstance(st, ast.For)]
    if len(loops) != 2:
        raise TranslateError("integrate: expected two loops over the axes")
    for lp in loops:
        if ast.unparse(lp.iter) != "range(self.rank)" or ast.unparse(lp.target) != "i":
            raise TranslateError("integrate: loop header")
    out = ["(* ---- generated from src/WallGo/polynomial.py (Polynomial.integrate) ---- *)"]
    # (1) basis rule
    l1 = loops[0]
    if not (len(l1.body) == 1 and isinstance(l1.body[0], ast.If) and
            ast.unparse(l1.body[0].test) == "i in axis"):
        raise TranslateError("integrate: basis loop")

    def appended(stmts):
        vals = [st.value.args[0] for st in stmts if isinstance(st, ast.Expr) and
                isinstance(st.value, ast.Call) and
                ast.unparse(st.value.func) == "basis.append"]
        others = [st for st in stmts if not isinstance(st, ast.Assert) and not (
            isinstance(st, ast.Expr) and isinstance(st.value, ast.Call) and
            ast.unparse(st.value.func) == "basis.append")]
        if len(vals) != 1 or others:
            raise TranslateError("integrate: basis loop body")
        v = vals[0]
        if isinstance(v, ast.Constant) and v.value in ("Cardinal", "Chebyshev", "Array"):
            return "B" + v.value
        if ast.unparse(v) == "self.basis[i]":
            return "b"
        raise TranslateError("integrate: appended basis %s" % ast.unparse(v))
    out.append("Definition integrate_new_basis (inAxis : bool) (b : basis) : basis :=\n"
               "  if inAxis then %s else %s." % (appended(l1.body[0].body),
                                                 appended(l1.body[0].orelse)))
    # order: changeBasis(tuple(basis)) before integrand = weight * self.coefficients
    idx = {id(st): k for k, st in enumerate(fn.body)}
    cb = [st for st in fn.body if isinstance(st, ast.Expr) and
          ast.unparse(st.value) == "self.changeBasis(tuple(basis))"]
    ig = [st for st in fn.body if isinstance(st, ast.Assign) and
          ast.unparse(st.targets[0]) == "integrand"]
    if len(cb) != 1 or len(ig) != 1 or not idx[id(loops[0])] < idx[id(cb[0])] < \
            idx[id(ig[0])] < idx[id(loops[1])]:
        raise TranslateError("integrate: order of changeBasis / integrand")
    v = ig[0].value
    if not (isinstance(v, ast.BinOp) and isinstance(v.op, ast.Mult) and
            {ast.unparse(v.left), ast.unparse(v.right)} == {"weight", "self.coefficients"}):
        raise TranslateError("integrate: integrand is not weight * self.coefficients")
    res = [st for st in fn.body if isinstance(st, ast.Assign) and
           ast.unparse(st.targets[0]) == "result"]
    if len(res) != 1 or ast.unparse(res[0].value) != "np.sum(integrand, axis)":
        raise TranslateError("integrate: result is not np.sum(integrand, axis)")
    # (2) nodal weights, by symbolic interpretation of the weights block per direction
    l2 = loops[1]
    if not (len(l2.body) == 1 and isinstance(l2.body[0], ast.If) and
            ast.unparse(l2.body[0].test) == "i in axis"):
        raise TranslateError("integrate: weight loop")
    block = l2.body[0].body
    env = pyrx.Env()
    env.v.update({"N": "N", "M": "M", "compactCoord": "x"})

    def interp(stmts, w, direction, final):
        for st in stmts:
            if isinstance(st, ast.Assign) and ast.unparse(st.targets[0]) == "compactCoord":
                if ast.unparse(st.value) != \
                        "self.grid.getCompactCoordinates(self.endpoints[i], self.direction[i])":
                    raise TranslateError("integrate: compactCoord source")
                continue
            if isinstance(st, ast.Assign) and ast.unparse(st.targets[0]) == "weights":
                v = st.value
                if not (isinstance(v, ast.BinOp) and isinstance(v.op, ast.Mult) and
                        ast.unparse(v.right) == "np.ones(compactCoord.size)"):
                    raise TranslateError("integrate: initial weights")
                w = tr.expr(v.left, env)
                continue
            if isinstance(st, ast.AugAssign) and isinstance(st.op, (ast.Div, ast.Mult)):
                op = "/" if isinstance(st.op, ast.Div) else "*"
                t = ast.unparse(st.target)
                val = None if t == "integrand" else \
                    tr.expr(_SelfToName().visit(st.value), env)
                if t == "weights":
                    w = "(%s %s %s)" % (w, op, val)
                elif t == "weights[0]":
                    w = "(if first then %s %s %s else %s)" % (w, op, val, w)
                elif t == "weights[-1]":
                    w = "(if last then %s %s %s else %s)" % (w, op, val, w)
                elif t == "integrand":
                    c = st.value
                    if not (op == "*" and isinstance(c, ast.Call) and
                            ast.unparse(c.func) == "np.expand_dims"):
                        raise TranslateError("integrate: integrand update")
                    e2 = env.copy()
                    e2.v["weights"] = w
                    final.append(tr.expr(c.args[0], e2))
                else:
                    raise TranslateError("integrate: update of %s" % t)
                continue
            if isinstance(st, ast.If):
                t = ast.unparse(st.test)
                if t.startswith("self.direction[i] == "):
                    d = ast.literal_eval(t.split("==")[1].strip())
                    w = interp(st.body if d == direction else st.orelse, w, direction,
                               final)
                elif t == "self.endpoints[i]":
                    w = "(if endpoints then %s else %s)" % (
                        interp(st.body, w, direction, final),
                        interp(st.orelse, w, direction, final))
                elif t == "not self.endpoints[i]":
                    w = "(if endpoints then %s else %s)" % (
                        interp(st.orelse, w, direction, final),
                        interp(st.body, w, direction, final))
                else:
                    raise TranslateError("integrate: test %s" % t)
                continue
            raise TranslateError("integrate: statement (line %d)" % st.lineno)
        return w

    for d in ("z", "pz", "pp"):
        final = []
        interp(block, None, d, final)
        if len(final) != 1:
            raise TranslateError("integrate: nodal factor not found")
        body = final[0]
        ps = "".join("(%s : R) " % p for p in ("M", "N") if pyrx._mentions_word(body, p))
        out.append("Definition intNodeWeight_%s %s(endpoints first last : bool) (x : R) : R"
                   " :=\n  %s." % (d, ps, body))
    tr.spans["integrate"] = (fn.lineno, fn.end_lineno, pyrx._sha(ast.unparse(fn)))
    return "\n".join(out), tr


# ------------------------------------------------------------------------------------
# boltzmann.py : BoltzmannSolver.getDeltas

def _bcast_axes(sub):
    """X[None, None, :, None] -> (X node, [2]); None when not of that shape"""
    if not isinstance(sub, ast.Subscript) or not isinstance(sub.slice, ast.Tuple):
        return None
    axes = []
    for k, e in enumerate(sub.slice.elts):
        if isinstance(e, ast.Constant) and e.value is None:
            continue
        if isinstance(e, ast.Slice) and e.lower is None and e.upper is None and \
                e.step is None:
            axes.append(k)
            continue
        return None
    return sub.value, axes


def _basis_term(node):
    if isinstance(node, ast.Constant) and node.value in ("Array", "Cardinal", "Chebyshev"):
        return "B" + node.value
    if _is_self_attr(node, ["basisM"]):
        return "bM"
    if _is_self_attr(node, ["basisN"]):
        return "bN"
    raise TranslateError("basis %s" % ast.unparse(node))


def gen_getdeltas(src, getters, intw_params):
    tree = ast.parse(src)
    cls = _class(tree, "BoltzmannSolver")
    fn = _method(cls, "getDeltas")
    tr = pyrx.ClassTranslator(src, "BoltzmannSolver", [], [], [])
    bcast = {}       # name -> (kind, detail, axes)
    unpacked = {}    # name -> grid attribute (from a getter)
    scal = []        # scalar assignments (ast) in order
    ops = []
    weights = {}     # local -> (axes, expr ast)
    poly = None
    fields = None
    dirs = None
    endpoints = None
    for st in fn.body:
        if _is_doc(st) or isinstance(st, (ast.If, ast.Return)):
            if isinstance(st, ast.If) and "deltaFPoly" in ast.unparse(st):
                raise TranslateError("getDeltas: conditional use of deltaFPoly")
            continue
        if isinstance(st, ast.Expr) and isinstance(st.value, ast.Call) and \
                isinstance(st.value.func, ast.Attribute) and \
                isinstance(st.value.func.value, ast.Name) and \
                st.value.func.value.id == poly:
            if st.value.func.attr != "changeBasis" or len(st.value.args) != 1 or \
                    st.value.keywords or not isinstance(st.value.args[0], ast.Tuple):
                raise TranslateError("getDeltas: operation on deltaFPoly (line %d)" %
                                     st.lineno)
            ops.append("PChangeBasis [%s]" % "; ".join(
                _basis_term(e) for e in st.value.args[0].elts))
            continue
        if not isinstance(st, ast.Assign) or len(st.targets) != 1:
            if poly and poly in ast.unparse(st):
                raise TranslateError("getDeltas: statement touching deltaFPoly (line %d)"
                                     % st.lineno)
            continue
        tg, val = st.targets[0], st.value
        # tuple unpack from a grid getter
        if isinstance(tg, ast.Tuple) and isinstance(val, ast.Call) and \
                isinstance(val.func, ast.Attribute) and _is_self_attr(val.func.value,
                                                                      ["grid"]):
            g = val.func.attr
            if g not in getters or val.args or val.keywords or \
                    len(tg.elts) != len(getters[g]):
                raise TranslateError("getDeltas: grid getter %s (line %d)" % (
                    ast.unparse(val), st.lineno))
            for e, a in zip(tg.elts, getters[g]):
                if isinstance(e, ast.Name):
                    unpacked[e.id] = a
            continue
        if not isinstance(tg, ast.Name):
            continue
        name = tg.id
        # Polynomial construction
        if isinstance(val, ast.Call) and isinstance(val.func, ast.Name) and \
                val.func.id == "Polynomial":
            a = val.args
            if len(a) != 5 or val.keywords or ast.unparse(a[0]) != "deltaF" or \
                    ast.unparse(a[1]) != "self.grid" or not isinstance(a[2], ast.Tuple) \
                    or not isinstance(a[3], ast.Tuple) or \
                    not isinstance(a[4], ast.Constant):
                raise TranslateError("getDeltas: Polynomial(...) shape")
            poly = name
            dirs = [ast.literal_eval(e) for e in a[3].elts]
            endpoints = bool(a[4].value)
            ops.append("PNew [%s]" % "; ".join(_basis_term(e) for e in a[2].elts))
            continue
        # integrate
        if isinstance(val, ast.Call) and isinstance(val.func, ast.Attribute) and \
                isinstance(val.func.value, ast.Name) and val.func.value.id == poly:
            if val.func.attr != "integrate" or len(val.args) != 2 or val.keywords:
                raise TranslateError("getDeltas: %s" % ast.unparse(val)[:50])
            axes = list(ast.literal_eval(val.args[0]))
            weights[name] = (axes, val.args[1])
            ops.append("PIntegrate [%s]" % "; ".join("%d%%nat" % x for x in axes))
            continue
        # BoltzmannDeltas(...)
        if isinstance(val, ast.Call) and isinstance(val.func, ast.Name) and \
                val.func.id == "BoltzmannDeltas":
            if val.args or not all(isinstance(k.value, ast.Name) for k in val.keywords):
                raise TranslateError("getDeltas: BoltzmannDeltas(...) shape")
            fields = {k.arg: k.value.id for k in val.keywords}
            continue
        # broadcast views
        b = _bcast_axes(val)
        if b is not None:
            base, axes = b
            if isinstance(base, ast.Attribute) and _is_self_attr(base.value, ["grid"]) \
                    and base.attr in ARRAYS:
                bcast[name] = ("grid", base.attr, axes)
            elif isinstance(base, ast.Name) and base.id in unpacked:
                bcast[name] = ("grid", unpacked[base.id], axes)
            elif "msqVacuum(field)" in ast.unparse(base) and axes == [0, 1]:
                bcast[name] = ("msq", None, axes)
            else:
                raise TranslateError("getDeltas: broadcast of %s (line %d)" % (
                    ast.unparse(base)[:50], st.lineno))
            continue
        # scalar formulas over the broadcast views
        used = {n.id for n in ast.walk(val) if isinstance(n, ast.Name)}
        if used & (set(bcast) | {s.targets[0].id for s in scal}):
            scal.append(st)
    if poly is None or fields is None or not weights:
        raise TranslateError("getDeltas: Polynomial / integrate / BoltzmannDeltas not found")
    if dirs[0] != "Array" or endpoints:
        raise TranslateError("getDeltas: unexpected directions/endpoints")
    fsl = ast.unparse(fn)
    if "self.background.fieldProfiles.takeSlice(1, -1, axis=" not in fsl:
        raise TranslateError("getDeltas: the mass is not taken at the interior z nodes")
    params = list(bcast)
    env = pyrx.Env()
    for p in params:
        env.v[p] = p
    ptxt = " ".join(params)
    out = ["(* ---- generated from src/WallGo/boltzmann.py (BoltzmannSolver.getDeltas) "
           "---- *)"]
    for k, s in enumerate(scal):
        blk = scal[:k] + [ast.Return(value=s.value, lineno=s.lineno)]
        out.append("Definition gd_%s (%s : R) : R :=\n  %s." % (
            s.targets[0].id, ptxt, tr.block(blk, env.copy(), None)))
    for f, local in fields.items():
        if local not in weights:
            raise TranslateError("getDeltas: %s is not the result of integrate" % local)
        axes, w = weights[local]
        blk = scal + [ast.Return(value=w, lineno=fn.lineno)]
        out.append("Definition w_%s (%s : R) : R :=\n  %s." % (
            f, ptxt, tr.block(blk, env.copy(), None)))
    out.append("Definition getDeltas_ops (bM bN : basis) : list pop :=\n  [%s]." %
               ";\n   ".join(ops))
    out.append("Definition getDeltas_directions : list string := [%s]." % "; ".join(
        '"%s"' % d for d in dirs))
    # assembled moments
    for f, local in fields.items():
        axes, _ = weights[local]
        for a in axes:
            if dirs[a] not in ("pz", "pp"):
                raise TranslateError("getDeltas: integrates over direction %s" % dirs[a])
        if sorted(axes) != [2, 3] or dirs[2:] != ["pz", "pp"]:
            raise TranslateError("getDeltas: integration axes %s of %s" % (axes, dirs))

        def node(a):
            return "(%sNode (INR N) i%d)" % (DIR_NODE[dirs[a]], a)
        args = []
        for p in params:
            kind, attr, ax = bcast[p]
            if kind == "msq":
                args.append("msq")
            else:
                if len(ax) != 1 or ax[0] not in axes:
                    raise TranslateError("getDeltas: %s lives on axes %s" % (p, ax))
                args.append("(s_%s s %s)" % (attr, node(ax[0])))
        body = "(w_%s %s) * f %s" % (f, " ".join(args), " ".join(node(a) for a in
                                                                sorted(axes)))
        for a in sorted(axes):
            d = dirs[a]
            nm = DIR_NODE[d]
            body += "\n      * intNodeWeight_%s %s%s (Nat.eqb i%d %s_lo) (Nat.eqb (S i%d) " \
                    "(%s_hi N)) %s" % (d, "(INR N) " if intw_params[d] else "",
                                       "true" if endpoints else "false", a, nm, a, nm,
                                       node(a))
        for a in sorted(axes, reverse=True):
            nm = DIR_NODE[dirs[a]]
            body = "sumf %s_lo (%s_hi N) (fun i%d : nat =>\n    %s)" % (nm, nm, a, body)
        out.append("Definition gd_moment_%s (s : gst) (N : nat) (msq : R) "
                   "(f : R -> R -> R) : R :=\n  %s." % (f, body))
    tr.spans["getDeltas"] = (fn.lineno, fn.end_lineno, pyrx._sha(ast.unparse(fn)))
    facts = dict(params=params, bcast={k: list(v) for k, v in bcast.items()},
                 fields=fields, ops=ops, directions=dirs)
    return "\n".join(out), tr, facts


# ------------------------------------------------------------------------------------
# equationOfMotion.py : EOM.deltaToTmunu, helpers.gammaSq

def gen_tmunu(eom_src, helpers_src):
    htree = ast.parse(helpers_src)
    g = [n for n in htree.body if isinstance(n, ast.FunctionDef) and n.name == "gammaSq"]
    if len(g) != 1 or [a.arg for a in g[0].args.args] != ["v"]:
        raise TranslateError("helpers.gammaSq not found")
    trh = pyrx.ClassTranslator("class H:\n    pass\n", "H", [], [], [])
    env = pyrx.Env()
    env.v["v"] = "v"
    out = ["(* ---- generated from src/WallGo/helpers.py (gammaSq) ---- *)",
           "Definition gammaSq (v : R) : R :=\n  %s." % trh.block(g[0].body, env, None)]
    tree = ast.parse(eom_src)
    cls = _class(tree, "EOM")
    fn = _method(cls, "deltaToTmunu")
    if [a.arg for a in fn.args.args] != ["self", "index", "fields", "velocityMid",
                                         "offEquilDeltas"]:
        raise TranslateError("deltaToTmunu: parameters")
    reads, scal, sums = {}, [], {}
    for st in fn.body:
        if _is_doc(st):
            continue
        if isinstance(st, ast.Return):
            if ast.unparse(st.value) != "(T30, T33)":
                raise TranslateError("deltaToTmunu: return value")
            continue
        if not (isinstance(st, ast.Assign) and len(st.targets) == 1 and
                isinstance(st.targets[0], ast.Name)):
            raise TranslateError("deltaToTmunu: statement (line %d)" % st.lineno)
        name, val = st.targets[0].id, st.value
        txt = ast.unparse(val)
        if txt.startswith("offEquilDeltas."):
            parts = txt.split(".")
            if len(parts) != 3 or parts[2] != "coefficients[:, index]":
                raise TranslateError("deltaToTmunu: read %s" % txt)
            reads[name] = parts[1]
            continue
        if isinstance(val, ast.Call) and ast.unparse(val.func) == "np.sum" and \
                len(val.args) == 1 and isinstance(val.args[0], ast.ListComp):
            lc = val.args[0]
            if len(lc.generators) != 1 or ast.unparse(lc.generators[0].target) != \
                    "(i, particle)" or ast.unparse(lc.generators[0].iter) != \
                    "enumerate(self.particles)" or lc.generators[0].ifs:
                raise TranslateError("deltaToTmunu: sum over particles")
            sums[name] = lc.elt
            continue
        scal.append(st)
    if set(sums) != {"T30", "T33"}:
        raise TranslateError("deltaToTmunu: T30/T33 sums not found")
    pats = [Pattern("%s[i]" % loc, "t_%s" % fld, "R") for loc, fld in reads.items()]
    pats += [Pattern("particle.totalDOFs", "t_dof", "R"),
             Pattern("particle.msqVacuum(fields)", "t_msq", "R")]
    tr = pyrx.ClassTranslator(eom_src, "EOM", [], pats, [], prefix="t_")
    out.append("(* ---- generated from src/WallGo/equationOfMotion.py (EOM.deltaToTmunu) "
               "---- *)")
    # fixed field order for the record
    order = ["Delta00", "Delta02", "Delta20", "Delta11"]
    if sorted(reads.values()) != sorted(order):
        raise TranslateError("deltaToTmunu: reads %s" % sorted(reads.values()))
    out.append("Record t_env := mk_t_env { %s; t_dof : R; t_msq : R }." % "; ".join(
        "t_%s : R" % f for f in order))
    for nm in ("T30", "T33"):
        env = pyrx.Env()
        env.v["velocityMid"] = "velocityMid"
        env.v[("gammaSq", "closure")] = "gammaSq"
        blk = scal + [ast.Return(value=sums[nm], lineno=fn.lineno)]
        out.append("Definition %s_term (e : t_env) (velocityMid : R) : R :=\n  %s." % (
            nm, tr.block(blk, env, None)))
    for st in scal:
        env = pyrx.Env()
        env.v["velocityMid"] = "velocityMid"
        env.v[("gammaSq", "closure")] = "gammaSq"
        k = scal.index(st)
        blk = scal[:k] + [ast.Return(value=st.value, lineno=st.lineno)]
        out.append("Definition tm_%s (velocityMid : R) : R :=\n  %s." % (
            st.targets[0].id, tr.block(blk, env, None)))
    tr.spans["deltaToTmunu"] = (fn.lineno, fn.end_lineno, pyrx._sha(ast.unparse(fn)))
    return "\n".join(out), tr, dict(reads=reads)


PRELUDE = """From Coq Require Import Reals List String Bool Arith.
From WG Require Import Lib.NumpySem Lib.Moments.
Import ListNotations.
Local Open Scope string_scope.
Local Open Scope R_scope.
"""


def generate(grid_src, poly_src, boltz_src, eom_src, helpers_src):
    g_txt, g_tr, getters = gen_grid(grid_src)
    i_txt, i_tr = gen_integrate(poly_src)
    intw_params = {}
    for d in ("z", "pz", "pp"):
        line = [l for l in i_txt.splitlines() if l.startswith(
            "Definition intNodeWeight_%s " % d)][0]
        if "(M : R)" in line and d != "z":
            raise TranslateError("integrate: momentum weight depends on M")
        intw_params[d] = "(N : R)" in line or "(M : R)" in line
    b_txt, b_tr, facts = gen_getdeltas(boltz_src, getters, intw_params)
    t_txt, t_tr, tfacts = gen_tmunu(eom_src, helpers_src)
    spans = {}
    for nm, tr in (("grid.py", g_tr), ("polynomial.py", i_tr), ("boltzmann.py", b_tr),
                   ("equationOfMotion.py", t_tr)):
        spans[nm] = tr.spans
    facts.update(tfacts)
    facts["getters"] = getters
    text = PRELUDE + "\n".join([g_txt, i_txt, b_txt, t_txt]) + "\n"
    return text, spans, facts


if __name__ == "__main__":
    import sys
    import vlib
    t, sp, fc = generate(*[vlib.read_src(f) for f in (
        "grid.py", "polynomial.py", "boltzmann.py", "equationOfMotion.py", "helpers.py")])
    sys.stdout.write(t)
    sys.stderr.write(repr(fc) + "\n")
